"""
checks.py — per-property check logic for alv.py (see DESIGN.md sections 2, 5, 7, 8).
"""
import os, sys, json, time, random, re, subprocess, collections
import alv
from alv import log
sys.path.insert(0, os.path.join(alv.HERE, "gen"))
import cases

PROBES = [b"mov rax, 0x1", b"mov rax, 0x0000000000000001", b"lea r15, [rax+rsp]", b"lea r15, [2*rax]"]


class Ctx:
    """state of one check run"""
    def __init__(self, prop, tier, seed):
        self.prop, self.tier, self.seed = prop, tier, seed
        self.t0 = time.time()
        self.obligations = []          # (name, ok, detail)
        self.violations = []           # concrete failing inputs: dict(kind, payload)
        self.broken = []               # obligations/correspondences that no longer check
        self.known_lines = []
        self.cov = collections.OrderedDict(evaluations=0, distinct_nontrivial=0, rule="", samples=[])
        self.assumptions = []
        self.axioms = {}
        self.dist = {}
        self.nontrivial = set()

    def oblige(self, name, ok, detail=""):
        self.obligations.append((name, bool(ok), detail))
        if not ok:
            self.broken.append({"obligation": name, "detail": detail[-4000:]})

    def count(self, n, nontrivial_keys):
        self.cov["evaluations"] += n
        self.nontrivial.update(nontrivial_keys)


def split_lines(text):
    """the lines of a program as str_to_instr sees them: split at every CR or LF"""
    return re.split(b"[\r\n]", text)


# ------------------------------------------------------------------------------------------
# common stages
# ------------------------------------------------------------------------------------------

def stage_proofs(cx, module, theorems, extra_modules=()):
    """regen tables (T1), build property module + driver, scan sources, audit axioms"""
    try:
        info = alv.regen()
    except alv.BuildError as e:
        cx.oblige("T1 regenerate tables from /repo/src", False, str(e))
        return None
    cx.oblige("T1 regenerate tables from /repo/src (row count cross-checked)", True)
    ok, out, dt = alv.lake_build([module, "aldriver"] + list(extra_modules))
    cx.oblige(f"lake build {module} aldriver", ok, out if not ok else "")
    cx.build_s = dt
    hits = alv.scan_sources()
    cx.oblige("source scan: no sorry/admit/axiom/native_decide/bv_decide/implemented_by/unsafe", not hits, "\n".join(hits))
    if ok:
        axioms, bad, raw = alv.audit(module, theorems)
        cx.axioms = axioms
        for t in theorems:
            tb = [b for b in bad if b.startswith(t + ":")]
            cx.oblige(f"theorem {t} (axioms: {', '.join(axioms.get(t, ['?'])) or 'none'})", not tb, "; ".join(tb))
        if cx.tier == "thorough":
            p = alv.run(["lake", "env", "leanchecker", module], cwd=alv.LEAN, timeout=1800)
            cx.oblige(f"leanchecker {module}", p.returncode == 0, (p.stdout + p.stderr)[-2000:])
    else:
        for t in theorems:
            cx.oblige(f"theorem {t}", False, "module did not build")
    return info


def build_impl(cx, name="apidrv", flavour="asan", **kw):
    try:
        return alv.build_harness(name, flavour, **kw)
    except alv.BuildError as e:
        cx.oblige(f"build implementation ({name}, {flavour})", False, str(e))
        return None


def impl_line_results(impl, keys):
    """assemble each (opt, line) alone on the implementation: {(opt,line): (rc, hexbytes)}"""
    keys = sorted(set(keys))
    ops = ["L %d %s" % (o, cases.hexs(l)) for o, l in keys]
    rc, out, err = alv.run_driver(impl, ops)
    if rc != 0 or len(out) != len(ops):
        k = alv.bisect_crash(impl, ops) if rc != 0 else len(out)
        raise ImplCrash(ops[k] if k < len(ops) else "?", err)
    res = {}
    for (o, l), line in zip(keys, out):
        p = line.split()
        res[(o, l)] = (p[0], p[2] if p[0] == "0" else "-")
    return res


class ImplCrash(Exception):
    def __init__(self, op, err):
        self.op, self.err = op, err


def table_ops(res):
    return ["T %d %s %s %s" % (o, cases.hexs(l), rc, bs) for (o, l), (rc, bs) in sorted(res.items())]


def programs_in(history):
    """program texts (bytes) of the A and C ops of a history"""
    out = []
    for op in history:
        p = op.split()
        if p[0] == "A":
            out.append(bytes.fromhex(p[2]) if p[2] != "-" else b"")
        elif p[0] == "C":
            out.append(bytes.fromhex(p[3]) if p[3] != "-" else b"")
    return out


def tie_api_mod_lf(cx, impl, histories, label):
    """T3 modulo the encoder: the parser/API model runs with the implementation's own per-line
    results (table mode), so only the state machine is compared."""
    keys = set()
    for h in histories:
        for prog in programs_in(h):
            for l in split_lines(prog):
                for o in cases.OPTS:
                    keys.add((o, l))
    try:
        res = impl_line_results(impl, keys)
    except ImplCrash as e:
        cx.violations.append({"kind": "crash", "op": e.op, "stderr": e.err[-1500:], "where": label})
        return [], []
    stream = table_ops(res) + ["Y 1"]
    nt = len(stream)
    for h in histories:
        stream += h
    n, out_c, mism, crash = alv.correspond(impl, stream, label)
    cx.count(n - nt, [])
    if crash:
        cx.violations.append({"kind": "crash", **crash})
    for m in mism:
        cx.broken.append({"correspondence": label, **m})
    cx.oblige(f"correspondence {label}: {n - nt} ops, {len(histories)} histories", not mism and not crash,
              json.dumps(mism[:3]))
    return stream[nt:], out_c[nt:]


def tie_lines(cx, impl, lines, label):
    """T2: (opt, text) cases, whole per-line pipeline, model vs implementation"""
    ops = ["L %d %s" % (o, cases.hexs(l)) for o, l in lines]
    n, out_c, mism, crash = alv.correspond(impl, ops, label)
    cx.count(n, [])
    if crash:
        cx.violations.append({"kind": "crash", **crash})
    for m in mism:
        cx.broken.append({"correspondence": label, **m})
    cx.oblige(f"correspondence {label}: {n} lines", not mism and not crash, json.dumps(mism[:3]))
    return ops, out_c


def minimise_history(impl, hist, bad_pred):
    """delta-debug a failing history (list of ops) keeping `bad_pred(hist)` true"""
    cur = list(hist)
    changed = True
    while changed and len(cur) > 1:
        changed = False
        for i in range(len(cur)):
            cand = cur[:i] + cur[i + 1:]
            try:
                if cand and bad_pred(cand):
                    cur, changed = cand, True
                    break
            except Exception:
                pass
    return cur


# ------------------------------------------------------------------------------------------
# verdict / evidence
# ------------------------------------------------------------------------------------------

def finish(cx, level_rule, exhaustive=False, extra=None):
    known = alv.known_findings(cx.prop)
    wall = time.time() - cx.t0
    new_viol = []
    for v in cx.violations:
        kf = next((k for k in known if k.get("match") and re.search(k["match"], json.dumps(v))), None)
        if kf:
            line = f"KNOWN-FINDING: property={cx.prop} {kf['class']} {kf['witness']} {kf['what']}"
            if line not in cx.known_lines:
                cx.known_lines.append(line)
        else:
            new_viol.append(v)
    for l in cx.known_lines:
        print(l)
    nob = len(cx.obligations)
    ndis = sum(1 for _, ok, _ in cx.obligations if ok)
    cx.cov["distinct_nontrivial"] = len(cx.nontrivial)
    cx.cov["rule"] = level_rule
    cx.cov["exhaustive"] = exhaustive
    cx.cov["obligations"] = nob
    cx.cov["discharged"] = ndis
    cx.cov["checker_cmd"] = "cd lean && lake build <property module> aldriver && lake env lean <audit file: #print axioms for every property theorem>"
    cx.cov["trusted_base"] = alv.TRUSTED_BASE
    cx.cov["obligation_list"] = [{"name": n, "ok": ok} for n, ok, _ in cx.obligations]
    cx.cov["axioms"] = cx.axioms
    cx.cov["input_distribution"] = cx.dist
    cx.cov["known_findings_printed"] = cx.known_lines
    if extra:
        cx.cov.update(extra)
    if not cx.cov["samples"]:
        cx.cov["samples"] = ["(no samples recorded)"]
    ev = {"property_id": cx.prop, "tier": cx.tier, "seed": cx.seed, "level": "proof", "coverage": cx.cov,
          "assumptions": cx.assumptions + [
              "the hand-written AL.Impl control flow is tied to the C code by differential execution: sampling for unbounded domains",
              "gcc, sanitizers and libc behave as documented"],
          "wall_s": round(wall, 2), "violations": len(new_viol) + (1 if cx.broken and not new_viol else 0)}
    os.makedirs(alv.EVID, exist_ok=True)
    json.dump(ev, open(os.path.join(alv.EVID, cx.prop + ".json"), "w"), indent=1)
    if new_viol:
        path = alv.write_replay(cx.prop, cx.seed, "input", {"violations": new_viol[:5], "broken": cx.broken[:5]})
        print(f"VIOLATION property={cx.prop} replay={path}")
        return 1
    if cx.broken:
        path = alv.write_replay(cx.prop, cx.seed, "obligation", {"broken": cx.broken[:10]})
        print(f"VIOLATION property={cx.prop} replay={path} no-failing-input-found")
        return 1
    print(f"OK property={cx.prop} tier={cx.tier} seed={cx.seed} obligations={ndis}/{nob} "
          f"evaluations={cx.cov['evaluations']} wall={wall:.1f}s")
    return 0


# ------------------------------------------------------------------------------------------
# property checks
# ------------------------------------------------------------------------------------------

def check_C12(cx):
    thms = ["AL.Properties.C12." + t for t in
            ["create_default", "step_refines", "refines", "refines_abs", "conc_abs", "other_instances_untouched"]]
    info = stage_proofs(cx, "AL.Properties.C12", thms)
    impl = build_impl(cx)
    if not (info and impl):
        return finish(cx, "")
    g = cases.Gen(cx.seed, info["tables"])
    r = g.r
    setters = ["mov", "sib", "swap", "nobase", "all"]
    vals = [0, 1, 2, 3]
    # discrimination: the 12 configurations give 12 distinct probe signatures on the implementation
    sig = impl_line_results(impl, [(o, p) for o in cases.OPTS for p in PROBES])
    sigs = {o: tuple(sig[(o, p)] for p in PROBES) for o in cases.OPTS}
    cx.oblige("probe lines discriminate all 12 option states on the implementation",
              len(set(sigs.values())) == 12, json.dumps({str(k): v for k, v in sigs.items()}))
    hists = []
    probe_prog = cases.hexs(b"\n".join(PROBES))

    def hist_for(calls, inst=0, extra_inst=None):
        h = ["N %d 128 cc" % inst]
        if extra_inst is not None:
            h.append("N %d 128 00" % extra_inst)
        for (i, w, v) in calls:
            h.append("S %d %s %d" % (i, w, v))
        ids = [inst] + ([extra_inst] if extra_inst is not None else [])
        for i in ids:
            h += ["O %d 0" % i, "A %d %s" % (i, probe_prog), "D %d 0 40" % i]
        h += ["F %d" % i for i in ids]
        return h
    # exhaustive: all sequences of length <= 2 (quick) / 3 (thorough) over 5 setters x 4 values
    alphabet = [(w, v) for w in setters for v in vals]
    maxlen = 3 if cx.tier == "thorough" else 2
    import itertools
    nseq = 0
    for n in range(0, maxlen + 1):
        for seq in itertools.product(alphabet, repeat=n):
            hists.append(hist_for([(0, w, v) for w, v in seq]))
            nseq += 1
    # random longer ones, also negative / large values and two live instances
    for _ in range(300 if cx.tier == "quick" else 3000):
        n = r.choice([3, 4, 6, 10])
        two = r.random() < 0.5
        calls = [((r.choice([0, 1]) if two else 0), r.choice(setters), r.choice([0, 1, 2, 3, 7, -1, 100]))
                 for _ in range(n)]
        hists.append(hist_for(calls, 0, 1 if two else None))
    ops, out = tie_api_mod_lf(cx, impl, hists, "C12 setter histories (model setters + implementation's own per-line results)")
    cx.cov["samples"] = [hists[0], hists[min(50, len(hists) - 1)], hists[-1]]
    cx.nontrivial.update(tuple(h) for h in hists)
    cx.dist = {"exhaustive_sequences_up_to_len": maxlen, "exhaustive_count": nseq, "random_histories": len(hists) - nseq}
    return finish(cx, "every sequence of up to %d setter calls (5 setters x values 0..3) exhaustively, plus seeded random "
                  "longer sequences with out-of-range values on one or two live instances; each followed by the four "
                  "probe lines; distinct = distinct call sequences" % maxlen, exhaustive=False)


def gen_histories(g, n, **kw):
    return [cases.history(g, **kw) for _ in range(n)]


def guard_violations(ops, out):
    bad = []
    for i, (op, o) in enumerate(zip(ops, out)):
        if op.startswith("M ") and o.endswith(" BAD"):
            bad.append({"op": op, "out": o[-80:], "history": history_around(ops, i),
                        "what": "bytes outside the caller buffer were modified (guard region)"})
        if op.startswith("L ") and o.endswith("GUARD-BAD"):
            bad.append({"op": op, "out": o[-80:], "what": "bytes outside the scratch buffer were modified"})
        if len(bad) >= 5:
            break
    return bad


def check_C07(cx):
    thms = ["AL.Properties.C07." + t for t in ["step_J", "contained", "contained_oob", "contained_lib", "no_room_fails"]] + \
           ["AL.Lemmas.emitOne_frame", "AL.Lemmas.runCodes_post", "AL.Lemmas.assembleAll_post", "AL.Lemmas.nopPadding_length"]
    info = stage_proofs(cx, "AL.Properties.C07", thms)
    impl = build_impl(cx)
    if not (info and impl):
        return finish(cx, "")
    g = cases.Gen(cx.seed, info["tables"])
    hists = []
    # small buffer lengths exhaustively with short programs at every start offset
    progs = [b"ret", b"mov rax, rbx\nret", b"mov rax, 0x1122334455667788\nadd rax, rbx\nret",
             b"vpaddb ymm1, ymm2, [rax+r9*4+0x100]\nnop", b"bogus\nret", b"ret\nbogus",
             b"imul r9, word [0x10+4*r13], 0x8000000000000000", b"nop11 word -1\nnop11 word -1"]
    maxn = 64 if cx.tier == "thorough" else 44
    for n in range(0, maxn + 1):
        for pi, p in enumerate(progs):
            for k in sorted(set([0, 1, max(0, n - 21), max(0, n - 20), max(0, n - 19), n])):
                for mode in (0, 1, 2):
                    h = ["N 0 %d %02x" % (n, 0xCC)]
                    if mode == 1:
                        h.append("K 0 %d" % (8 if pi % 2 else 16))
                    h.append("O 0 %d" % k)
                    if mode == 2:
                        h.append("C 0 5 %s 1" % cases.hexs(p))
                    else:
                        h.append("A 0 %s" % cases.hexs(p))
                    h += ["G 0", "M 0", "A 0 %s" % cases.hexs(b"nop"), "G 0", "M 0", "F 0"]
                    hists.append(h)
    # chunk fitting near the end of the buffer: an instruction of 10..15 bytes that has to be
    # padded to the next boundary when fewer than 20 (or fewer than its own length) bytes remain
    longs = [b"mov qword [rax+rbx*8+0x12345678], 0x12345678", b"mov rax, 0x1122334455667788",
             b"vpaddb ymm1, ymm2, [rax+r9*4+0x100]", b"add dword [eax+ecx*4+0x11223344], 0x55667788"]
    for n in range(20, (72 if cx.tier == "thorough" else 56)):
        for c in (8, 12, 16, 24, 32):
            for lead in (0, 1, 3, 5, 7):
                for li, lg in enumerate(longs):
                    if (n + c + lead + li) % (1 if cx.tier == "thorough" else 3):
                        continue
                    prog = b"\n".join([b"nop"] * lead + [lg, lg])
                    hists.append(["N 0 %d cc" % n, "K 0 %d" % c, "A 0 %s" % cases.hexs(prog), "G 0", "M 0", "F 0"])
    nex = len(hists)
    hists += gen_histories(g, 400 if cx.tier == "quick" else 6000, allow_internal=False)
    ops, out = tie_api_mod_lf(cx, impl, hists, "C07 histories on caller buffers with guard regions")
    for b in guard_violations(ops, out):
        cx.violations.append({"kind": "guard", **b})
    # a call that succeeds where the model — which, with the implementation's own per-line results,
    # fails exactly when fewer than BUFFER_TOLERANCE bytes remain (theorem no_room_fails) — fails,
    # stored an instruction inside the reserve: a concrete violation of the reserve clause
    for b in list(cx.broken):
        if b.get("impl", "").startswith("0 ") and b.get("model", "").startswith("1 ") and b.get("op", "")[:1] in "AC":
            cx.violations.append({"kind": "reserve", "what": "call returned EXIT_SUCCESS although fewer than 20 bytes "
                                  "remained for an instruction (model with the implementation's own line results fails)",
                                  "history": history_around(ops, b["op_index"]), **b})
            break
    cx.cov["samples"] = [hists[5], hists[nex + 1] if len(hists) > nex + 1 else hists[-1]]
    cx.nontrivial.update(tuple(h) for h in hists)
    cx.dist = {"buffer_lengths_exhaustive": [0, maxn], "structured_histories": nex, "random_histories": len(hists) - nex,
               "guard_checks": sum(1 for o in ops if o.startswith("M "))}
    return finish(cx, "caller buffers of every length 0..%d x 8 programs (incl. failing lines and 20/22-byte instructions) x "
                  "start offsets around the 20-byte reserve x plain/fitting/counting, then seeded random histories "
                  "(setters, chunk, offset, assemble, counting, failures followed by further calls); guard regions "
                  "checked after every dump; distinct = distinct histories" % maxn)


def history_around(ops, idx):
    """the ops of the history that contains op number idx (a history starts at its first N op
    after an F op or at the beginning)"""
    start = idx
    while start > 0 and not (ops[start].startswith("N ") and (start == 0 or ops[start - 1].startswith("F "))):
        start -= 1
    end = idx
    while end + 1 < len(ops) and not ops[end].startswith("F "):
        end += 1
    return ops[start:end + 1]


CHECKS = {"C12": check_C12, "C07": check_C07}


def run_check(prop, tier, seed):
    if prop not in CHECKS:
        print(f"no check registered for {prop}")
        return 2
    cx = Ctx(prop, tier, seed)
    return CHECKS[prop](cx)


def replay(path):
    d = json.load(open(path))
    print(json.dumps(d, indent=1)[:4000])
    prop = d["property"]
    # re-run the property's quick check; a replay is reproduced when it reports again
    return run_check(prop, "quick", d.get("seed", 1))
