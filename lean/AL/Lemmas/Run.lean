/-
  AL.Lemmas.Run — `assemble_all` as "lex all lines, then emit the codes one after the other".
  Generic in the per-line function `lf`.
-/
import AL.Impl.Api
namespace AL.Lemmas
open AL AL.Impl AL.Gen

/-- what the lines of a text yield: the codes of the lines before the first rejected line
    (skipped lines contribute nothing) and that line's error, if any -/
structure Items where
  codes : List Bytes
  err   : Option Err
deriving Repr

def items (lf : Str → R LineOut × Nat) : Nat → Str → Items
  | 0, _ => ⟨[], some (.ub "assemble_all: out of fuel")⟩
  | fuel + 1, text =>
    match text with
    | [] => ⟨[], none⟩
    | _ =>
      match lf text with
      | (.error e, _) => ⟨[], some e⟩
      | (.ok .skip, n) => items lf fuel (text.drop n)
      | (.ok (.code bs), n) =>
        let it := items lf fuel (text.drop n)
        ⟨bs :: it.codes, it.err⟩

/-- emit codes one after the other; stop at the first failure -/
def runCodes (r : Run) : List Bytes → Run × Option Err
  | [] => (r, none)
  | bs :: rest =>
    match emitOne r bs with
    | (r', some e) => (r', some e)
    | (r', none) => runCodes r' rest

def finish (x : Run × Option Err) (lexErr : Option Err) : AllRes :=
  match x.2 with
  | some e => ⟨x.1.a, .error e, x.1.brks⟩
  | none =>
    match lexErr with
    | some e => ⟨x.1.a, .error e, x.1.brks⟩
    | none => ⟨x.1.a, .ok x.1.bufPos, x.1.brks⟩

theorem assembleAllGo_eq (lf : Str → R LineOut × Nat) (fuel : Nat) (r : Run) (text : Str) :
    assembleAllGo lf fuel r text =
      finish (runCodes r (items lf fuel text).codes) (items lf fuel text).err := by
  induction fuel generalizing r text with
  | zero => simp [assembleAllGo, items, runCodes, finish]
  | succ fuel ih =>
    unfold assembleAllGo items
    cases text with
    | nil => simp [runCodes, finish]
    | cons c cs =>
      simp only
      rcases h : lf (c :: cs) with ⟨res, n⟩
      cases res with
      | error e => simp [runCodes, finish]
      | ok lo =>
        cases lo with
        | skip => simp only [ih]
        | code bs =>
          simp only
          rcases h2 : emitOne r bs with ⟨r', oe⟩
          cases oe with
          | some e => simp [runCodes, h2, finish]
          | none => simp [runCodes, h2, ih]

end AL.Lemmas
