/-
  AL.Lemmas.Contain — lifting the one-step frame lemma to whole calls.
-/
import AL.Lemmas.Emit
namespace AL.Lemmas
open AL AL.Impl AL.Gen

/-- the documented reserve: no instruction is longer than BUFFER_TOLERANCE bytes -/
def MaxLen (lf : Str → R LineOut × Nat) : Prop :=
  ∀ text bs n, lf text = (.ok (.code bs), n) → bs.length ≤ 20

theorem items_codes_len (lf : Str → R LineOut × Nat) (h : MaxLen lf) (fuel : Nat) (text : Str) :
    ∀ bs ∈ (items lf fuel text).codes, bs.length ≤ 20 := by
  induction fuel generalizing text with
  | zero => intro bs hb; simp [items] at hb
  | succ fuel ih =>
    unfold items
    cases text with
    | nil => intro bs hb; simp at hb
    | cons c cs =>
      simp only
      rcases hl : lf (c :: cs) with ⟨res, n⟩
      cases res with
      | error e => intro bs hb; simp at hb
      | ok lo =>
        cases lo with
        | skip => exact ih _
        | code b0 =>
          intro bs hb
          simp only [List.mem_cons] at hb
          rcases hb with rfl | hb
          · exact h _ _ _ hl
          · exact ih _ _ hb

theorem items_codes_count (lf : Str → R LineOut × Nat) (fuel : Nat) (text : Str) :
    (items lf fuel text).codes.length ≤ fuel := by
  induction fuel generalizing text with
  | zero => simp [items]
  | succ fuel ih =>
    unfold items
    cases text with
    | nil => simp
    | cons c cs =>
      simp only
      rcases hl : lf (c :: cs) with ⟨res, n⟩
      cases res with
      | error e => simp
      | ok lo =>
        cases lo with
        | skip => exact Nat.le_succ_of_le (ih _)
        | code b0 => simp only [List.length_cons]; exact Nat.succ_le_succ (ih _)

/-- growth quantum per emitted instruction: none for a caller buffer -/
def growth (a : Inst) : Nat := if a.external then 0 else 12000

/-- postcondition of a whole run -/
structure RunPost (r : Run) (x : Run × Option Err) (k : Nat) : Prop where
  frame : Frame r.bufPos r.a x.1.a
  mono  : r.bufPos ≤ x.1.bufPos
  inb   : x.1.bufPos ≤ x.1.a.mem.length
  grow  : x.1.a.mem.length ≤ r.a.mem.length + growth r.a * k

theorem runCodes_post (cs : List Bytes) (r : Run) (hinv : BufInv r.a)
    (hpos : r.bufPos ≤ r.a.mem.length)
    (hsmall : r.a.mem.length + growth r.a * cs.length + 60 < 2 ^ 31) :
    RunPost r (runCodes r cs) cs.length := by
  induction cs generalizing r with
  | nil => exact ⟨Frame.refl _ _ hinv, Nat.le_refl _, hpos, by simp [runCodes]⟩
  | cons bs rest ih =>
    have h1 := emitOne_frame r bs hinv (by omega) hpos
    obtain ⟨hf, hm, hi, h40, hg⟩ := h1
    have hgrow1 : (emitOne r bs).1.a.mem.length ≤ r.a.mem.length + growth r.a := by
      unfold growth
      by_cases he : r.a.external = true
      · simp only [he, if_true]; rw [hf.ext_len he]; omega
      · simp only [he]; simpa using hg
    have hgr : growth (emitOne r bs).1.a = growth r.a := by unfold growth; rw [hf.external]
    unfold runCodes
    rcases hx : emitOne r bs with ⟨r', oe⟩
    rw [hx] at hf hm hi h40 hg hgrow1 hgr
    simp only at hf hm hi h40 hg hgrow1 hgr
    have hlenpos : rest.length + 1 = (bs :: rest).length := by simp
    cases oe with
    | some e =>
      refine ⟨hf, hm, hi, ?_⟩
      simp only [List.length_cons, Nat.mul_succ]; omega
    | none =>
      simp only [List.length_cons, Nat.mul_succ] at hsmall
      have ih' := ih r' hf.inv hi (by rw [hgr]; omega)
      refine ⟨Frame.trans hm hf ih'.frame, Nat.le_trans hm ih'.mono, ih'.inb, ?_⟩
      have := ih'.grow
      rw [hgr] at this
      simp only [List.length_cons, Nat.mul_succ]; omega

end AL.Lemmas

namespace AL.Lemmas
open AL AL.Impl AL.Gen

theorem toU32_nonneg (k : Int) (h0 : 0 ≤ k) (h1 : k < 2 ^ 32) : toU32 k = k.toNat := by
  unfold toU32
  rw [Int.emod_eq_of_lt h0 h1]

theorem finish_a (x : Run × Option Err) (e : Option Err) : (finish x e).a = x.1.a := by
  unfold finish
  cases x.2 with
  | some _ => rfl
  | none => cases e <;> rfl

theorem finish_ok (x : Run × Option Err) (e : Option Err) (bp : Nat) (h : (finish x e).ret = .ok bp) :
    bp = x.1.bufPos ∧ x.2 = none ∧ e = none := by
  unfold finish at h
  cases h2 : x.2 with
  | some _ => rw [h2] at h; cases h
  | none =>
    rw [h2] at h
    cases e with
    | some _ => cases h
    | none =>
      injection h with h
      exact ⟨h.symm, rfl, rfl⟩

/-- **a whole `assemble_all` call** (any mode, success or failure) on an instance whose offset
    lies inside its buffer: only memory at and behind the offset changes, nothing is written
    outside the buffer, and a returned position lies inside the buffer. -/
theorem assembleAll_post (lf : Str → R LineOut × Nat) (a : Inst) (text : Str)
    (d : Bool) (hinv : BufInv a) (h0 : 0 ≤ a.offset) (h1 : a.offset ≤ a.mem.length)
    (hsmall : a.mem.length + growth a * (text.length + 1) + 60 < 2 ^ 31) :
    Frame a.offset.toNat a (assembleAll lf a text d).a ∧
    (assembleAll lf a text d).a.mem.length ≤ a.mem.length + growth a * (text.length + 1) ∧
    ∀ bp, (assembleAll lf a text d).ret = .ok bp →
      a.offset.toNat ≤ bp ∧ bp ≤ (assembleAll lf a text d).a.mem.length := by
  unfold assembleAll
  rw [assembleAllGo_eq]
  have hoff : toU32 a.offset = a.offset.toNat := toU32_nonneg _ h0 (by omega)
  rw [hoff]
  generalize hr : ({ a := a, bufPos := a.offset.toNat, brks := if d then some 0 else none } : Run) = r
  have hra : r.a = a := by rw [← hr]
  have hrp : r.bufPos = a.offset.toNat := by rw [← hr]
  have hcnt := items_codes_count lf (text.length + 1) text
  have hgm : growth a * (items lf (text.length + 1) text).codes.length ≤ growth a * (text.length + 1) :=
    Nat.mul_le_mul_left _ hcnt
  have hp := runCodes_post (items lf (text.length + 1) text).codes r (by rw [hra]; exact hinv)
    (by rw [hra, hrp]; omega) (by rw [hra]; omega)
  rw [finish_a]
  refine ⟨?_, ?_, ?_⟩
  · have := hp.frame; rw [hra, hrp] at this; exact this
  · have := hp.grow; rw [hra] at this; omega
  · intro bp hbp
    obtain ⟨hb, _, _⟩ := finish_ok _ _ _ hbp
    subst hb
    have := hp.mono; have := hp.inb
    rw [hrp] at *
    constructor <;> assumption

end AL.Lemmas
