/-
  AL.Lemmas.Bits — single-bit tests and low-bit masks on unbounded naturals, in arithmetic form.
-/
namespace AL.Lemmas

theorem and_two_pow (v k : Nat) : v &&& 2 ^ k = if v.testBit k then 2 ^ k else 0 := by
  apply Nat.eq_of_testBit_eq
  intro i
  rw [Nat.testBit_and, Nat.testBit_two_pow]
  by_cases h : k = i
  · subst h
    cases hv : v.testBit k <;> simp [hv, Nat.testBit_two_pow_self]
  · cases hv : v.testBit k <;> simp [h, Nat.testBit_two_pow_of_ne h]

/-- bit k is set iff the value modulo 2^(k+1) is at least 2^k -/
theorem testBit_iff_mod (v k : Nat) : v.testBit k = true ↔ 2 ^ k ≤ v % 2 ^ (k + 1) := by
  rw [Nat.testBit_eq_decide_div_mod_eq, decide_eq_true_eq]
  have h1 : v % 2 ^ (k + 1) = v % 2 ^ k + 2 ^ k * (v / 2 ^ k % 2) := by
    rw [Nat.pow_succ, Nat.mod_mul]
  have h2 := Nat.mod_lt v (Nat.two_pow_pos k)
  have h3 := Nat.mod_lt (v / 2 ^ k) (show 0 < 2 by decide)
  constructor
  · intro h; rw [h1, h]; omega
  · intro h
    rw [h1] at h
    by_cases hz : v / 2 ^ k % 2 = 0
    · rw [hz] at h; omega
    · omega

theorem and_two_pow_ne_zero (v k : Nat) : (v &&& 2 ^ k != 0) = true ↔ 2 ^ k ≤ v % 2 ^ (k + 1) := by
  rw [and_two_pow, ← testBit_iff_mod]
  cases hv : v.testBit k
  · simp
  · simp

end AL.Lemmas
