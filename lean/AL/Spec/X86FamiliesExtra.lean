/-
  AL.Spec.X86FamiliesExtra — instances added to the C02 family after round 11 (kept in a file of their own: the kernel-checked modules of
  C01 import AL.Spec.X86Families and would all be re-checked if that file changed).

  `famC02x`: the displacements at the ends of the disp32 range (−2^31, 2^31 − 1) and next to them, on every memory shape kind — base only,
  base + scaled index, scaled index without base, absolute address, 32-bit address registers — under a representative of every encoding
  class (integer load / store / immediate store, SSE, VEX), in hexadecimal and in decimal.
-/
import AL.Spec.X86Families
namespace AL.Spec.X86

def dispExtreme : List Int := [-0x80000000, -0x7fffffff, 0x7fffffff, 0x7ffffffe, -0x7ffffff9]

def memsExtreme (size : Nat) : List Mem :=
  memShapes [none, some 3, some 13] [none, some 1, some 9] [4] dispExtreme [false] size ++
  memShapes [some 3] [none, some 6] [2] dispExtreme [true] size

def famC02x : List Item :=
  (table.filter fun en => hasRm en && !hasRel en &&
      (en.mn == (mn! "mov") || en.mn == (mn! "add") || en.mn == (mn! "paddb") || en.mn == (mn! "vaddpd") || en.mn == (mn! "lea") ||
       en.mn == (mn! "mulx") || en.mn == (mn! "push"))).flatMap fun en =>
    let f : Fill := { mems := memsExtreme, imms := memImm, rels8 := [], rels32 := [], regForm := false, memForm := true }
    let ds := fewRegs (enumEnc f en)
    items {} ds ++ items { num := .dec } ds

end AL.Spec.X86
