/-
  AL.Lemmas.Arith — chunk arithmetic (core Lean only).
-/
namespace AL.Lemmas

/-- an instruction of `len ≥ 1` bytes at position `p` spans two `c`-aligned chunks exactly when
    it is longer than what is left of the current chunk -/
theorem cross_iff (c p len : Nat) (hc : 0 < c) (hl : 0 < len) :
    len > c - p % c ↔ p / c ≠ (p + len - 1) / c := by
  have hmod := Nat.mod_lt p hc
  have hdm := Nat.div_add_mod p c
  generalize hq : p / c = q at *
  generalize hr : p % c = r at *
  have hp : p = c * q + r := by omega
  subst hp
  constructor
  · intro h
    have : c * q + r + len - 1 ≥ c * (q + 1) := by
      have : c * (q + 1) = c * q + c := by rw [Nat.mul_add, Nat.mul_one]
      omega
    have h2 : (c * q + r + len - 1) / c ≥ q + 1 := by
      apply (Nat.le_div_iff_mul_le hc).2
      rw [Nat.mul_comm]; exact this
    omega
  · intro h
    apply Classical.byContradiction
    intro hn
    have hle : r + len - 1 < c := by omega
    have : (c * q + r + len - 1) / c = q := by
      have e : c * q + r + len - 1 = (r + len - 1) + q * c := by
        rw [Nat.mul_comm]; omega
      rw [e, Nat.add_mul_div_right _ _ hc, Nat.div_eq_of_lt hle]; omega
    exact h this.symm

/-- after padding to the end of the chunk the position is chunk-aligned -/
theorem pad_aligned (c p : Nat) (hc : 0 < c) : (p + (c - p % c)) % c = 0 := by
  have hmod := Nat.mod_lt p hc
  have hdm := Nat.div_add_mod p c
  have : p + (c - p % c) = c * (p / c + 1) := by
    rw [Nat.mul_add, Nat.mul_one]; omega
  rw [this]; exact Nat.mul_mod_right _ _

/-- an instruction that fits into what is left of the chunk lies inside one chunk -/
theorem fits_same_chunk (c p len : Nat) (hc : 0 < c) (hl : 0 < len) (h : len ≤ c - p % c) :
    p / c = (p + len - 1) / c := by
  apply Classical.byContradiction
  intro hne
  have := (cross_iff c p len hc hl).2 hne
  omega

end AL.Lemmas
