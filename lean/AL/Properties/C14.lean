/-
  C14 — chunk counting reports exactly the boundary-crossing instructions.

  On an instance without chunk fitting, `asm_assemble_string_counting_chunks(al, text, c, &dest)`
  * for c ≥ 2 leaves the instance (buffer, offset, options, mode, chunk setting) exactly as
    `asm_assemble_str(al, text)` does, returns the same value, and stores in `dest` the number of
    this call's instructions whose bytes, at their final positions, span two `c`-aligned chunks
    (`crossCount`: ⌊p/c⌋ ≠ ⌊(p+len-1)/c⌋, written independently of the code's `free_space` test);
  * for c < 2 is a plain assembly that reports zero.
  For EVERY text, chunk size, start offset and per-line function.
-/
import AL.Lemmas.Layout
import AL.Lemmas.CallSplit
namespace AL.Properties.C14
open AL AL.Impl AL.Gen AL.Lemmas

theorem countSetup_ge2 (a : Inst) (c : Int) (h2 : 2 ≤ c) :
    countSetup a c = setMC a .count (c % (2 ^ 64 : Int)).toNat := by
  unfold countSetup setMC
  have : ¬ c < 2 := by omega
  simp [this]

theorem countSetup_lt2 (a : Inst) (c : Int) (h2 : c < 2) :
    countSetup a c = setMC a .assemble (c % (2 ^ 64 : Int)).toNat := by
  unfold countSetup setMC
  simp [h2]

theorem restore_eq (x a : Inst) (m : Mode) (c : Nat) (h : SameCfg a x) :
    ({ setMC x m c with mode := a.mode, chunkSize := a.chunkSize } : Inst) = x := by
  obtain ⟨h1, h2, _, _, _⟩ := h
  cases x
  simp only [setMC] at *
  subst h1 h2
  rfl

/-- **C14, c ≥ 2.** -/
theorem count_call (lfo : LineFnOf) (a : Inst) (text : Str) (c : Int)
    (hmode : a.mode = .assemble) (hc2 : 2 ≤ c) (hc31 : c < 2 ^ 31)
    (h0 : 0 ≤ a.offset) (hoff : a.offset < 2 ^ 32)
    (hp : a.offset.toNat + totalLen (codesOf lfo a.opt text) < 2 ^ 32) :
    (asmCountingChunksWith lfo a text c true).1 = (asmAssembleStrWith lfo a text).1 ∧
    (asmCountingChunksWith lfo a text c true).2.1 = (asmAssembleStrWith lfo a text).2 ∧
    ((asmAssembleStrWith lfo a text).2 = .ok () →
      (asmCountingChunksWith lfo a text c true).2.2 =
        some ((crossCount c.toNat a.offset.toNat (codesOf lfo a.opt text) : Nat) : Int)) := by
  have hcn : (c % (2 ^ 64 : Int)).toNat = c.toNat := by
    rw [Int.emod_eq_of_lt (by omega) (by omega)]
  have hu : toU32 a.offset = a.offset.toNat := toU32_nonneg _ h0 hoff
  rw [plain_eq, counting_eq, countSetup_ge2 a c hc2, hcn, hu]
  obtain ⟨k, hk1, hk2⟩ := runCodes_count (codesOf lfo a.opt text) a a.offset.toNat none 0 c.toNat
    hmode (by omega) (by omega) hp
  rw [hk1]
  generalize hx : runCodes { a := a, bufPos := a.offset.toNat, brks := none }
    (codesOf lfo a.opt text) = x at *
  have hcfg : SameCfg a x.1.a := by
    have := runCodes_cfg (codesOf lfo a.opt text) { a := a, bufPos := a.offset.toNat, brks := none }
    rw [hx] at this; exact this
  have hrest := restore_eq x.1.a a Mode.count c.toNat hcfg
  rcases x with ⟨xr, xe⟩
  simp only at hrest hk2 ⊢
  cases xe with
  | some e =>
    simp only [outcome]
    refine ⟨hrest, ?_, ?_⟩
    · trivial
    · intro h; cases h
  | none =>
    cases herr : (items (lfo a.opt) (text.length + 1) text).err with
    | some e =>
      simp only [outcome]
      refine ⟨hrest, ?_, ?_⟩
      · trivial
      · intro h; cases h
    | none =>
      simp only [outcome]
      refine ⟨congrArg (fun z : Inst => { z with offset := toInt32 xr.bufPos }) hrest, ?_, fun _ => ?_⟩
      · trivial
      · rw [hk2 rfl]
        simp

/-- **C14, c < 2**: a plain assembly that reports zero. -/
theorem count_call_small (lfo : LineFnOf) (a : Inst) (text : Str) (c : Int)
    (hmode : a.mode = .assemble) (hc : c < 2) :
    (asmCountingChunksWith lfo a text c true).1 = (asmAssembleStrWith lfo a text).1 ∧
    (asmCountingChunksWith lfo a text c true).2.1 = (asmAssembleStrWith lfo a text).2 ∧
    (asmCountingChunksWith lfo a text c true).2.2 = some 0 := by
  rw [plain_eq, counting_eq, countSetup_lt2 a c hc,
    runCodes_plain_setMC _ a _ none (some 0) _ hmode]
  generalize hx : runCodes { a := a, bufPos := toU32 a.offset, brks := none }
    (codesOf lfo a.opt text) = x at *
  have hcfg : SameCfg a x.1.a := by
    have := runCodes_cfg (codesOf lfo a.opt text) { a := a, bufPos := toU32 a.offset, brks := none }
    rw [hx] at this; exact this
  have hrest := restore_eq x.1.a a Mode.assemble (c % (2 ^ 64 : Int)).toNat hcfg
  rcases x with ⟨xr, xe⟩
  simp only at hrest ⊢
  cases xe with
  | some e => simp only [outcome]; exact ⟨hrest, by trivial, by trivial⟩
  | none =>
    cases herr : (items (lfo a.opt) (text.length + 1) text).err with
    | some e => simp only [outcome]; exact ⟨hrest, by trivial, by trivial⟩
    | none =>
      simp only [outcome]
      exact ⟨congrArg (fun z : Inst => { z with offset := toInt32 xr.bufPos }) hrest, by trivial, by trivial⟩

/-- the specification counts exactly the instructions that lie in two or more chunks:
    with `c ≥ 1`, an instruction `[p, p+len)` with `len ≥ 1` is inside one chunk iff its first
    and last byte have the same chunk index -/
theorem crosses_spec (c p len : Nat) :
    crosses c p len = true ↔ (0 < len ∧ p / c ≠ (p + len - 1) / c) := by
  unfold crosses; simp

/-- additivity: the count of a program fed in two successive calls is the sum of the counts -/
theorem crossCount_append (c p : Nat) (cs1 cs2 : List Bytes) :
    crossCount c p (cs1 ++ cs2) = crossCount c p cs1 + crossCount c (p + totalLen cs1) cs2 := by
  induction cs1 generalizing p with
  | nil => simp [crossCount, totalLen]
  | cons bs rest ih =>
    simp only [List.cons_append, crossCount, totalLen, ih]
    rw [Nat.add_assoc, Nat.add_assoc]

/-- non-vacuity: chunk 4, start 2, codes of 3, 1 and 5 bytes: the 3- and the 5-byte ones cross -/
example : crossCount 4 2 [[1, 2, 3], [4], [5, 6, 7, 8, 9]] = 2 := by decide

end AL.Properties.C14
