/-
  AL.Spec.X86 — reference DECODER for the x86-64 subset AssemblyLine supports, written from the
  architecture manuals' encoding rules (legacy prefixes, REX, VEX, opcode maps, ModRM/SIB,
  displacement and immediate widths), NOT from src/instructions.c.  It is the formal reading of
  "an x86-64 decoder reads back the same operation" in C01–C05 and is itself cross-validated
  against binutils' objdump on every run (check side).

  `decode bytes = some d` : the first instruction of `bytes`, its operands in Intel order and its
  length.  Operand values are numbers, not text:
    reg  : register file and number (legacy high-byte registers are file `gpr8h`, number 4..7)
    mem  : access width in bits (0 = not defined by the encoding), address size, base, index,
           scale, sign-extended displacement
    imm  : the value after the architecture's extension to the operand size, as an unsigned
           number of that size
    rel  : width of the displacement field and its signed value
-/
namespace AL.Spec.X86

abbrev Bytes := List Nat

/-- a mnemonic: its characters as numbers (no `String`: the kernel evaluates list literals cheaply, which lets the finite
    families over this table be decided by `decide +kernel`) -/
abbrev Mn := List Nat

open Lean in
/-- `mn! "add"` is the list literal `[97, 100, 100]` -/
macro "mn! " s:str : term => do
  let cs : Array (TSyntax `term) :=
    (s.getString.toUTF8.toList.map (fun b => (Syntax.mkNumLit (toString b.toNat) : TSyntax `term))).toArray
  `(([$cs,*] : List Nat))

def Mn.str (m : Mn) : String := String.ofList (m.map Char.ofNat)

inductive File | gpr8 | gpr8h | gpr16 | gpr32 | gpr64 | mm | xmm | ymm
deriving DecidableEq, Repr

structure Reg where
  file : File
  num  : Nat
deriving DecidableEq, Repr

structure Mem where
  size   : Nat            -- access width in bits, 0 when the opcode does not define one (lea, prefetch)
  addr32 : Bool           -- 0x67 address-size prefix
  base   : Option Nat     -- register number 0..15 (address-size wide)
  index  : Option Nat
  scale  : Nat            -- 1, 2, 4, 8 (1 when there is no index)
  disp   : Int
  rip    : Bool := false  -- mod 00 r/m 101 without SIB
deriving DecidableEq, Repr

inductive Opnd
  | reg (r : Reg)
  | mem (m : Mem)
  | imm (bits : Nat) (v : Nat)      -- value extended to `bits` (the operand size), unsigned
  | rel (bits : Nat) (d : Int)      -- displacement field width and signed value
deriving DecidableEq, Repr

structure Dec where
  mn  : Mn
  ops : List Opnd
  len : Nat
deriving DecidableEq, Repr

/-! ### little-endian fields -/

def leVal : Bytes → Nat
  | [] => 0
  | b :: bs => b + 256 * leVal bs

/-- two's complement reading of an `n`-bit value -/
def toSigned (bits v : Nat) : Int :=
  if v < 2 ^ (bits - 1) then (v : Int) else (v : Int) - (2 ^ bits : Nat)

/-- sign extension of an `n`-bit value to `m ≥ n` bits, as unsigned -/
def sext (n m v : Nat) : Nat :=
  if v < 2 ^ (n - 1) then v else v + (2 ^ m - 2 ^ n)

/-! ### operand templates -/

inductive Size | s8 | s16 | s32 | s64 | s128 | s256
  | osz      -- 16/32/64 by 0x66 / REX.W
  | osz64    -- 64 by default, 16 with 0x66 (push, pop, near call/jmp)
  | w3264    -- 64 with W (REX.W or VEX.W), else 32
  | none
deriving DecidableEq, Repr

inductive Cls | gpr | mm | xmm | ymm
deriving DecidableEq, Repr

inductive OpT
  | rm (c : Cls) (sz : Size) (memSz : Size)   -- ModRM.rm: register of class/size or memory of memSz
  | rmReg (c : Cls) (sz : Size)               -- ModRM.rm, register form only (mod = 3)
  | rmMem (memSz : Size)                      -- ModRM.rm, memory form only
  | reg (c : Cls) (sz : Size)                 -- ModRM.reg
  | vvvv (c : Cls) (sz : Size)                -- VEX.vvvv
  | opc (sz : Size)                           -- low three opcode bits (+rd)
  | acc (sz : Size) | cl | one
  | immS8                                     -- imm8 sign-extended to the operand size
  | immZ                                      -- imm16/imm32 by operand size, imm32 sign-extended for 64
  | immFull                                   -- imm16/32/64 by operand size (mov r, imm)
  | imm8 (bits : Nat)                         -- imm8 as is, reported with `bits` (8 for byte operations)
  | imm32s64                                  -- imm32 sign-extended to 64 (push imm32)
  | imm8s64                                   -- imm8 sign-extended to 64 (push imm8)
  | rel8 | rel32
deriving DecidableEq, Repr

/-- how the 0x66/F2/F3 prefixes take part in opcode selection -/
inductive PK | opsize | np | p66 | pF2 | pF3
deriving DecidableEq, Repr

inductive VexL | none | l128 | l256 | lz
deriving DecidableEq, Repr

structure Enc where
  mn    : Mn
  pk    : PK := .opsize
  map   : Nat := 0              -- 0 one-byte, 1 0F, 2 0F38, 3 0F3A
  opc   : Nat
  plusR : Bool := false         -- register in the low three opcode bits
  ext   : Option Nat := none    -- /digit
  modrm : Option Nat := none    -- whole ModRM byte fixed (lfence, xend, xbegin ..)
  vex   : VexL := .none
  vexW  : Option Bool := none   -- required W bit (REX.W or VEX.W), none = ignored / used as operand size
  dflt64 : Bool := false        -- operand size 64 without REX.W (push/pop/call/jmp near)
  ops   : List OpT
deriving Repr

/-! ### the opcode table (subset) -/

open OpT Size Cls in
def alu (mn : Mn) (n : Nat) : List Enc :=
  [ { mn, opc := 8 * n,     ops := [rm gpr s8 s8, reg gpr s8] },
    { mn, opc := 8 * n + 1, ops := [rm gpr osz osz, reg gpr osz] },
    { mn, opc := 8 * n + 2, ops := [reg gpr s8, rm gpr s8 s8] },
    { mn, opc := 8 * n + 3, ops := [reg gpr osz, rm gpr osz osz] },
    { mn, opc := 8 * n + 4, ops := [acc s8, imm8 8] },
    { mn, opc := 8 * n + 5, ops := [acc osz, immZ] },
    { mn, opc := 0x80, ext := some n, ops := [rm gpr s8 s8, imm8 8] },
    { mn, opc := 0x81, ext := some n, ops := [rm gpr osz osz, immZ] },
    { mn, opc := 0x83, ext := some n, ops := [rm gpr osz osz, immS8] } ]

open OpT Size Cls in
def shiftGrp (mn : Mn) (n : Nat) : List Enc :=
  [ { mn, opc := 0xC0, ext := some n, ops := [rm gpr s8 s8, imm8 8] },
    { mn, opc := 0xC1, ext := some n, ops := [rm gpr osz osz, imm8 8] },
    { mn, opc := 0xD0, ext := some n, ops := [rm gpr s8 s8, one] },
    { mn, opc := 0xD1, ext := some n, ops := [rm gpr osz osz, one] },
    { mn, opc := 0xD2, ext := some n, ops := [rm gpr s8 s8, cl] },
    { mn, opc := 0xD3, ext := some n, ops := [rm gpr osz osz, cl] } ]

/-- condition code names, canonical spelling per code -/
def ccNames : List Mn :=
  [(mn! "o"), (mn! "no"), (mn! "b"), (mn! "ae"), (mn! "e"), (mn! "ne"), (mn! "be"), (mn! "a"), (mn! "s"), (mn! "ns"), (mn! "p"), (mn! "np"), (mn! "l"), (mn! "ge"), (mn! "le"), (mn! "g")]

open OpT Size Cls in
def ccGrp : List Enc :=
  (List.range 16).flatMap fun c =>
    let cc := ccNames.getD c (mn! "")
    [ { mn := (mn! "cmov") ++ cc, map := 1, opc := 0x40 + c, ops := [reg gpr osz, rm gpr osz osz] },
      { mn := (mn! "set") ++ cc, map := 1, opc := 0x90 + c, ops := [rm gpr s8 s8] },
      { mn := (mn! "j") ++ cc, opc := 0x70 + c, ops := [rel8] },
      { mn := (mn! "j") ++ cc, map := 1, opc := 0x80 + c, ops := [rel32] } ]

open OpT Size Cls in
def unaryGrp : List Enc :=
  [ { mn := (mn! "test"), opc := 0xF6, ext := some 0, ops := [rm gpr s8 s8, imm8 8] },
    { mn := (mn! "test"), opc := 0xF7, ext := some 0, ops := [rm gpr osz osz, immZ] },
    { mn := (mn! "not"), opc := 0xF6, ext := some 2, ops := [rm gpr s8 s8] },
    { mn := (mn! "not"), opc := 0xF7, ext := some 2, ops := [rm gpr osz osz] },
    { mn := (mn! "neg"), opc := 0xF6, ext := some 3, ops := [rm gpr s8 s8] },
    { mn := (mn! "neg"), opc := 0xF7, ext := some 3, ops := [rm gpr osz osz] },
    { mn := (mn! "imul"), opc := 0xF6, ext := some 5, ops := [rm gpr s8 s8] },
    { mn := (mn! "imul"), opc := 0xF7, ext := some 5, ops := [rm gpr osz osz] },
    { mn := (mn! "inc"), opc := 0xFE, ext := some 0, ops := [rm gpr s8 s8] },
    { mn := (mn! "inc"), opc := 0xFF, ext := some 0, ops := [rm gpr osz osz] },
    { mn := (mn! "dec"), opc := 0xFE, ext := some 1, ops := [rm gpr s8 s8] },
    { mn := (mn! "dec"), opc := 0xFF, ext := some 1, ops := [rm gpr osz osz] },
    { mn := (mn! "call"), opc := 0xFF, ext := some 2, dflt64 := true, ops := [rm gpr osz64 osz64] },
    { mn := (mn! "callf"), opc := 0xFF, ext := some 3, ops := [rmMem none] },
    { mn := (mn! "jmp"), opc := 0xFF, ext := some 4, dflt64 := true, ops := [rm gpr osz64 osz64] },
    { mn := (mn! "jmpf"), opc := 0xFF, ext := some 5, ops := [rmMem none] },
    { mn := (mn! "push"), opc := 0xFF, ext := some 6, dflt64 := true, ops := [rm gpr osz64 osz64] } ]

open OpT Size Cls in
def intMisc : List Enc :=
  [ { mn := (mn! "test"), opc := 0x84, ops := [rm gpr s8 s8, reg gpr s8] },
    { mn := (mn! "test"), opc := 0x85, ops := [rm gpr osz osz, reg gpr osz] },
    { mn := (mn! "test"), opc := 0xA8, ops := [acc s8, imm8 8] },
    { mn := (mn! "test"), opc := 0xA9, ops := [acc osz, immZ] },
    { mn := (mn! "xchg"), opc := 0x86, ops := [rm gpr s8 s8, reg gpr s8] },
    { mn := (mn! "xchg"), opc := 0x87, ops := [rm gpr osz osz, reg gpr osz] },
    { mn := (mn! "xchg"), opc := 0x90, plusR := true, ops := [opc osz, acc osz] },
    { mn := (mn! "mov"), opc := 0x88, ops := [rm gpr s8 s8, reg gpr s8] },
    { mn := (mn! "mov"), opc := 0x89, ops := [rm gpr osz osz, reg gpr osz] },
    { mn := (mn! "mov"), opc := 0x8A, ops := [reg gpr s8, rm gpr s8 s8] },
    { mn := (mn! "mov"), opc := 0x8B, ops := [reg gpr osz, rm gpr osz osz] },
    { mn := (mn! "mov"), opc := 0xB0, plusR := true, ops := [opc s8, imm8 8] },
    { mn := (mn! "mov"), opc := 0xB8, plusR := true, ops := [opc osz, immFull] },
    { mn := (mn! "mov"), opc := 0xC6, ext := some 0, ops := [rm gpr s8 s8, imm8 8] },
    { mn := (mn! "mov"), opc := 0xC7, ext := some 0, ops := [rm gpr osz osz, immZ] },
    { mn := (mn! "lea"), opc := 0x8D, ops := [reg gpr osz, rmMem none] },
    { mn := (mn! "push"), opc := 0x50, plusR := true, dflt64 := true, ops := [opc osz64] },
    { mn := (mn! "pop"), opc := 0x58, plusR := true, dflt64 := true, ops := [opc osz64] },
    { mn := (mn! "push"), opc := 0x68, dflt64 := true, ops := [imm32s64] },
    { mn := (mn! "push"), opc := 0x6A, dflt64 := true, ops := [imm8s64] },
    { mn := (mn! "imul"), opc := 0x69, ops := [reg gpr osz, rm gpr osz osz, immZ] },
    { mn := (mn! "imul"), opc := 0x6B, ops := [reg gpr osz, rm gpr osz osz, immS8] },
    { mn := (mn! "imul"), map := 1, opc := 0xAF, ops := [reg gpr osz, rm gpr osz osz] },
    { mn := (mn! "movzx"), map := 1, opc := 0xB6, ops := [reg gpr osz, rm gpr s8 s8] },
    { mn := (mn! "movzx"), map := 1, opc := 0xB7, ops := [reg gpr osz, rm gpr s16 s16] },
    { mn := (mn! "shld"), map := 1, opc := 0xA4, ops := [rm gpr osz osz, reg gpr osz, imm8 8] },
    { mn := (mn! "shld"), map := 1, opc := 0xA5, ops := [rm gpr osz osz, reg gpr osz, cl] },
    { mn := (mn! "shrd"), map := 1, opc := 0xAC, ops := [rm gpr osz osz, reg gpr osz, imm8 8] },
    { mn := (mn! "shrd"), map := 1, opc := 0xAD, ops := [rm gpr osz osz, reg gpr osz, cl] },
    { mn := (mn! "jmp"), opc := 0xEB, ops := [rel8] },
    { mn := (mn! "jmp"), opc := 0xE9, ops := [rel32] },
    { mn := (mn! "call"), opc := 0xE8, ops := [rel32] },
    { mn := (mn! "jrcxz"), opc := 0xE3, ops := [rel8] },
    { mn := (mn! "xbegin"), opc := 0xC7, modrm := some 0xF8, ops := [rel32] },
    { mn := (mn! "xabort"), opc := 0xC6, modrm := some 0xF8, ops := [imm8 8] },
    { mn := (mn! "xend"), map := 1, opc := 0x01, modrm := some 0xD5, ops := [] },
    { mn := (mn! "rdtscp"), map := 1, opc := 0x01, modrm := some 0xF9, ops := [] },
    { mn := (mn! "lfence"), map := 1, opc := 0xAE, modrm := some 0xE8, ops := [] },
    { mn := (mn! "mfence"), map := 1, opc := 0xAE, modrm := some 0xF0, ops := [] },
    { mn := (mn! "sfence"), map := 1, opc := 0xAE, modrm := some 0xF8, ops := [] },
    { mn := (mn! "clflush"), map := 1, opc := 0xAE, ext := some 7, ops := [rmMem s8] },
    { mn := (mn! "prefetchnta"), map := 1, opc := 0x18, ext := some 0, ops := [rmMem s8] },
    { mn := (mn! "prefetcht0"), map := 1, opc := 0x18, ext := some 1, ops := [rmMem s8] },
    { mn := (mn! "prefetcht1"), map := 1, opc := 0x18, ext := some 2, ops := [rmMem s8] },
    { mn := (mn! "prefetcht2"), map := 1, opc := 0x18, ext := some 3, ops := [rmMem s8] },
    { mn := (mn! "nop"), map := 1, opc := 0x1F, ext := some 0, ops := [rm gpr osz osz] },
    { mn := (mn! "cpuid"), map := 1, opc := 0xA2, ops := [] },
    { mn := (mn! "rdtsc"), map := 1, opc := 0x31, ops := [] },
    { mn := (mn! "rdpmc"), map := 1, opc := 0x33, ops := [] },
    { mn := (mn! "clc"), opc := 0xF8, ops := [] },
    { mn := (mn! "ret"), opc := 0xC3, ops := [] },
    { mn := (mn! "adcx"), pk := .p66, map := 2, opc := 0xF6, ops := [reg gpr w3264, rm gpr w3264 w3264] },
    { mn := (mn! "adox"), pk := .pF3, map := 2, opc := 0xF6, ops := [reg gpr w3264, rm gpr w3264 w3264] } ]

open OpT Size Cls in
def bmi : List Enc :=
  [ { mn := (mn! "bextr"), pk := .np, map := 2, opc := 0xF7, vex := .lz, ops := [reg gpr w3264, rm gpr w3264 w3264, vvvv gpr w3264] },
    { mn := (mn! "bzhi"), pk := .np, map := 2, opc := 0xF5, vex := .lz, ops := [reg gpr w3264, rm gpr w3264 w3264, vvvv gpr w3264] },
    { mn := (mn! "shlx"), pk := .p66, map := 2, opc := 0xF7, vex := .lz, ops := [reg gpr w3264, rm gpr w3264 w3264, vvvv gpr w3264] },
    { mn := (mn! "sarx"), pk := .pF3, map := 2, opc := 0xF7, vex := .lz, ops := [reg gpr w3264, rm gpr w3264 w3264, vvvv gpr w3264] },
    { mn := (mn! "shrx"), pk := .pF2, map := 2, opc := 0xF7, vex := .lz, ops := [reg gpr w3264, rm gpr w3264 w3264, vvvv gpr w3264] },
    { mn := (mn! "mulx"), pk := .pF2, map := 2, opc := 0xF6, vex := .lz, ops := [reg gpr w3264, vvvv gpr w3264, rm gpr w3264 w3264] },
    { mn := (mn! "rorx"), pk := .pF2, map := 3, opc := 0xF0, vex := .lz, ops := [reg gpr w3264, rm gpr w3264 w3264, imm8 8] } ]

/-- an MMX operation and its SSE2 (66-prefixed) twin -/
def mmxSse (mn : Mn) (map opc : Nat) : List Enc :=
  [ { mn, pk := .np, map, opc, ops := [.reg .mm .s64, .rm .mm .s64 .s64] },
    { mn, pk := .p66, map, opc, ops := [.reg .xmm .s128, .rm .xmm .s128 .s128] } ]

def sseOnly (mn : Mn) (pk : PK) (map opc : Nat) (memSz : Size := .s128) : List Enc :=
  [ { mn, pk, map, opc, ops := [.reg .xmm .s128, .rm .xmm .s128 memSz] } ]

open OpT Size Cls in
def simd : List Enc :=
  mmxSse (mn! "paddb") 1 0xFC ++ mmxSse (mn! "paddw") 1 0xFD ++ mmxSse (mn! "paddd") 1 0xFE ++ mmxSse (mn! "paddq") 1 0xD4 ++
  mmxSse (mn! "psubb") 1 0xF8 ++ mmxSse (mn! "psubw") 1 0xF9 ++ mmxSse (mn! "psubd") 1 0xFA ++ mmxSse (mn! "psubq") 1 0xFB ++
  mmxSse (mn! "pand") 1 0xDB ++ mmxSse (mn! "pandn") 1 0xDF ++ mmxSse (mn! "por") 1 0xEB ++ mmxSse (mn! "pxor") 1 0xEF ++
  mmxSse (mn! "pmulhuw") 1 0xE4 ++ mmxSse (mn! "pmulhw") 1 0xE5 ++ mmxSse (mn! "pmullw") 1 0xD5 ++ mmxSse (mn! "pmuludq") 1 0xF4 ++
  mmxSse (mn! "pmulhrsw") 2 0x0B ++
  sseOnly (mn! "pmuldq") .p66 2 0x28 ++ sseOnly (mn! "pmulld") .p66 2 0x40 ++
  sseOnly (mn! "punpcklqdq") .p66 1 0x6C ++ sseOnly (mn! "divpd") .p66 1 0x5E ++ sseOnly (mn! "mulpd") .p66 1 0x59 ++
  sseOnly (mn! "cvtdq2pd") .pF3 1 0xE6 .s64 ++ sseOnly (mn! "cvtpd2dq") .pF2 1 0xE6 ++
  [ { mn := (mn! "movntdqa"), pk := .p66, map := 2, opc := 0x2A, ops := [reg xmm s128, rmMem s128] },
    { mn := (mn! "movntq"), pk := .np, map := 1, opc := 0xE7, ops := [rmMem s64, reg mm s64] },
    { mn := (mn! "psrldq"), pk := .p66, map := 1, opc := 0x73, ext := some 3, ops := [rmReg xmm s128, imm8 8] },
    -- movd / movq: the W bit selects the 64-bit general register form
    { mn := (mn! "movd"), pk := .np, map := 1, opc := 0x6E, vexW := some false, ops := [reg mm s64, rm gpr s32 s32] },
    { mn := (mn! "movd"), pk := .np, map := 1, opc := 0x7E, vexW := some false, ops := [rm gpr s32 s32, reg mm s64] },
    { mn := (mn! "movd"), pk := .p66, map := 1, opc := 0x6E, vexW := some false, ops := [reg xmm s128, rm gpr s32 s32] },
    { mn := (mn! "movd"), pk := .p66, map := 1, opc := 0x7E, vexW := some false, ops := [rm gpr s32 s32, reg xmm s128] },
    { mn := (mn! "movq"), pk := .np, map := 1, opc := 0x6E, vexW := some true, ops := [reg mm s64, rm gpr s64 s64] },
    { mn := (mn! "movq"), pk := .np, map := 1, opc := 0x7E, vexW := some true, ops := [rm gpr s64 s64, reg mm s64] },
    { mn := (mn! "movq"), pk := .p66, map := 1, opc := 0x6E, vexW := some true, ops := [reg xmm s128, rm gpr s64 s64] },
    { mn := (mn! "movq"), pk := .p66, map := 1, opc := 0x7E, vexW := some true, ops := [rm gpr s64 s64, reg xmm s128] },
    { mn := (mn! "movq"), pk := .np, map := 1, opc := 0x6F, ops := [reg mm s64, rm mm s64 s64] },
    { mn := (mn! "movq"), pk := .np, map := 1, opc := 0x7F, ops := [rm mm s64 s64, reg mm s64] },
    { mn := (mn! "movq"), pk := .pF3, map := 1, opc := 0x7E, ops := [reg xmm s128, rm xmm s128 s64] },
    { mn := (mn! "movq"), pk := .p66, map := 1, opc := 0xD6, ops := [rm xmm s128 s64, reg xmm s128] } ]

/-- a VEX.NDS three-operand operation in its 128 and 256 bit forms -/
def vex3 (mn : Mn) (pk : PK) (map opc : Nat) (both : Bool := true) : List Enc :=
  (if both then [{ mn, pk, map, opc, vex := .l128, ops := [.reg .xmm .s128, .vvvv .xmm .s128, .rm .xmm .s128 .s128] }] else []) ++
  [ { mn, pk, map, opc, vex := .l256, ops := [.reg .ymm .s256, .vvvv .ymm .s256, .rm .ymm .s256 .s256] } ]

def vexMov (mn : Mn) (pk : PK) (ld st : Nat) : List Enc :=
  [ { mn, pk, map := 1, opc := ld, vex := .l128, ops := [.reg .xmm .s128, .rm .xmm .s128 .s128] },
    { mn, pk, map := 1, opc := ld, vex := .l256, ops := [.reg .ymm .s256, .rm .ymm .s256 .s256] },
    { mn, pk, map := 1, opc := st, vex := .l128, ops := [.rm .xmm .s128 .s128, .reg .xmm .s128] },
    { mn, pk, map := 1, opc := st, vex := .l256, ops := [.rm .ymm .s256 .s256, .reg .ymm .s256] } ]

def avx : List Enc :=
  vex3 (mn! "vaddpd") .p66 1 0x58 ++ vex3 (mn! "vsubpd") .p66 1 0x5C ++ vex3 (mn! "vmulpd") .p66 1 0x59 ++ vex3 (mn! "vdivpd") .p66 1 0x5E ++
  vexMov (mn! "vmovdqu") .pF3 0x6F 0x7F ++ vexMov (mn! "vmovupd") .p66 0x10 0x11 ++
  vex3 (mn! "vpaddb") .p66 1 0xFC ++ vex3 (mn! "vpaddw") .p66 1 0xFD ++ vex3 (mn! "vpaddd") .p66 1 0xFE ++ vex3 (mn! "vpaddq") .p66 1 0xD4 ++
  vex3 (mn! "vpsubb") .p66 1 0xF8 ++ vex3 (mn! "vpsubw") .p66 1 0xF9 ++ vex3 (mn! "vpsubd") .p66 1 0xFA ++ vex3 (mn! "vpsubq") .p66 1 0xFB ++
  vex3 (mn! "vpand") .p66 1 0xDB ++ vex3 (mn! "vpandn") .p66 1 0xDF ++ vex3 (mn! "vpor") .p66 1 0xEB ++ vex3 (mn! "vpxor") .p66 1 0xEF ++
  vex3 (mn! "vpmulhuw") .p66 1 0xE4 ++ vex3 (mn! "vpmulhw") .p66 1 0xE5 ++ vex3 (mn! "vpmullw") .p66 1 0xD5 ++ vex3 (mn! "vpmuludq") .p66 1 0xF4 ++
  vex3 (mn! "vpmulhrsw") .p66 2 0x0B ++ vex3 (mn! "vpmuldq") .p66 2 0x28 ++ vex3 (mn! "vpmulld") .p66 2 0x40 ++
  [ { mn := (mn! "vpermd"), pk := .p66, map := 2, opc := 0x36, vex := .l256, vexW := some false,
      ops := [.reg .ymm .s256, .vvvv .ymm .s256, .rm .ymm .s256 .s256] },
    { mn := (mn! "vperm2f128"), pk := .p66, map := 3, opc := 0x06, vex := .l256, vexW := some false,
      ops := [.reg .ymm .s256, .vvvv .ymm .s256, .rm .ymm .s256 .s256, .imm8 8] },
    { mn := (mn! "vperm2i128"), pk := .p66, map := 3, opc := 0x46, vex := .l256, vexW := some false,
      ops := [.reg .ymm .s256, .vvvv .ymm .s256, .rm .ymm .s256 .s256, .imm8 8] } ]

def table : List Enc :=
  alu (mn! "add") 0 ++ alu (mn! "or") 1 ++ alu (mn! "adc") 2 ++ alu (mn! "sbb") 3 ++ alu (mn! "and") 4 ++ alu (mn! "sub") 5 ++ alu (mn! "xor") 6 ++ alu (mn! "cmp") 7 ++
  shiftGrp (mn! "ror") 1 ++ shiftGrp (mn! "rcr") 3 ++ shiftGrp (mn! "shl") 4 ++ shiftGrp (mn! "shr") 5 ++ shiftGrp (mn! "sar") 7 ++
  ccGrp ++ unaryGrp ++ intMisc ++ bmi ++ simd ++ avx

/-! ### prefixes -/

structure Pfx where
  p66 : Bool := false
  p67 : Bool := false
  pF2 : Bool := false
  pF3 : Bool := false
  n   : Nat := 0
deriving Repr

/-- legacy prefixes in any order (at most four are consumed) -/
def takePrefixes : Nat → Pfx → Bytes → Pfx × Bytes
  | 0, p, bs => (p, bs)
  | fuel + 1, p, b :: bs =>
    if b == 0x66 then takePrefixes fuel { p with p66 := true, n := p.n + 1 } bs
    else if b == 0x67 then takePrefixes fuel { p with p67 := true, n := p.n + 1 } bs
    else if b == 0xF2 then takePrefixes fuel { p with pF2 := true, n := p.n + 1 } bs
    else if b == 0xF3 then takePrefixes fuel { p with pF3 := true, n := p.n + 1 } bs
    else (p, b :: bs)
  | _, p, [] => (p, [])

/-- REX / VEX extension bits (already un-inverted for VEX) -/
structure Ext where
  w : Bool := false
  r : Bool := false
  x : Bool := false
  b : Bool := false
  rex : Bool := false          -- a REX prefix is present (selects spl..dil over ah..bh)
  vex : Bool := false
  l : Bool := false
  vvvv : Nat := 0              -- register number (un-inverted)
  map : Nat := 0
  simd : Nat := 0              -- VEX.pp: 0 none, 1 66, 2 F3, 3 F2
deriving Repr

def bit (v k : Nat) : Bool := (v / 2 ^ k) % 2 == 1

/-- REX or VEX prefix, then the opcode map escape bytes; returns extension, map, rest, bytes used -/
def takeExt (bs : Bytes) : Option (Ext × Bytes × Nat) :=
  match bs with
  | 0xC5 :: p :: rest =>
    some ({ r := !bit p 7, vvvv := 15 - (p / 8) % 16, l := bit p 2, simd := p % 4, vex := true, map := 1 }, rest, 2)
  | 0xC4 :: p1 :: p2 :: rest =>
    some ({ r := !bit p1 7, x := !bit p1 6, b := !bit p1 5, map := p1 % 32, w := bit p2 7,
            vvvv := 15 - (p2 / 8) % 16, l := bit p2 2, simd := p2 % 4, vex := true }, rest, 3)
  | b :: rest =>
    let (e, rest, n) : Ext × Bytes × Nat :=
      if 0x40 ≤ b && b ≤ 0x4F then ({ w := bit b 3, r := bit b 2, x := bit b 1, b := bit b 0, rex := true }, rest, 1)
      else ({}, b :: rest, 0)
    match rest with
    | 0x0F :: 0x38 :: r2 => some ({ e with map := 2 }, r2, n + 2)
    | 0x0F :: 0x3A :: r2 => some ({ e with map := 3 }, r2, n + 2)
    | 0x0F :: r2 => some ({ e with map := 1 }, r2, n + 1)
    | _ => some (e, rest, n)
  | [] => none

/-! ### ModRM / SIB / displacement -/

structure ModRM where
  mod : Nat
  reg : Nat
  rm  : Nat
deriving Repr

def splitModRM (b : Nat) : ModRM := { mod := b / 64, reg := (b / 8) % 8, rm := b % 8 }

/-- memory operand behind a ModRM byte with mod ≠ 3: (operand, bytes consumed behind ModRM) -/
def decodeMem (e : Ext) (p67 : Bool) (m : ModRM) (size : Nat) (bs : Bytes) : Option (Mem × Nat) :=
  let xb (hi : Bool) (n : Nat) : Nat := if hi then n + 8 else n
  if m.rm == 4 then
    match bs with
    | [] => none
    | sib :: rest =>
      let sc := sib / 64
      let idx := (sib / 8) % 8
      let bse := sib % 8
      let index : Option Nat := if idx == 4 && !e.x then none else some (xb e.x idx)
      let noBase := bse == 5 && m.mod == 0
      let base : Option Nat := if noBase then none else some (xb e.b bse)
      let dlen := if m.mod == 1 then 1 else if m.mod == 2 || noBase then 4 else 0
      if rest.length < dlen then none else
      let d := leVal (rest.take dlen)
      let disp : Int := if dlen == 0 then 0 else toSigned (8 * dlen) d
      some ({ size, addr32 := p67, base, index, scale := if index.isNone then 1 else 2 ^ sc, disp }, 1 + dlen)
  else if m.rm == 5 && m.mod == 0 then
    if bs.length < 4 then none else
    some ({ size, addr32 := p67, base := none, index := none, scale := 1,
            disp := toSigned 32 (leVal (bs.take 4)), rip := true }, 4)
  else
    let dlen := if m.mod == 1 then 1 else if m.mod == 2 then 4 else 0
    if bs.length < dlen then none else
    let d := leVal (bs.take dlen)
    let disp : Int := if dlen == 0 then 0 else toSigned (8 * dlen) d
    some ({ size, addr32 := p67, base := some (xb e.b m.rm), index := none, scale := 1, disp }, dlen)

/-! ### operands -/

def sizeBits (osz : Nat) (w : Bool) : Size → Nat
  | .s8 => 8 | .s16 => 16 | .s32 => 32 | .s64 => 64 | .s128 => 128 | .s256 => 256
  | .osz => osz
  | .osz64 => if osz == 16 then 16 else 64
  | .w3264 => if w then 64 else 32
  | .none => 0

/-- register `n` (0..15) of a class at a size -/
def mkReg (c : Cls) (bits : Nat) (rex : Bool) (n : Nat) : Reg :=
  match c with
  | .mm => ⟨.mm, n % 8⟩
  | .xmm => ⟨.xmm, n⟩
  | .ymm => ⟨.ymm, n⟩
  | .gpr =>
    if bits == 8 then (if !rex && 4 ≤ n && n < 8 then ⟨.gpr8h, n⟩ else ⟨.gpr8, n⟩)
    else if bits == 16 then ⟨.gpr16, n⟩
    else if bits == 32 then ⟨.gpr32, n⟩
    else ⟨.gpr64, n⟩

structure Ctx where
  e    : Ext
  p67  : Bool
  osz  : Nat            -- operand size of the instruction: 16, 32, 64
  opc  : Nat
  m    : Option ModRM

/-- decode the operands left to right; `bs` is what follows the ModRM byte (or the opcode).
    The memory operand's displacement comes first, immediates after it. -/
def decodeOps (c : Ctx) : List OpT → Bytes → Nat → Option (List Opnd × Nat)
  | [], _, used => some ([], used)
  | t :: ts, bs, used =>
    let anyRex := c.e.rex || c.e.vex
    let w := c.e.w
    let one (o : Opnd) (bs' : Bytes) (n : Nat) : Option (List Opnd × Nat) :=
      match decodeOps c ts bs' (used + n) with
      | some (os, u) => some (o :: os, u)
      | none => none
    let immOf (len bits : Nat) (f : Nat → Nat) : Option (List Opnd × Nat) :=
      if bs.length < len then none else one (.imm bits (f (leVal (bs.take len)))) (bs.drop len) len
    match t with
    | .rm cl sz msz =>
      match c.m with
      | none => none
      | some m =>
        if m.mod == 3 then
          one (.reg (mkReg cl (sizeBits c.osz w sz) anyRex (if c.e.b then m.rm + 8 else m.rm))) bs 0
        else
          match decodeMem c.e c.p67 m (sizeBits c.osz w msz) bs with
          | none => none
          | some (mem, n) => one (.mem mem) (bs.drop n) n
    | .rmReg cl sz =>
      match c.m with
      | none => none
      | some m =>
        if m.mod == 3 then
          one (.reg (mkReg cl (sizeBits c.osz w sz) anyRex (if c.e.b then m.rm + 8 else m.rm))) bs 0
        else none
    | .rmMem msz =>
      match c.m with
      | none => none
      | some m =>
        if m.mod == 3 then none else
        match decodeMem c.e c.p67 m (sizeBits c.osz w msz) bs with
        | none => none
        | some (mem, n) => one (.mem mem) (bs.drop n) n
    | .reg cl sz =>
      match c.m with
      | none => none
      | some m => one (.reg (mkReg cl (sizeBits c.osz w sz) anyRex (if c.e.r then m.reg + 8 else m.reg))) bs 0
    | .vvvv cl sz => one (.reg (mkReg cl (sizeBits c.osz w sz) anyRex c.e.vvvv)) bs 0
    | .opc sz => one (.reg (mkReg .gpr (sizeBits c.osz w sz) anyRex (if c.e.b then c.opc % 8 + 8 else c.opc % 8))) bs 0
    | .acc sz => one (.reg (mkReg .gpr (sizeBits c.osz w sz) true 0)) bs 0
    | .cl => one (.reg ⟨.gpr8, 1⟩) bs 0
    | .one => one (.imm 8 1) bs 0
    | .immS8 => immOf 1 c.osz (fun v => sext 8 c.osz v)
    | .immZ => if c.osz == 16 then immOf 2 16 id else immOf 4 c.osz (fun v => sext 32 c.osz v)
    | .immFull => immOf (c.osz / 8) c.osz id
    | .imm8 bits => immOf 1 bits id
    | .imm32s64 => immOf 4 64 (fun v => sext 32 64 v)
    | .imm8s64 => immOf 1 64 (fun v => sext 8 64 v)
    | .rel8 => if bs.length < 1 then none else one (.rel 8 (toSigned 8 (leVal (bs.take 1)))) (bs.drop 1) 1
    | .rel32 => if bs.length < 4 then none else one (.rel 32 (toSigned 32 (leVal (bs.take 4)))) (bs.drop 4) 4

/-! ### instruction selection -/

def pkMatches (k : PK) (p : Pfx) (e : Ext) : Bool :=
  let s66 := if e.vex then e.simd == 1 else p.p66
  let sF3 := if e.vex then e.simd == 2 else p.pF3
  let sF2 := if e.vex then e.simd == 3 else p.pF2
  match k with
  | .opsize => !sF2 && !sF3
  | .np => !s66 && !sF2 && !sF3
  | .p66 => s66 && !sF2 && !sF3
  | .pF2 => sF2
  | .pF3 => sF3 && !sF2

def vexMatches (en : Enc) (e : Ext) : Bool :=
  (match en.vex with
   | .none => !e.vex
   | .l128 => e.vex && !e.l
   | .l256 => e.vex && e.l
   | .lz => e.vex && !e.l) &&
  (match en.vexW with
   | none => true
   | some w => e.w == w)

def needsModRM (en : Enc) : Bool :=
  en.ext.isSome || en.modrm.isSome ||
  en.ops.any fun t => match t with
    | .rm .. | .rmReg .. | .rmMem .. | .reg .. => true
    | _ => false

def encMatches (en : Enc) (p : Pfx) (e : Ext) (opc : Nat) (mb : Option Nat) : Bool :=
  en.map == e.map &&
  (if en.plusR then opc / 8 * 8 == en.opc else opc == en.opc) &&
  pkMatches en.pk p e && vexMatches en e &&
  (match en.modrm with
   | some v => mb == some v
   | none =>
     match en.ext with
     | none => true
     | some d => match mb with
       | some b => (b / 8) % 8 == d &&
                   -- the fixed-ModRM instructions that share opcode and /digit take precedence
                   !(e.map == 1 && opc == 0xAE && b / 64 == 3) &&
                   !(e.map == 0 && (opc == 0xC6 || opc == 0xC7) && b == 0xF8)
       | none => false)

/-- decode the first instruction of `bs` -/
def decode (bs : Bytes) : Option Dec :=
  let (p, r0) := takePrefixes 4 {} bs
  match takeExt r0 with
  | none => none
  | some (e, r1, nExt) =>
    match r1 with
    | [] => none
    | opc :: r2 =>
      -- `66 90` / `90` are nop, not xchg; `F3 90` (pause) is not in the subset
      if e.map == 0 && opc == 0x90 && !e.b && !e.vex then
        some { mn := (mn! "nop"), ops := [], len := p.n + nExt + 1 }
      else
      let mb := r2.head?
      match table.find? (fun en => encMatches en p e opc mb) with
      | none => none
      | some en =>
        let hasM := needsModRM en
        if hasM && mb.isNone then none else
        let m := if hasM then mb.map splitModRM else none
        let r3 := if hasM then r2.drop 1 else r2
        let osz := if e.w then 64 else if en.dflt64 then (if p.p66 then 16 else 64)
                   else if p.p66 && en.pk == .opsize then 16 else 32
        match decodeOps { e, p67 := p.p67, osz, opc, m } en.ops r3 0 with
        | none => none
        | some (ops, used) =>
          some { mn := en.mn, ops, len := p.n + nExt + 1 + (if hasM then 1 else 0) + used }

/-- decode a whole byte string into consecutive instructions (none if any part fails) -/
def decodeAll : Nat → Bytes → Option (List Dec)
  | 0, _ => none
  | _, [] => some []
  | fuel + 1, bs =>
    match decode bs with
    | none => none
    | some d =>
      if d.len == 0 then none else
      match decodeAll fuel (bs.drop d.len) with
      | none => none
      | some ds => some (d :: ds)

/-! ### canonical mnemonics (synonym classes, from the architecture manuals) -/

def synonyms : List (Mn × Mn) :=
  [ ((mn! "sal"), (mn! "shl")),
    ((mn! "cmovc"), (mn! "cmovb")), ((mn! "cmovnae"), (mn! "cmovb")), ((mn! "cmovnb"), (mn! "cmovae")), ((mn! "cmovnc"), (mn! "cmovae")), ((mn! "cmovz"), (mn! "cmove")),
    ((mn! "cmovnz"), (mn! "cmovne")), ((mn! "cmovna"), (mn! "cmovbe")), ((mn! "cmovnbe"), (mn! "cmova")), ((mn! "cmovpe"), (mn! "cmovp")), ((mn! "cmovpo"), (mn! "cmovnp")),
    ((mn! "cmovnge"), (mn! "cmovl")), ((mn! "cmovnl"), (mn! "cmovge")), ((mn! "cmovng"), (mn! "cmovle")), ((mn! "cmovnle"), (mn! "cmovg")),
    ((mn! "setc"), (mn! "setb")), ((mn! "setnae"), (mn! "setb")), ((mn! "setnb"), (mn! "setae")), ((mn! "setnc"), (mn! "setae")), ((mn! "setz"), (mn! "sete")),
    ((mn! "setnz"), (mn! "setne")), ((mn! "setna"), (mn! "setbe")), ((mn! "setnbe"), (mn! "seta")), ((mn! "setpe"), (mn! "setp")), ((mn! "setpo"), (mn! "setnp")),
    ((mn! "setnge"), (mn! "setl")), ((mn! "setnl"), (mn! "setge")), ((mn! "setng"), (mn! "setle")), ((mn! "setnle"), (mn! "setg")),
    ((mn! "jc"), (mn! "jb")), ((mn! "jnae"), (mn! "jb")), ((mn! "jnb"), (mn! "jae")), ((mn! "jnc"), (mn! "jae")), ((mn! "jz"), (mn! "je")), ((mn! "jnz"), (mn! "jne")), ((mn! "jna"), (mn! "jbe")),
    ((mn! "jnbe"), (mn! "ja")), ((mn! "jpe"), (mn! "jp")), ((mn! "jpo"), (mn! "jnp")), ((mn! "jnge"), (mn! "jl")), ((mn! "jnl"), (mn! "jge")), ((mn! "jng"), (mn! "jle")), ((mn! "jnle"), (mn! "jg")) ]

def canonMn (m : Mn) : Mn :=
  match synonyms.find? (fun p => p.1 == m) with
  | some p => p.2
  | none => m

/-! ### rendering (line protocol) -/

def fileTag : File → String
  | .gpr8 => "b" | .gpr8h => "h" | .gpr16 => "w" | .gpr32 => "d" | .gpr64 => "q"
  | .mm => "mm" | .xmm => "x" | .ymm => "y"

def optReg : Option Nat → String
  | none => "-"
  | some n => toString n

def Opnd.render : Opnd → String
  | .reg r => fileTag r.file ++ toString r.num
  | .mem m => "m" ++ toString m.size ++ "[" ++ (if m.addr32 then "a32" else "a64") ++ (if m.rip then ",rip" else "") ++
      ",b=" ++ optReg m.base ++ ",i=" ++ optReg m.index ++ ",s=" ++ toString m.scale ++ ",d=" ++ toString m.disp ++ "]"
  | .imm bits v => "i" ++ toString bits ++ ":" ++ toString v
  | .rel bits d => "rel" ++ toString bits ++ ":" ++ toString d

def Dec.render (d : Dec) : String :=
  Mn.str d.mn ++ " " ++ String.intercalate " " (d.ops.map Opnd.render) ++ " #" ++ toString d.len

end AL.Spec.X86
