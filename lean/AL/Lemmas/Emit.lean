/-
  AL.Lemmas.Emit — one-instruction lemmas about `writeAt`, `checkLenOrResize` and `emitOne`.
-/
import AL.Lemmas.Run
import AL.Lemmas.Arith
namespace AL.Lemmas
open AL AL.Impl AL.Gen

theorem toInt32_small {p : Nat} (h : p < 2 ^ 31) : toInt32 p = (p : Int) := by
  unfold toInt32
  have : p % 2 ^ 32 = p := Nat.mod_eq_of_lt (by omega)
  simp [this, h]

/-- the buffer bookkeeping is consistent: `buffer_len` is the real size of the buffer -/
def BufInv (a : Inst) : Prop := a.bufLen = (a.mem.length : Int)

/-- an in-bounds store: size, `oob` log and everything outside `[pos, pos+len)` unchanged -/
theorem writeAt_inb (a : Inst) (pos : Nat) (bs : Bytes) (h : pos + bs.length ≤ a.mem.length) :
    (writeAt a pos bs).mem = a.mem.take pos ++ bs ++ a.mem.drop (pos + bs.length) ∧
    (writeAt a pos bs).oob = a.oob ∧ (writeAt a pos bs).bufLen = a.bufLen ∧
    (writeAt a pos bs).external = a.external ∧ (writeAt a pos bs).offset = a.offset ∧
    (writeAt a pos bs).mode = a.mode ∧ (writeAt a pos bs).chunkSize = a.chunkSize ∧
    (writeAt a pos bs).opt = a.opt := by
  simp [writeAt, h]

theorem writeAt_inb_length (a : Inst) (pos : Nat) (bs : Bytes) (h : pos + bs.length ≤ a.mem.length) :
    (writeAt a pos bs).mem.length = a.mem.length := by
  rw [(writeAt_inb a pos bs h).1]
  simp only [List.length_append, List.length_take, List.length_drop]
  omega

theorem writeAt_inb_take (a : Inst) (pos : Nat) (bs : Bytes) (h : pos + bs.length ≤ a.mem.length)
    (k : Nat) (hk : k ≤ pos) : (writeAt a pos bs).mem.take k = a.mem.take k := by
  rw [(writeAt_inb a pos bs h).1, List.append_assoc, List.take_append_of_le_length]
  · rw [List.take_take]; congr 1; omega
  · simp only [List.length_take]; omega

theorem writeAt_inb_drop (a : Inst) (pos : Nat) (bs : Bytes) (h : pos + bs.length ≤ a.mem.length)
    (k : Nat) (hk : pos + bs.length ≤ k) : (writeAt a pos bs).mem.drop k = a.mem.drop k := by
  rw [(writeAt_inb a pos bs h).1]
  have hl : (a.mem.take pos ++ bs).length = pos + bs.length := by
    simp only [List.length_append, List.length_take]; omega
  rw [List.drop_append, List.drop_drop, List.drop_eq_nil_of_le (by rw [hl]; exact hk), hl,
    List.nil_append]
  congr 1; omega

/-- the bytes stored are read back -/
theorem writeAt_inb_read (a : Inst) (pos : Nat) (bs : Bytes) (h : pos + bs.length ≤ a.mem.length) :
    ((writeAt a pos bs).mem.drop pos).take bs.length = bs := by
  rw [(writeAt_inb a pos bs h).1, List.append_assoc]
  have hl : (a.mem.take pos).length = pos := by simp only [List.length_take]; omega
  conv => lhs; rw [show pos = (a.mem.take pos).length + 0 by omega]
  rw [List.drop_append]
  simp

/-- `check_len_or_resize` in the no-wrap regime -/
theorem check_ok_of_room (a : Inst) (p : Nat) (hp : p < 2 ^ 31)
    (h : (p : Int) + 20 ≤ a.bufLen) : checkLenOrResize a p = .ok a := by
  unfold checkLenOrResize
  rw [toInt32_small hp]
  have : ¬ ((p : Int) + (c_BUFFER_TOLERANCE : Int) > a.bufLen) := by
    show ¬ ((p : Int) + ((20 : Nat) : Int) > a.bufLen)
    omega
  simp [this]

theorem check_fail_external (a : Inst) (p : Nat) (hp : p < 2 ^ 31) (he : a.external = true)
    (h : (p : Int) + 20 > a.bufLen) : checkLenOrResize a p = .error .fail := by
  unfold checkLenOrResize
  rw [toInt32_small hp]
  have : ((p : Int) + (c_BUFFER_TOLERANCE : Int) > a.bufLen) := by
    show ((p : Int) + ((20 : Nat) : Int) > a.bufLen)
    omega
  simp [this, he]

/-- a position inside the buffer needs exactly one growth quantum -/
theorem growBytes_one (a : Inst) (p : Nat) (hinv : a.bufLen = (a.mem.length : Int)) (hpos : p ≤ a.mem.length)
    (hc : (p : Int) + (c_BUFFER_TOLERANCE : Int) > a.bufLen) (hp : p < 2 ^ 31) : growBytes a p = 6000 := by
  unfold growBytes
  rw [toInt32_small hp, hinv]
  rw [hinv] at hc
  have h20 : (c_BUFFER_TOLERANCE : Int) = 20 := rfl
  have h6 : c_MEM_BUFFER = 6000 := rfl
  rw [h20] at hc ⊢
  rw [h6]
  omega

/-- what `check_len_or_resize` guarantees when it succeeds (both kinds of instance), given
    that the position is inside the buffer: 20 bytes of room, same prefix, nothing else changed -/
theorem check_post (a a' : Inst) (p : Nat) (hp : p < 2 ^ 31) (hinv : BufInv a)
    (hpos : p ≤ a.mem.length) (h : checkLenOrResize a p = .ok a') :
    BufInv a' ∧ p + 20 ≤ a'.mem.length ∧ a'.mem.take a.mem.length = a.mem ∧ a'.oob = a.oob ∧
    a'.external = a.external ∧ a'.mode = a.mode ∧ a'.chunkSize = a.chunkSize ∧
    a'.offset = a.offset ∧ a'.opt = a.opt ∧ (a.external = true → a' = a) := by
  unfold checkLenOrResize at h
  rw [toInt32_small hp] at h
  unfold BufInv at hinv
  by_cases hc : ((p : Int) + (c_BUFFER_TOLERANCE : Int) > a.bufLen)
  · simp only [hc, if_true] at h
    by_cases he : a.external = true
    · simp [he] at h
    · have he' : a.external = false := by simpa using he
      simp only [he', Bool.false_eq_true, if_false, Except.ok.injEq] at h
      subst h
      have hg := growBytes_one a p hinv hpos hc hp
      refine ⟨?_, ?_, ?_, rfl, he'.symm, rfl, rfl, rfl, rfl, ?_⟩
      · simp only [BufInv, List.length_append, List.length_replicate, hinv, hg]
        omega
      · simp only [List.length_append, List.length_replicate, hg]
        omega
      · simp
      · intro h; exact absurd h he
  · simp only [hc, if_false, Except.ok.injEq] at h
    subst h
    have hc' : ¬ ((p : Int) + ((20 : Nat) : Int) > a.bufLen) := hc
    refine ⟨hinv, ?_, by simp, rfl, rfl, rfl, rfl, rfl, rfl, fun _ => rfl⟩
    have : (p : Int) + 20 ≤ (a.mem.length : Int) := by omega
    omega

end AL.Lemmas

namespace AL.Lemmas
open AL AL.Impl AL.Gen

/-- "nothing but the buffer behind position `p` changed", the relation every emission step
    and every failed step satisfies -/
structure Frame (p : Nat) (a a' : Inst) : Prop where
  inv      : BufInv a'
  oob      : a'.oob = a.oob
  pre      : a'.mem.take p = a.mem.take p
  len_le   : a.mem.length ≤ a'.mem.length
  ext_len  : a.external = true → a'.mem.length = a.mem.length
  external : a'.external = a.external
  mode     : a'.mode = a.mode
  chunk    : a'.chunkSize = a.chunkSize
  offset   : a'.offset = a.offset
  opt      : a'.opt = a.opt

theorem Frame.refl (p : Nat) (a : Inst) (h : BufInv a) : Frame p a a :=
  ⟨h, rfl, rfl, Nat.le_refl _, fun _ => rfl, rfl, rfl, rfl, rfl, rfl⟩

theorem Frame.trans {p q : Nat} {a b c : Inst} (hpq : p ≤ q) (h1 : Frame p a b) (h2 : Frame q b c) :
    Frame p a c where
  inv := h2.inv
  oob := h2.oob.trans h1.oob
  pre := by
    have := congrArg (List.take p) h2.pre
    rw [List.take_take, List.take_take, Nat.min_eq_left hpq] at this
    rw [this, h1.pre]
  len_le := Nat.le_trans h1.len_le h2.len_le
  ext_len := fun he => by rw [h2.ext_len (by rw [h1.external]; exact he), h1.ext_len he]
  external := h2.external.trans h1.external
  mode := h2.mode.trans h1.mode
  chunk := h2.chunk.trans h1.chunk
  offset := h2.offset.trans h1.offset
  opt := h2.opt.trans h1.opt

/-- storing at most 20 bytes where `check_len_or_resize` has just guaranteed 20 bytes of room -/
theorem write_frame (a : Inst) (p : Nat) (bs : Bytes) (hinv : BufInv a)
    (hroom : p + 20 ≤ a.mem.length) (hlen : bs.length ≤ 20) : Frame p a (writeAt a p bs) := by
  have hin : p + bs.length ≤ a.mem.length := by omega
  obtain ⟨_, ho, hb, he, hof, hm, hc, hop⟩ := writeAt_inb a p bs hin
  have hl := writeAt_inb_length a p bs hin
  exact ⟨by unfold BufInv at *; rw [hb, hl, hinv], ho, writeAt_inb_take a p bs hin p (Nat.le_refl _),
    by omega, fun _ => hl, he, hm, hc, hof, hop⟩

theorem check_grow (a a' : Inst) (p : Nat) (hp : p < 2 ^ 31) (hinv : BufInv a) (hpos : p ≤ a.mem.length)
    (h : checkLenOrResize a p = .ok a') : a'.mem.length ≤ a.mem.length + 6000 := by
  unfold checkLenOrResize at h
  rw [toInt32_small hp] at h
  unfold BufInv at hinv
  by_cases hc : ((p : Int) + (c_BUFFER_TOLERANCE : Int) > a.bufLen)
  · simp only [hc, if_true] at h
    split at h
    · cases h
    · injection h with h
      subst h
      simp only [List.length_append, List.length_replicate, growBytes_one a p hinv hpos hc hp]
      exact Nat.le_refl _
  · simp only [hc, if_false] at h
    injection h with h
    subst h
    omega

/-- a successful `check_len_or_resize` is a frame step -/
theorem check_frame (a a' : Inst) (p : Nat) (hp : p < 2 ^ 31) (hinv : BufInv a)
    (hpos : p ≤ a.mem.length) (h : checkLenOrResize a p = .ok a') :
    Frame p a a' ∧ p + 20 ≤ a'.mem.length ∧ a'.mem.length ≤ a.mem.length + 6000 := by
  obtain ⟨hi, hr, ht, ho, he, hm, hc, hof, hop, hext⟩ := check_post a a' p hp hinv hpos h
  have hle : a.mem.length ≤ a'.mem.length := by
    have := congrArg List.length ht
    simp only [List.length_take] at this
    omega
  have hgrow : a'.mem.length ≤ a.mem.length + 6000 := check_grow a a' p hp hinv hpos h
  refine ⟨⟨hi, ho, ?_, hle, fun hx => by rw [hext hx], he, hm, hc, hof, hop⟩, hr, hgrow⟩
  have := congrArg (List.take p) ht
  rw [List.take_take, Nat.min_eq_left hpos] at this
  exact this

end AL.Lemmas

namespace AL.Lemmas
open AL AL.Impl AL.Gen

/-- every entry `k` of the regenerated NOP table is `k` bytes long (checked on the table) -/
theorem nopTable_entry_length : ∀ k, 1 ≤ k → k ≤ nopTable.length → (nopTable.getD (k - 1) []).length = k := by
  have h : ∀ k ∈ List.range (nopTable.length + 1), 1 ≤ k → (nopTable.getD (k - 1) []).length = k := by decide
  intro k h1 h2
  exact h k (List.mem_range.2 (by omega)) h1

theorem nopTable_nonempty : 0 < nopTable.length := by decide

theorem nopBytes_length (fuel rem : Nat) (h : rem ≤ fuel) : (nopBytes fuel rem).length = rem := by
  induction fuel generalizing rem with
  | zero => have : rem = 0 := by omega
            subst this; simp [nopBytes]
  | succ fuel ih =>
    unfold nopBytes
    by_cases h0 : rem = 0
    · subst h0; simp
    · have hne : (rem == 0) = false := by simpa using h0
      simp only [hne, Bool.false_eq_true, if_false, List.length_append]
      have hpos := nopTable_nonempty
      by_cases hgt : rem > nopTable.length
      · simp only [hgt, if_true]
        rw [nopTable_entry_length _ (by omega) (Nat.le_refl _), ih _ (by omega)]
        omega
      · simp only [hgt, if_false]
        rw [nopTable_entry_length _ (by omega) (by omega), ih _ (by omega)]
        omega

theorem nopPadding_length (n : Nat) : (nopPadding n).length = n := nopBytes_length n n (Nat.le_refl _)

/-- postcondition of one emission step (success or failure) -/
def Post (r : Run) (x : Run × Option Err) : Prop :=
  Frame r.bufPos r.a x.1.a ∧ r.bufPos ≤ x.1.bufPos ∧ x.1.bufPos ≤ x.1.a.mem.length ∧
  x.1.bufPos ≤ r.bufPos + 40 ∧ x.1.a.mem.length ≤ r.a.mem.length + 12000

theorem post_same (r : Run) (e : Option Err) (hinv : BufInv r.a) (hpos : r.bufPos ≤ r.a.mem.length) :
    Post r (r, e) := ⟨Frame.refl _ _ hinv, Nat.le_refl _, hpos, Nat.le_add_right _ _, Nat.le_add_right _ _⟩

theorem post_mk (r : Run) (a' : Inst) (bp : Nat) (b : Option Int) (e : Option Err)
    (hf : Frame r.bufPos r.a a') (h1 : r.bufPos ≤ bp) (h2 : bp ≤ a'.mem.length)
    (h3 : bp ≤ r.bufPos + 40) (h4 : a'.mem.length ≤ r.a.mem.length + 12000) :
    Post r ({ a := a', bufPos := bp, brks := b }, e) := ⟨hf, h1, h2, h3, h4⟩

/-- **one emission step, all three modes, success or failure**: only the buffer at and
    behind the current position changes, nothing is stored outside the buffer, and the
    position stays inside the buffer. Needs only that an instruction is at most 20 bytes
    (BUFFER_TOLERANCE). -/
theorem emitOne_frame (r : Run) (bs : Bytes) (hinv : BufInv r.a) (hp : r.bufPos + 60 < 2 ^ 31)
    (hpos : r.bufPos ≤ r.a.mem.length) : Post r (emitOne r bs) := by
  have hsmall : r.bufPos < 2 ^ 31 := by omega
  have hmod : ∀ k, k ≤ 40 → (r.bufPos + k) % 2 ^ 32 = r.bufPos + k := fun k hk =>
    Nat.mod_eq_of_lt (by omega)
  unfold emitOne
  split
  · -- assemble
    split
    · exact post_same r _ hinv hpos
    · rename_i a hc
      obtain ⟨hf, hroom, hg⟩ := check_frame r.a a r.bufPos hsmall hinv hpos hc
      split
      · exact post_same r _ hinv hpos
      rename_i hlen'
      have hlen : bs.length ≤ 20 := Nat.le_of_not_gt hlen'
      have hw := write_frame a r.bufPos bs hf.inv hroom hlen
      have hwl := writeAt_inb_length a r.bufPos bs (by omega)
      rw [hmod _ (show bs.length ≤ 40 by omega)]
      exact post_mk r _ _ _ _ (Frame.trans (Nat.le_refl _) hf hw) (by omega) (by omega) (by omega) (by omega)
  · -- count
    split
    · exact post_same r _ hinv hpos
    · split
      · exact post_same r _ hinv hpos
      · rename_i a hc
        split
        · exact post_same r _ hinv hpos
        · obtain ⟨hf, hroom, hg⟩ := check_frame r.a a r.bufPos hsmall hinv hpos hc
          split
          · exact post_same r _ hinv hpos
          rename_i hlen'
          have hlen : bs.length ≤ 20 := Nat.le_of_not_gt hlen'
          have hw := write_frame a r.bufPos bs hf.inv hroom hlen
          have hwl := writeAt_inb_length a r.bufPos bs (by omega)
          rw [hmod _ (show bs.length ≤ 40 by omega)]
          exact post_mk r _ _ _ _ (Frame.trans (Nat.le_refl _) hf hw) (by omega) (by omega) (by omega) (by omega)
  · -- fitting
    split
    · exact post_same r _ hinv hpos
    · rename_i a hc
      obtain ⟨hf, hroom, hg⟩ := check_frame r.a a r.bufPos hsmall hinv hpos hc
      split
      · exact post_same r _ hinv hpos
      · split
        · exact post_same r _ hinv hpos
        rename_i hlen'
        have hlen : bs.length ≤ 20 := Nat.le_of_not_gt hlen'
        have hw := write_frame a r.bufPos bs hf.inv hroom hlen
        have hwl := writeAt_inb_length a r.bufPos bs (by omega)
        have hcs : (writeAt a r.bufPos bs).chunkSize = a.chunkSize := hw.chunk
        have hf1 : Frame r.bufPos r.a (writeAt a r.bufPos bs) :=
          Frame.trans (Nat.le_refl _) hf hw
        simp only [hcs]
        split
        · rw [hmod _ (show bs.length ≤ 40 by omega)]
          exact post_mk r _ _ _ _ hf1 (by omega) (by omega) (by omega) (by omega)
        · rename_i hnofit
          -- padding: free < bs.length ≤ 20
          have hfree : a.chunkSize - r.bufPos % a.chunkSize < bs.length := by
            simp only [Bool.or_eq_true, decide_eq_true_eq, not_or, Nat.not_le] at hnofit
            exact hnofit.1
          generalize hfr : a.chunkSize - r.bufPos % a.chunkSize = free at *
          have hpl : (nopPadding free).length = free := nopPadding_length free
          have hw2 := write_frame (writeAt a r.bufPos bs) r.bufPos (nopPadding free) hw.inv
            (by omega) (by omega)
          have hw2l := writeAt_inb_length (writeAt a r.bufPos bs) r.bufPos (nopPadding free) (by omega)
          have hf2 : Frame r.bufPos r.a (writeAt (writeAt a r.bufPos bs) r.bufPos (nopPadding free)) :=
            Frame.trans (Nat.le_refl _) hf1 hw2
          rw [hmod _ (show free ≤ 40 by omega)]
          split
          · exact post_mk r _ _ _ _ hf2 (by omega) (by omega) (by omega) (by omega)
          · rename_i a3 hc3
            obtain ⟨hf3, hroom3, hg3⟩ := check_frame _ a3 (r.bufPos + free) (by omega) hw2.inv
              (by omega) hc3
            have hw4 := write_frame a3 (r.bufPos + free) bs hf3.inv hroom3 hlen
            have hw4l := writeAt_inb_length a3 (r.bufPos + free) bs (by omega)
            have hf34 : Frame (r.bufPos + free) _ (writeAt a3 (r.bufPos + free) bs) :=
              Frame.trans (Nat.le_refl _) hf3 hw4
            have hf4 : Frame r.bufPos r.a (writeAt a3 (r.bufPos + free) bs) :=
              Frame.trans (by omega) hf2 hf34
            have hmod2 : (r.bufPos + free + bs.length) % 2 ^ 32 = r.bufPos + free + bs.length :=
              Nat.mod_eq_of_lt (by omega)
            split
            · rw [hmod2]
              exact post_mk r _ _ _ _ hf4 (by omega) (by omega) (by omega) (by omega)
            · exact post_mk r _ _ _ _ hf4 (by omega) (by omega) (by omega) (by omega)

end AL.Lemmas
