#!/usr/bin/env python3
"""Regenerate /verif/MANIFEST.json from the table below (kept next to the checks so that the
manifest can never drift from what checks.py registers)."""
import json, os, sys
HERE = os.path.dirname(os.path.dirname(os.path.abspath(__file__)))
sys.path.insert(0, HERE)

NOTE = ("Trusted base: Lean 4.33 kernel (axioms propext, Classical.choice, Quot.sound only; audited on every run, no "
        "native_decide/bv_decide/sorry); AL.Spec as the formal reading of the property; gen/dump_tables.c (tables and constants "
        "regenerated from /repo/src on every run); the hand-written AL.Impl model of the C control flow, tied to the code by "
        "differential execution (exhaustive on finite domains, boundary+seeded sampling otherwise); gcc, sanitizers, harness/*.c, "
        "alv.py. ")

CLAIMS = {
 "C07": dict(
   text="Theorems AL.Properties.C07.contained / contained_oob / step_J / no_room_fails: for a caller buffer of ANY length n < 2 GiB with "
        "any prior contents and EVERY finite history of setter, chunk, offset (0<=k<=n), assemble and counting calls (any text, "
        "succeeding or failing, all three modes) the model's out-of-bounds log stays empty, the buffer keeps its n bytes and every call "
        "leaves the bytes before its starting offset unchanged; with fewer than 20 bytes left the next instruction is not stored. Proved "
        "for every per-line function (no fact about the encoder is used; only the length test of assemble_within_reserve). Tie: the "
        "parser/API model is run with the implementation's own per-line results against the real library on caller buffers between "
        "guard regions under ASan (every length 0..44 x programs x offsets x modes, then random histories).",
   note="Induction over the history is unbounded; the tie between AL.Impl.Parser/Api and parser.c/assemblyline.c is differential "
        "(sampled histories). Positions are assumed below 2^31-60 (int arithmetic of the C code).",
   technique="Lean 4 invariant proof by induction over call histories + differential correspondence with guard regions",
   design="8/C07"),
 "C12": dict(
   text="Theorems AL.Properties.C12.refines / refines_abs / step_refines / create_default / other_instances_untouched: for EVERY finite "
        "sequence of the five setters with ANY argument value the stored option byte is exactly the encoding of what the documented table "
        "(AL.Spec.Api, written from the man page) yields from SMART/NASM/NASM; a setter on one instance changes no other instance. "
        "Tie: all setter sequences up to length 2 (quick) / 3 (thorough) x values 0..3 plus random longer ones on one or two live "
        "instances, observed through four probe lines that are checked to discriminate all 12 states on the implementation.",
   note="The option byte is observed only through assembled probe lines; the probes' discrimination is re-checked on every run.",
   technique="Lean 4 refinement proof (12 states x 20 transitions by kernel evaluation, induction over call lists) + differential correspondence",
   design="8/C12"),
}

ALL = ["C%02d" % i for i in range(1, 21)]


def main():
    checks = []
    for pid in ALL:
        if pid not in CLAIMS:
            continue
        c = CLAIMS[pid]
        checks.append({
            "property_id": pid,
            "quick_cmd": f"python3 alv.py check {pid} --tier quick",
            "thorough_cmd": f"python3 alv.py check {pid} --tier thorough",
            "evidence_file": f"evidence/{pid}.json",
            "replay_cmd_template": "python3 alv.py replay {path}",
            "engine": "lean-al",
            "level_claimed": {"category": "proof", "text": c["text"], "design_ref": c["design"]},
            "level_note": NOTE + c["note"],
            "technique": c["technique"],
        })
    na = [{"property_id": p, "reason": "check not built yet in this round (work in progress; the technique applies, see DESIGN.md section 8)"}
          for p in ALL if p not in CLAIMS]
    m = {
        "version": 1,
        "setup_cmd": "python3 alv.py setup",
        "hooks": {"guard": "ALVERIF_HOOKS", "enable": "checks compile /repo/src/*.c with -DALVERIF_HOOKS (no guarded code exists in the sources)",
                  "baseline_off_cmd": "python3 tools/baseline.py", "source_commits": [], "add_only": True},
        "engines": [{"name": "lean-al", "path": "lean", "serves_properties": [c["property_id"] for c in checks],
                     "kind_free_text": "Lean 4 model (AL.Impl) + theorems (AL.Properties) + line-protocol driver; alv.py/checks.py tie it to /repo"}],
        "checks": checks,
        "not_applicable": na,
        "notes": "See DESIGN.md. Fix commits in /repo and known findings are listed in known_findings.json.",
    }
    json.dump(m, open(os.path.join(HERE, "MANIFEST.json"), "w"), indent=1)
    print("MANIFEST.json:", len(checks), "checks,", len(na), "not_applicable")


if __name__ == "__main__":
    main()
