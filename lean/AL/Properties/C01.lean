/-
  C01 — integer instructions on registers encode exactly the instruction written.

  Statement (AL.Spec.X86*): for every instance d of the family — every integer entry of the reference
  opcode table whose operands are registers, over ALL register tuples x86-64 can encode (every width,
  r8–r15, ah/ch/dh/bh without REX), every synonym mnemonic, the no-operand instructions —
      decode (assemble (render d)) = d,  one instruction, length = number of bytes emitted.
   * `Sweep.c01_sweep`        — the whole family (≈ 51 000 instances x 2 option bytes) on the model,
                                decided by evaluation (native_decide, see AL/Properties/Sweep/C01.lean);
                                option bytes beyond {14, 0}: C11 `other_lines_identical` (these lines have
                                neither immediate nor memory operand);
   * `nop_table_decodes`      — kernel-checked: each entry n of the regenerated NOP table (nop, nop2 … nop11,
                                also the padding of C13) is ONE instruction that the decoder reads as a nop of
                                exactly n bytes;
   * `no_operand_lines`       — kernel-checked, text level: the no-operand instructions;
   * `regpair_fields`         — kernel-checked (evaluation by the kernel, no native_decide): REX and ModRM as get_rex_prefix / get_reg compute
                                them name the two registers at their width, for EVERY encodable pair of general registers of all four widths;
   * `letter_case_irrelevant` — kernel-checked, for EVERY line and option byte: writing any of its letters in the other case
                                gives the same per-line result, so the sweep over lower-case spellings covers upper and mixed case.
-/
import AL.Properties.Sweep.C01
import AL.Impl.Parser
import AL.Lemmas.FilterLemmas
import AL.Impl.Encoder
namespace AL.Properties.C01
open AL AL.Impl AL.Gen AL.Spec.X86

def isNopOfLen (bs : List Nat) (n : Nat) : Bool :=
  match decode bs with
  | some d => d.mn == (mn! "nop") && d.len == n && bs.length == n
  | none => false

/-- **the NOP table**: entry n is one nop instruction of n bytes (n = 1..11) -/
theorem nop_table_decodes : nopTable.length = 11 ∧
    ((List.range 11).all fun i => isNopOfLen (nopTable.getD i []) (i + 1)) = true := by decide +kernel

def lineDecodes (opt : Nat) (text : Str) (mn : Mn) : Bool :=
  match (assembleLine opt text).1 with
  | .ok (.code bs) => (match decode bs with
      | some d => d.mn == mn && d.ops.isEmpty && d.len == bs.length
      | none => false)
  | _ => false

set_option maxRecDepth 100000 in
/-- **no-operand instructions**, whole per-line pipeline, kernel evaluation -/
theorem no_operand_lines :
    ([mn! "clc", mn! "cpuid", mn! "lfence", mn! "mfence", mn! "sfence", mn! "rdpmc", mn! "rdtsc", mn! "rdtscp", mn! "ret", mn! "xend",
      mn! "nop"].all fun t => lineDecodes 14 t t) = true := by decide +kernel

/-- **letter case**: two texts that agree after folding A–Z to a–z give the same per-line result (bytes or rejection) -/
theorem letter_case_irrelevant (opt : Nat) (t1 t2 : Str) (h : t1.map tolower = t2.map tolower) :
    (assembleLine opt t1).1 = (assembleLine opt t2).1 :=
  AL.Lemmas.assembleLine_of_filter opt t1 t2 (by rw [AL.Lemmas.filterLine_case t1 t2 h])

example : (toStr "MOVZX EAX, BL").map tolower = (toStr "movzx eax, bl").map tolower := by decide

/-- a register operand as the lexer leaves it -/
def regOpd (r : Reg) : Operand := { str := toStr r.name, reg := strToReg (toStr r.name), index := c_reg_none, type := 114 }

/-- does the register need a REX prefix (r8..r15 and their parts, spl bpl sil dil) -/
def needsRex (r : Reg) : Bool := r.num ≥ 8 || (r.file == .gpr8 && r.num ≥ 4)

/-- x86-64 cannot encode a legacy high-byte register next to one that needs REX -/
def pairOk (m r : Reg) : Bool := !((m.file == .gpr8h || r.file == .gpr8h) && (needsRex m || needsRex r))

/-- REX and ModRM of a two-register form as `get_rex_prefix` and `get_reg` compute them (rm operand m, reg operand r), read back as the
    architecture reads them: mod = 11, rm + 8·REX.B names m, reg + 8·REX.R names r, REX.W exactly for 64 bits, REX.X clear, and REX is
    absent or a value 0x40..0x4f -/
def pairFieldsOk (bits : Nat) (m r : Reg) : Bool :=
  let s0 : Instr := { modDisp := c_MOD24 }
  let (s1, rex) := getRexPrefix s0 (regOpd m) (regOpd r)
  match getRegFinish s1 (regOpd m) (regOpd r).reg with
  | .error _ => false
  | .ok s2 =>
    let modrm := s2.hex.reg
    let hasRex := rex != 0
    (rex == 0 || (0x40 ≤ rex && rex ≤ 0x4f)) && modrm / 64 == 3 && modrm < 256 &&
    mkReg .gpr bits hasRex (modrm % 8 + 8 * (rex % 2)) == m &&
    mkReg .gpr bits hasRex ((modrm / 8) % 8 + 8 * ((rex / 4) % 2)) == r &&
    ((rex / 8) % 2 == 1) == (bits == 64) && (rex / 2) % 2 == 0

/-- **REX and ModRM of every register pair** (kernel evaluation): for all four widths and EVERY pair of general registers of that width
    that x86-64 can encode together (r8-r15 and their parts, spl/bpl/sil/dil, the legacy high-byte registers), the prefix and ModRM
    byte that `get_rex_prefix` and `get_reg` compute name exactly those two registers at that width -/
theorem regpair_fields :
    ([8, 16, 32, 64].all fun bits => (regsOf .gpr bits).all fun m => (regsOf .gpr bits).all fun r =>
      !pairOk m r || pairFieldsOk bits m r) = true := by decide +kernel

example : pairOk ⟨.gpr8h, 4⟩ ⟨.gpr8, 6⟩ = false ∧ pairOk ⟨.gpr8h, 4⟩ ⟨.gpr8, 3⟩ = true ∧ pairFieldsOk 8 ⟨.gpr8, 6⟩ ⟨.gpr8, 0⟩ = true := by decide +kernel



end AL.Properties.C01
