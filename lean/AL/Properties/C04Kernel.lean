/-
  AL.Properties.C04Kernel — the kernel-checked part of C04, restated from AL.Properties.Kernel.C04 (74 generated modules).  A module of
  its own for the same reason as AL.Properties.C01Kernel.
-/
import AL.Properties.C04
import AL.Properties.Kernel.C04
namespace AL.Properties.C04
open AL AL.Impl AL.Gen AL.Spec.X86

open AL.Properties.Kernel in
/-- **C04 for every form with at most two register operands — kernel-checked** (restated from AL.Properties.Kernel.c04_two_operand_forms):
    every MMX / SSE / AVX / BMI2 entry of the reference table with at most two register operands, EVERY register tuple of its register
    files, the byte boundary values of its immediate, EVERY option byte: the written line exists, and the model either turns it into bytes
    the reference decoder reads back as exactly one instruction covering all of them, the written one, or rejects a form outside the
    frozen supported list; it is never skipped -/
theorem two_operand_forms (en : Enc) (hen : en ∈ entriesC04) (d : Dec) (hd : d ∈ enumEnc fillC04 en) (opt : Nat) :
    ∃ text, lineL4 d.mn d.ops = some text ∧
      match (assembleLine opt text).1 with
      | .ok (.code bs) => ∃ g, decodeAll 4 bs = some [g] ∧ g.len = bs.length ∧ sameInstr (itemOf d.mn d) g = true
      | .ok .skip => False
      | .error _ => supportedForm (itemOf d.mn d) = false := by
  obtain ⟨text, hl, h⟩ := c04_two_operand_forms en hen d hd opt
  refine ⟨text, hl, ?_⟩
  unfold holdsAtT at h
  cases hr : (assembleLine opt text).1 with
  | error e => rw [hr] at h; simpa using h
  | ok lo =>
    rw [hr] at h
    cases lo with
    | skip => simp at h
    | code bs =>
      dsimp only at h ⊢
      unfold decodesTo at h
      cases hd4 : decodeAll 4 bs with
      | none => rw [hd4] at h; simp at h
      | some gs =>
        rw [hd4] at h
        match gs, h with
        | [g], h =>
          simp only [Bool.and_eq_true, beq_iff_eq] at h
          exact ⟨g, rfl, h.1, h.2⟩

end AL.Properties.C04
