#!/usr/bin/env python3
"""
T4 — memory-access site inventory (C09).  Walks the clang JSON AST of the parser/encoder source
files of /repo and lists every array subscript, pointer dereference and call of a libc string
function as "file:function: expression".  `sites_audited.json` (committed) is the audited list,
each function mapped to the Lean lemma(s) that bound its accesses; a site that appears, disappears
or changes text is reported by the C09 check (the obligation set no longer covers the code).
"""
import json, subprocess, sys, os, re, hashlib

FILES = ["parser.c", "tokenizer.c", "reg_parser.c", "instr_parser.c", "encoder.c", "assembler.c", "prefix.c", "assemblyline.c"]
STRFUNCS = {"strncpy", "strtok_r", "strstr", "strlen", "strchr", "strcmp", "strcasecmp", "strtoul", "tolower", "memcpy", "memset",
            "snprintf", "strtok", "strcpy", "strcat", "sprintf"}


def text_of(src, node):
    r = node.get("range", {})
    b = r.get("begin", {})
    e = r.get("end", {})
    bo = b.get("offset", b.get("expansionLoc", {}).get("offset"))
    eo = e.get("offset", e.get("expansionLoc", {}).get("offset"))
    tl = e.get("tokLen", e.get("expansionLoc", {}).get("tokLen", 1))
    if bo is None or eo is None:
        return "?"
    return re.sub(r"\s+", " ", src[bo:eo + tl].decode("latin1")).strip()


def walk(node, src, fname, fn, out):
    k = node.get("kind")
    if k == "FunctionDecl" and any(c.get("kind") == "CompoundStmt" for c in node.get("inner", [])):
        fn = node.get("name")
    if fn:
        if k == "ArraySubscriptExpr":
            out.append("%s:%s: %s" % (fname, fn, text_of(src, node)))
        elif k == "UnaryOperator" and node.get("opcode") == "*":
            out.append("%s:%s: %s" % (fname, fn, text_of(src, node)))
        elif k == "CallExpr":
            callee = node.get("inner", [{}])[0]
            name = None
            stack = [callee]
            while stack:
                n = stack.pop()
                if n.get("kind") == "DeclRefExpr":
                    name = n.get("referencedDecl", {}).get("name")
                    break
                stack += n.get("inner", [])
            if name in STRFUNCS:
                out.append("%s:%s: %s" % (fname, fn, text_of(src, node)))
    for c in node.get("inner", []):
        if isinstance(c, dict):
            walk(c, src, fname, fn, out)


def inventory(repo, cache_dir=None):
    sites = []
    hdr = b"".join(open(os.path.join(repo, "src", h), "rb").read()
                   for h in sorted(os.listdir(os.path.join(repo, "src"))) if h.endswith(".h"))
    for f in FILES:
        path = os.path.join(repo, "src", f)
        src = open(path, "rb").read()
        key = hashlib.sha256(src + hdr).hexdigest()[:16]
        cf = os.path.join(cache_dir, "sites_%s_%s.json" % (f, key)) if cache_dir else None
        if cf and os.path.exists(cf):
            sites += json.load(open(cf))
            continue
        p = subprocess.run(["clang-14", "-std=gnu99", "-I" + os.path.join(repo, "src"), "-I" + repo, "-fsyntax-only",
                            "-Xclang", "-ast-dump=json", path], stdout=subprocess.PIPE, stderr=subprocess.DEVNULL)
        ast = json.loads(p.stdout)
        out = []
        infile = False
        for top in ast.get("inner", []):
            loc = top.get("loc", {})
            # clang only prints "file" when it changes: track whether we are inside the .c file itself
            fl = loc.get("file") or loc.get("expansionLoc", {}).get("file") or loc.get("spellingLoc", {}).get("file")
            if fl:
                infile = os.path.basename(fl) == f
            if top.get("kind") == "FunctionDecl" and infile and not loc.get("includedFrom"):
                walk(top, src, f, None, out)
        out = sorted(set(out))
        if cf:
            os.makedirs(cache_dir, exist_ok=True)
            json.dump(out, open(cf, "w"))
        sites += out
    return sorted(set(sites))


if __name__ == "__main__":
    repo = sys.argv[1] if len(sys.argv) > 1 else "/repo"
    s = inventory(repo)
    if len(sys.argv) > 2 and sys.argv[2] == "--freeze":
        here = os.path.dirname(os.path.abspath(__file__))
        json.dump({"sites": s}, open(os.path.join(here, "sites_audited.json"), "w"), indent=0)
        print("frozen", len(s), "sites")
    else:
        print("\n".join(s))
        print(len(s), "sites", file=sys.stderr)
