/-
  AL.Lemmas.FilterLemmas — what the line filter (src/parser.c filter_assembly_str_fsa) does
  NOT look at: letter case, text behind a comment character, leading blanks, blanks behind
  the mnemonic's separator.  All for arbitrary byte strings.
-/
import AL.Lemmas.LineLocal
namespace AL.Lemmas
open AL AL.Impl AL.Gen

/-- bytes that differ at most in the case of an ASCII letter -/
def sameCase (a b : Nat) : Prop := tolower a = tolower b ∧ (a ≤ 126 ↔ b ≤ 126) ∧ (a < 128 ↔ b < 128)

theorem tolower_upper (c : Nat) (h1 : 65 ≤ c) (h2 : c ≤ 90) : @Eq Nat (tolower c) (c + 32) := by
  unfold tolower
  have : (65 ≤ c && c ≤ 90) = true := by simp; omega
  simp [this]

theorem tolower_other (c : Nat) (h : ¬(65 ≤ c ∧ c ≤ 90)) : @Eq Nat (tolower c) c := by
  unfold tolower
  have : (65 ≤ c && c ≤ 90) = false := by
    cases hh : (65 ≤ c && c ≤ 90) with
    | false => rfl
    | true => simp only [Bool.and_eq_true, decide_eq_true_eq] at hh; exact absurd hh h
  simp [this]

/-- two bytes with the same lower-case form are equal or an upper/lower pair of one letter -/
theorem sameLower_cases (a b : Nat) (h : tolower a = tolower b) :
    a = b ∨ (65 ≤ a ∧ a ≤ 90 ∧ b = a + 32) ∨ (65 ≤ b ∧ b ≤ 90 ∧ a = b + 32) := by
  have h' : @Eq Nat (tolower a) (tolower b) := h
  by_cases ha : 65 ≤ a ∧ a ≤ 90 <;> by_cases hb : 65 ≤ b ∧ b ≤ 90
  · have e1 := tolower_upper a ha.1 ha.2; have e2 := tolower_upper b hb.1 hb.2
    left; omega
  · have e1 := tolower_upper a ha.1 ha.2; have e2 := tolower_other b hb
    right; left; exact ⟨ha.1, ha.2, by omega⟩
  · have e1 := tolower_other a ha; have e2 := tolower_upper b hb.1 hb.2
    right; right; exact ⟨hb.1, hb.2, by omega⟩
  · have e1 := tolower_other a ha; have e2 := tolower_other b hb
    left; omega

theorem stopCh_letter (c : Nat) (h : 65 ≤ c) : stopCh c = false := by
  unfold stopCh
  have e1 : (c == 59) = false := by simp; omega
  have e2 : (c == 37) = false := by simp; omega
  have e3 : (c == 13) = false := by simp; omega
  have e4 : (c == 10) = false := by simp; omega
  simp [e1, e2, e3, e4]

theorem stopCh_lower (a b : Nat) (h : tolower a = tolower b) : stopCh a = stopCh b := by
  rcases sameLower_cases a b h with rfl | ⟨h1, h2, rfl⟩ | ⟨h1, h2, rfl⟩
  · rfl
  · rw [stopCh_letter a h1, stopCh_letter (a + 32) (by omega)]
  · rw [stopCh_letter b h1, stopCh_letter (b + 32) (by omega)]

/-- on a letter (either case) every state of the filter emits its lower-case form -/
theorem filterStep_letter (st : FState) (c : Nat) (h : (65 ≤ c ∧ c ≤ 90) ∨ (97 ≤ c ∧ c ≤ 122)) :
    filterStep st c = ((match st with | .begin => .firstCh | s => s), some (tolower c)) := by
  have c1 : (65 ≤ c && c ≤ 122) = true := by simp; omega
  have c2 : (33 < c && c < 128) = true := by simp; omega
  cases st <;> simp [filterStep, c1, c2]

theorem filterStep_lower (st : FState) (a b : Nat) (h : tolower a = tolower b) :
    filterStep st a = filterStep st b ∧ (decide (a > 126) = decide (b > 126)) := by
  rcases sameLower_cases a b h with rfl | ⟨h1, h2, rfl⟩ | ⟨h1, h2, rfl⟩
  · exact ⟨rfl, rfl⟩
  · refine ⟨?_, by simp; omega⟩
    rw [filterStep_letter st a (Or.inl ⟨h1, h2⟩), filterStep_letter st (a + 32) (Or.inr ⟨by omega, by omega⟩), h]
  · refine ⟨?_, by simp; omega⟩
    rw [filterStep_letter st b (Or.inl ⟨h1, h2⟩), filterStep_letter st (b + 32) (Or.inr ⟨by omega, by omega⟩), h]

/-- **letter case never matters to the filter** (any state, any text) -/
theorem filterGo_case (st : FState) (acc : Str) (j i : Nat) (l1 l2 : Str)
    (h : l1.map tolower = l2.map tolower) : filterGo st acc j i l1 = filterGo st acc j i l2 := by
  induction l1 generalizing st acc j i l2 with
  | nil =>
    cases l2 with
    | nil => rfl
    | cons _ _ => simp at h
  | cons a as ih =>
    cases l2 with
    | nil => simp at h
    | cons b bs =>
      simp only [List.map_cons, List.cons.injEq] at h
      obtain ⟨hab, hrest⟩ := h
      obtain ⟨hstep, hgt⟩ := filterStep_lower st a b hab
      simp only [filterGo, stopCh_lower a b hab, hstep]
      have hgt' : (a > 126) ↔ (b > 126) := by
        constructor <;> intro hh
        · have := congrArg (fun x => x = true) hgt; simp at this; exact this.1 hh
        · have := congrArg (fun x => x = true) hgt; simp at this; exact this.2 hh
      split
      · rfl
      · split
        · split
          · rfl
          · by_cases hb : b > 126
            · simp [hb, hgt'.2 hb]
            · have ha : ¬ a > 126 := fun hh => hb (hgt'.1 hh)
              simp only [ha, hb, if_false]; exact ih _ _ _ _ _ hrest
        · by_cases hb : b > 126
          · simp [hb, hgt'.2 hb]
          · have ha : ¬ a > 126 := fun hh => hb (hgt'.1 hh)
            simp only [ha, hb, if_false]; exact ih _ _ _ _ _ hrest

theorem filterLine_case (l1 l2 : Str) (h : l1.map tolower = l2.map tolower) :
    filterLine l1 = filterLine l2 := filterGo_case _ _ _ _ _ _ h

/-- the filter stops at a comment / macro character exactly as at the end of the text -/
theorem filterGo_comment (st : FState) (acc : Str) (j i : Nat) (l : Str) (c : Nat) (rest : Str)
    (hc : stopCh c = true) : filterGo st acc j i (l ++ c :: rest) = filterGo st acc j i l := by
  induction l generalizing st acc j i with
  | nil => simp [filterGo, hc]
  | cons a as ih =>
    simp only [List.cons_append, filterGo]
    split
    · rfl
    · split
      · split
        · rfl
        · split
          · rfl
          · exact ih _ _ _ _
      · split
        · rfl
        · exact ih _ _ _ _

/-- a blank: a byte the filter drops in every state once a mnemonic has started -/
def isBlank (c : Nat) : Bool := c == 32 || c == 9

/-- in the operand part (state SPACE_FOUND) blanks are dropped -/
theorem filterGo_blank (acc : Str) (j i : Nat) (b : Nat) (cs : Str) (hb : isBlank b = true) :
    filterGo .spaceFound acc j i (b :: cs) = filterGo .spaceFound acc j (i + 1) cs := by
  have hb' : b = 32 ∨ b = 9 := by simpa [isBlank] using hb
  have hs : stopCh b = false := by rcases hb' with rfl | rfl <;> decide
  have hst : filterStep .spaceFound b = (.spaceFound, none) := by rcases hb' with rfl | rfl <;> decide
  have h126 : ¬ b > 126 := by rcases hb' with rfl | rfl <;> decide
  simp [filterGo, hs, hst, h126]

/-- leading bytes that cannot start a mnemonic are skipped (state BEGIN) -/
theorem filterGo_leading (acc : Str) (j i : Nat) (b : Nat) (cs : Str) (hb : isBlank b = true) :
    filterGo .begin acc j i (b :: cs) = filterGo .begin acc j (i + 1) cs := by
  have hb' : b = 32 ∨ b = 9 := by simpa [isBlank] using hb
  have hs : stopCh b = false := by rcases hb' with rfl | rfl <;> decide
  have hst : filterStep .begin b = (.begin, none) := by rcases hb' with rfl | rfl <;> decide
  have h126 : ¬ b > 126 := by rcases hb' with rfl | rfl <;> decide
  simp [filterGo, hs, hst, h126]

/-- the per-line result depends on the text only through what the filter returns -/
theorem assembleLine_of_filter (opt : Nat) (t1 t2 : Str)
    (h : (filterLine t1).map Prod.fst = (filterLine t2).map Prod.fst) :
    (assembleLine opt t1).1 = (assembleLine opt t2).1 := by
  unfold assembleLine
  cases h1 : filterLine t1 with
  | none =>
    cases h2 : filterLine t2 with
    | none => rfl
    | some p => simp [h1, h2] at h
  | some p =>
    cases h2 : filterLine t2 with
    | none => simp [h1, h2] at h
    | some q =>
      rcases p with ⟨f1, i1⟩
      rcases q with ⟨f2, i2⟩
      simp only [h1, h2, Option.map_some, Option.some.injEq] at h
      subst h
      simp only
      split
      · rfl
      · split
        · rfl
        · split <;> rfl

end AL.Lemmas

namespace AL.Lemmas
open AL AL.Impl AL.Gen

/-- in the operand part the filtered string depends only on the non-blank characters -/
theorem filterGo_deblank (acc : Str) (j i i' : Nat) (ops : Str) :
    (filterGo .spaceFound acc j i ops).map Prod.fst =
    (filterGo .spaceFound acc j i' (ops.filter (fun c => !isBlank c))).map Prod.fst := by
  induction ops generalizing acc j i i' with
  | nil => simp [filterGo]
  | cons c cs ih =>
    by_cases hb : isBlank c = true
    · simp only [List.filter_cons, hb, Bool.not_true, Bool.false_eq_true, if_false]
      rw [filterGo_blank acc j i c cs hb]; exact ih _ _ _ _
    · have hb' : (!isBlank c) = true := by simpa using hb
      have hst : (filterStep .spaceFound c).1 = .spaceFound := by
        simp only [filterStep]; split <;> rfl
      rcases hstep : filterStep .spaceFound c with ⟨st', o⟩
      rw [hstep] at hst
      simp only at hst
      subst hst
      simp only [List.filter_cons, hb', if_true, filterGo, hstep]
      split
      · rfl
      · cases o with
        | none =>
          simp only
          split
          · rfl
          · exact ih _ _ _ _
        | some oc =>
          simp only
          split
          · rfl
          · split
            · rfl
            · exact ih _ _ _ _

end AL.Lemmas
