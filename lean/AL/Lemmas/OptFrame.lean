/-
  AL.Lemmas.OptFrame — where the option byte matters.  In the model the option byte is a
  parameter of exactly the functions that (transitively) read it; the lexer has no such parameter,
  so lexing is option-independent by construction.  The lemmas below show that the readers —
  encode_mem's swap, get_reg's no-base rule, encode_imm_data_transfer, check_zero — return the same
  result for any two option bytes unless their guard fires.
-/
import AL.Impl.Line
namespace AL.Lemmas
open AL AL.Impl AL.Gen

/-- the swap of encode_mem cannot fire for operand `mi`: its index is not an unscaled stack pointer -/
def SwapOff (s : Instr) (mi : Nat) : Prop :=
  ¬ (((s.opd mi).index &&& c_REG_MASK) = c_spl ∧ s.sibDisp = 0)

theorem swapFires_off (o : Nat) (s : Instr) (mi : Nat) (h : SwapOff s mi) : swapFires o s mi = false := by
  unfold swapFires
  cases hh : (band o c_NASM_SIB_INDEX_BASE_SWAP && ((s.opd mi).index &&& c_REG_MASK) == c_spl && s.sibDisp == 0) with
  | false => rfl
  | true =>
    simp only [Bool.and_eq_true, beq_iff_eq] at hh
    exact absurd ⟨hh.1.2, hh.2⟩ h

theorem encodeMem_indep (o1 o2 : Nat) (s : Instr) (mi : Nat) (h : SwapOff s mi) :
    encodeMem o1 s mi = encodeMem o2 s mi := by
  unfold encodeMem
  rw [swapFires_off o1 s mi h, swapFires_off o2 s mi h]

theorem opd_setOpd_same (s : Instr) (i : Nat) (o : Operand) (hi : i < 4) : (s.setOpd i o).opd i = o := by
  match i, hi with
  | 0, _ => rfl
  | 1, _ => rfl
  | 2, _ => rfl
  | 3, _ => rfl

theorem setAddrPrefixes_opd (s : Instr) (m : Operand) (i : Nat) : (setAddrPrefixes s m).opd i = s.opd i := by
  unfold setAddrPrefixes
  dsimp only
  split <;> split <;> rfl

theorem markSibConst_opd (s : Instr) (m : Operand) (i : Nat) : (markSibConst s m).opd i = s.opd i := by
  unfold markSibConst; split <;> rfl

theorem zeroDispFix_opd (s : Instr) (m : Operand) (i : Nat) : (zeroDispFix s m).opd i = s.opd i := by
  unfold zeroDispFix; split <;> (try rfl); dsimp only; split <;> rfl

/-- without a swap, encode_mem leaves the memory operand itself alone -/
theorem encodeMemCore_opd (s : Instr) (mi : Nat) (hi : mi < 4) : (encodeMemCore s mi false).opd mi = s.opd mi := by
  unfold encodeMemCore swapOperand
  simp only [Bool.false_eq_true, if_false]
  rw [zeroDispFix_opd, markSibConst_opd, opd_setOpd_same _ _ _ hi]

theorem encodeMem_opd (o : Nat) (s : Instr) (mi : Nat) (hi : mi < 4) (h : SwapOff s mi) :
    (encodeMem o s mi).1.opd mi = s.opd mi := by
  unfold encodeMem
  split
  · rfl
  · rw [swapFires_off o s mi h]; exact encodeMemCore_opd s mi hi

/-- the no-base rule of get_reg cannot fire for operand `m`: it has a base, or no index either -/
def BaseOn (m : Operand) : Prop := noBaseFires m = false

theorem noBaseAdjust_indep (o1 o2 : Nat) (s : Instr) (m : Operand) (h : BaseOn m) :
    noBaseAdjust o1 s m = noBaseAdjust o2 s m := by
  unfold noBaseAdjust
  have h' : noBaseFires m = false := h
  simp only [h', Bool.false_eq_true, if_false]

theorem getReg_indep (o1 o2 : Nat) (s : Instr) (mi r : Nat) (h : BaseOn (s.opd mi)) :
    getReg o1 s mi r = getReg o2 s mi r := by
  unfold getReg
  rw [noBaseAdjust_indep o1 o2 s _ h]

theorem autoSetOperand_opd (s : Instr) (r i : Nat) : (autoSetOperand s r).opd i = s.opd i := by
  unfold autoSetOperand
  split
  · rfl
  · split
    · rfl
    · split
      · rfl
      · split <;> rfl

/-- the memory operand `mi` of the record can trigger neither option-dependent rewriting -/
def MemPlain (s : Instr) (mi : Nat) : Prop := SwapOff s mi ∧ BaseOn (s.opd mi)

theorem encodeTwoOpds_indep (o1 o2 : Nat) (s : Instr) (r m : Nat) (hm : m < 4) (h : MemPlain s m) :
    encodeTwoOpds o1 s r m = encodeTwoOpds o2 s r m := by
  unfold encodeTwoOpds
  rw [encodeMem_indep o1 o2 s m h.1]
  dsimp only
  have hb : BaseOn ((if (encodeMem o2 s m).2 = true then
      autoSetOperand (encodeMem o2 s m).1 (((encodeMem o2 s m).1.opd r).reg) else (encodeMem o2 s m).1).opd m) := by
    have e := encodeMem_opd o2 s m hm h.1
    split
    · rw [autoSetOperand_opd, e]; exact h.2
    · rw [e]; exact h.2
  rw [getReg_indep o1 o2 _ m _ hb]

theorem encodeThreeOpds_indep (o1 o2 : Nat) (s : Instr) (r m v : Nat) (hm : m < 4) (h : MemPlain s m) :
    encodeThreeOpds o1 s r m v = encodeThreeOpds o2 s r m v := by
  unfold encodeThreeOpds
  rw [encodeMem_indep o1 o2 s m h.1]
  dsimp only
  have hb : BaseOn (({ (if (encodeMem o2 s m).2 = true then
      autoSetOperand (encodeMem o2 s m).1 (((encodeMem o2 s m).1.opd r).reg) else (encodeMem o2 s m).1) with
      hex := { (if (encodeMem o2 s m).2 = true then
        autoSetOperand (encodeMem o2 s m).1 (((encodeMem o2 s m).1.opd r).reg) else (encodeMem o2 s m).1).hex with
        vvvv := ((if (encodeMem o2 s m).2 = true then
          autoSetOperand (encodeMem o2 s m).1 (((encodeMem o2 s m).1.opd r).reg) else (encodeMem o2 s m).1).opd v).reg &&& c_MASK_4BIT } } : Instr).opd m) := by
    have e := encodeMem_opd o2 s m hm h.1
    show BaseOn ((if (encodeMem o2 s m).2 = true then
      autoSetOperand (encodeMem o2 s m).1 (((encodeMem o2 s m).1.opd r).reg) else (encodeMem o2 s m).1).opd m)
    split
    · rw [autoSetOperand_opd, e]; exact h.2
    · rw [e]; exact h.2
  rw [getReg_indep o1 o2 _ m _ hb]

end AL.Lemmas
