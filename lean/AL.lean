import AL.Impl.Api
