"""
Case generators for the correspondence checks (T2/T3).  Every random choice derives from one
`random.Random(seed)`; exhaustive parts do not depend on the seed.

A "line case" is (opt, text-bytes).  Generators yield text as `bytes`.
"""
import json, random, itertools

GPR64 = ["rax","rcx","rdx","rbx","rsp","rbp","rsi","rdi","r8","r9","r10","r11","r12","r13","r14","r15"]
GPR32 = ["eax","ecx","edx","ebx","esp","ebp","esi","edi","r8d","r9d","r10d","r11d","r12d","r13d","r14d","r15d"]
GPR16 = ["ax","cx","dx","bx","sp","bp","si","di","r8w","r9w","r10w","r11w","r12w","r13w","r14w","r15w"]
GPR8  = ["al","cl","dl","bl","spl","bpl","sil","dil","r8b","r9b","r10b","r11b","r12b","r13b","r14b","r15b"]
GPR8H = ["ah","ch","dh","bh"]
MMX   = ["mm%d" % i for i in range(8)]
XMM   = ["xmm%d" % i for i in range(16)]
YMM   = ["ymm%d" % i for i in range(16)]
ALLGPR = GPR64 + GPR32 + GPR16 + GPR8 + GPR8H
OPTS = [m + 4 * s + 8 * n for m in (0, 1, 2) for s in (0, 1) for n in (0, 1)]

BOUNDARY = [0, 1, 2, 0x7e, 0x7f, 0x80, 0x81, 0xdf, 0xe0, 0xe1, 0xfe, 0xff, 0x100, 0x101, 0x7fff, 0x8000,
            0xffff, 0x10000, 0xfffffff, 0x10000000, 0x10000001, 0x7ffffffe, 0x7fffffff, 0x80000000,
            0x80000001, 0xffffff7f, 0xffffff80, 0xffffff81, 0xfffffffe, 0xffffffff, 0x100000000,
            0x100000001, 0x7fffffffffffffff, 0x8000000000000000, 0xffffffff00000000,
            0xffffffff00000001, 0xffffffff7fffffff, 0xffffffff80000000, 0xffffffffffffff00,
            0xffffffffffffff01, 0xffffffffffffff7f, 0xffffffffffffff80, 0xfffffffffffffffe,
            0xffffffffffffffff]


def load_tables(path):
    return json.load(open(path))


def mnemonics(tables):
    """name -> list of format strings (from all rows of that mnemonic)"""
    fmtname = {v: s for v, s in tables["formats"]}
    out = {}
    rows = tables["instr"]
    i = 0
    while i < len(rows):
        r = rows[i]
        if r["name"]:
            name, ident = r["name"], r["id"]
            fmts = []
            j = i
            while j < len(rows) and rows[j]["id"] == ident:
                for f in rows[j]["fmt"]:
                    if f >= 0:
                        fmts.append(fmtname[f])
                j += 1
                if j < len(rows) and rows[j]["name"]:
                    break
            out.setdefault(name, [])
            for f in fmts:
                if f not in out[name]:
                    out[name].append(f)
        i += 1
    return out


class Gen:
    def __init__(self, seed, tables):
        self.r = random.Random(seed)
        self.t = tables
        self.mn = mnemonics(tables)
        self.names = sorted(self.mn)

    # ---- atoms -------------------------------------------------------------------------
    def imm_text(self, v=None):
        r = self.r
        if v is None:
            k = r.random()
            if k < 0.5:
                v = r.choice(BOUNDARY)
            elif k < 0.7:
                v = r.getrandbits(r.choice([4, 8, 16, 31, 32, 33, 63, 64]))
            else:
                v = r.choice(BOUNDARY) + r.randint(-2, 2)
                v %= 1 << 64
        neg = r.random() < 0.25
        if neg:
            mag = (1 << 64) - v if v > (1 << 63) else v
            if mag == 0:
                mag = r.choice([1, 0x80, 0x7f])
        else:
            mag = v
        style = r.random()
        if style < 0.45:
            s = "0x%x" % mag
        elif style < 0.55:
            s = "0x%016x" % (mag & ((1 << 64) - 1))
        elif style < 0.62:
            s = "0x" + "0" * r.randint(1, 4) + "%x" % mag
        elif style < 0.67:
            s = "0x%X" % mag
        else:
            s = "%d" % mag
        return ("-" if neg else "") + s

    def gpr(self, width=None):
        r = self.r
        if width is None:
            width = r.choice([64, 64, 64, 32, 32, 16, 8, 8])
        if width == 64: return r.choice(GPR64)
        if width == 32: return r.choice(GPR32)
        if width == 16: return r.choice(GPR16)
        if r.random() < 0.15: return r.choice(GPR8H)
        return r.choice(GPR8)

    def disp_text(self):
        r = self.r
        k = r.random()
        if k < 0.6:
            v = r.choice([0, 1, 8, 0x10, 0x7e, 0x7f, 0x80, 0x81, 0xff, 0x100, 0x101, 0x7fff, 0xffff,
                          0x7ffffffe, 0x7fffffff, 0x80000000, 0xffffffff])
        else:
            v = r.getrandbits(r.choice([3, 7, 8, 9, 16, 31, 32]))
        style = r.random()
        if style < 0.5: return "0x%x" % v
        if style < 0.6: return "0x%08x" % v
        return "%d" % v

    def mem_text(self, valid_bias=0.8):
        r = self.r
        addr = r.choice([GPR64] * 6 + [GPR32] * 3 + [GPR16, GPR8, XMM])
        if r.random() > valid_bias:
            addr2 = r.choice([GPR64, GPR32, GPR16, XMM, MMX])
        else:
            addr2 = addr
        b = r.choice(addr)
        i = r.choice(addr2)
        s = r.choice(["1", "2", "4", "8"]) if r.random() < valid_bias + 0.1 else r.choice(["3", "0", "16", "9", "5"])
        d = self.disp_text()
        sign = r.choice(["+", "+", "-"])
        shapes = [
            "[%s]" % b, "[%s%s%s]" % (b, sign, d), "[%s+%s]" % (b, i), "[%s+%s*%s]" % (b, i, s),
            "[%s+%s*%s]" % (b, s, i), "[%s+%s*%s%s%s]" % (b, i, s, sign, d),
            "[%s+%s*%s%s%s]" % (b, s, i, sign, d), "[%s*%s]" % (s, i), "[%s*%s%s%s]" % (s, i, sign, d),
            "[%s+%s%s%s]" % (b, i, sign, d), "[%s]" % d, "[-%s]" % d,
        ]
        weird = [
            "[%s*%s]" % (i, s), "[%s+%s" % (b, d), "%s]" % b, "[%s+%s+%s]" % (b, i, d), "[]", "[%s-%s]" % (b, i),
            "[%s+%s*%s*%s]" % (b, i, s, s), "[%s%s%s+%s]" % (b, sign, d, i), "[[%s]]" % b, "[%s+*%s]" % (b, i),
            "[%s*%s+%s]" % (s, i, b), "[+%s]" % d, "[%s+-%s]" % (b, d),
        ]
        m = r.choice(shapes) if r.random() < valid_bias else r.choice(weird)
        if r.random() < 0.35:
            kw = r.choice(["byte", "word", "dword", "qword", "byte", "qword", "far", "far qword", "short", "long"]
                          if r.random() < 0.15 else ["byte", "word", "dword", "qword"])
            m = kw + " " + m
        if r.random() < 0.2:
            m = m.replace("+", " + ").replace("[", "[ ").replace("]", " ]")
        return m

    def operand(self, kind, ctxw=None):
        r = self.r
        if kind == "r":
            if r.random() < 0.08: return r.choice(MMX)
            return self.gpr(ctxw)
        if kind == "v": return r.choice(XMM)
        if kind == "y": return r.choice(YMM)
        if kind == "m": return self.mem_text()
        if kind == "i": return self.imm_text()
        return "?"

    # ---- lines -------------------------------------------------------------------------
    def valid_line(self):
        r = self.r
        name = r.choice(self.names)
        fmts = self.mn[name]
        f = r.choice(fmts) if fmts else ""
        ctxw = r.choice([64, 64, 32, 16, 8]) if r.random() < 0.7 else None
        ops = [self.operand(k, ctxw) for k in f]
        if name in ("jmp", "call", "push") and not ops and r.random() < 0.8:
            ops = [self.imm_text()]
        elif f == "" and r.random() < 0.5 and name[0] in "jcx":
            ops = [self.imm_text()]
        if ops and f == "" and r.random() < 0.3:
            ops[0] = r.choice(["short ", "long ", "far "]) + ops[0]
        sep = r.choice([", ", ",", " , "])
        return name + (" " + sep.join(ops) if ops else "")

    def anyform_line(self):
        """known mnemonic, arbitrary operand-kind tuple (mostly not in the table)"""
        r = self.r
        name = r.choice(self.names)
        n = r.choice([0, 1, 1, 2, 2, 2, 3, 3, 4, 5])
        ops = [self.operand(r.choice("rrmivy")) for _ in range(n)]
        return name + (" " + ", ".join(ops) if ops else "")

    def style(self, line):
        """case / spacing / comment rewritings (C16)"""
        r = self.r
        out = []
        for ch in line:
            if ch.isalpha() and r.random() < 0.3:
                ch = ch.upper()
            out.append(ch)
        s = "".join(out)
        if r.random() < 0.3:
            s = r.choice([" ", "\t", "   ", " \t "]) + s
        if r.random() < 0.3:
            s = s.replace(" ", r.choice(["  ", "\t", " \t", "   "]), 1)
        if r.random() < 0.3:
            s = s + r.choice([" ", "\t", "  "])
        if r.random() < 0.3:
            s = s + r.choice(["; comment", ";", " ; mov rax, rbx", "% macro", ";\x80\xff"])
        return s

    def mutate(self, line):
        r = self.r
        b = bytearray(line.encode("latin1"))
        for _ in range(r.choice([1, 1, 1, 2, 3])):
            k = r.random()
            pos = r.randrange(len(b) + 1) if b else 0
            if k < 0.25 and b:
                del b[min(pos, len(b) - 1)]
            elif k < 0.55:
                b.insert(pos, r.choice(b" ,[]+-*x0123456789:;%\tabcdefrstuvwxyz_!~#\x7f\x80\xff\x01"))
            elif k < 0.75 and b:
                b[min(pos, len(b) - 1)] = r.choice(b" ,[]+-*x019rsp\x7f\x80\x1f~{")
            elif k < 0.85:
                tok = r.choice([b",", b",,", b" rax", b"[", b"]", b"*2", b"+0x10", b"-1", b" byte ", b"word",
                                b"dword", b"qword", b" short ", b"long", b"far", b",rbx", b", 5", b"0x"])
                b[pos:pos] = tok
            else:
                b = b + b[: r.randrange(len(b) + 1)]
        return bytes(x for x in b if x != 0)

    def garbage(self):
        r = self.r
        n = r.choice([1, 2, 5, 10, 30, 60, 98, 99, 100, 101, 120, 200])
        alphabet = r.choice([bytes(range(1, 256)), b"abcdefghijklmnopqrstuvwxyz0123456789 ,[]+-*x",
                             b"movraxbcd ,[]+*-0x19"])
        return bytes(r.choice(alphabet) for _ in range(n))

    def long_line(self):
        """lines whose filtered length is around the 99/100 limit"""
        r = self.r
        base = r.choice(["mov rax, ", "add rax, ", "mov [rax+", "push ", "mov rax,[rbx+rcx*2+"])
        target = r.choice([95, 96, 97, 98, 99, 100, 101, 102])
        filt = base.replace(" ", "", 0)
        pad = max(0, target - len(base.replace(" ", "")) - 1)
        k = r.random()
        if base.endswith("+"):
            body = "0x" + "0" * max(0, pad - 8) + "10]" + r.choice(["", ",5", ",rbx", ", 0x7"])
        else:
            body = r.choice(["0x", ""]) + "0" * pad + r.choice(["5", "7f", "1"])
        return base + body

    def line(self):
        r = self.r
        k = r.random()
        if k < 0.50:
            s = self.valid_line()
            if r.random() < 0.3: s = self.style(s)
            return s.encode("latin1")
        if k < 0.62:
            return self.anyform_line().encode("latin1")
        if k < 0.86:
            return self.mutate(self.valid_line())
        if k < 0.92:
            return self.long_line().encode("latin1")
        if k < 0.96:
            return self.garbage()
        return self.mutate(self.style(self.valid_line()))

    def program(self, nlines=None):
        r = self.r
        n = nlines or r.choice([1, 2, 3, 5, 8])
        parts = []
        for _ in range(n):
            k = r.random()
            if k < 0.8:
                l = self.valid_line().encode("latin1")
            elif k < 0.9:
                l = r.choice([b"", b"label:", b"section .text", b"global foo", b"; only a comment", b"   "])
            else:
                l = self.line()
            parts.append(l.replace(b"\n", b"").replace(b"\r", b""))
        eol = r.choice([b"\n", b"\n", b"\r\n", b"\r"])
        txt = eol.join(parts)
        if r.random() < 0.5:
            txt += eol
        return txt


def hexs(b):
    return b.hex() if b else "-"


# ---- API histories (T3) --------------------------------------------------------------------

def history(g, nops=None, max_inst=3, allow_internal=True):
    """One random API history as a list of protocol lines (see harness/apidrv.c)."""
    r = g.r
    n = nops or r.choice([3, 5, 8, 12, 20])
    live = {}
    out = []

    def new():
        free = [i for i in range(max_inst) if i not in live]
        if not free:
            return
        i = r.choice(free)
        if allow_internal and r.random() < 0.3:
            live[i] = None
            out.append("N %d -" % i)
        else:
            ln = r.choice([0, 1, 5, 19, 20, 21, 22, 24, 25, 30, 39, 40, 41, 48, 64, 100, 200, 300])
            live[i] = ln
            out.append("N %d %d %02x" % (i, ln, r.choice([0x00, 0xcc, 0xff, 0x90, r.randrange(256)])))

    new()
    for _ in range(n):
        if not live:
            new()
            continue
        i = r.choice(list(live))
        ln = live[i]
        k = r.random()
        if k < 0.08:
            new()
        elif k < 0.22:
            out.append("S %d %s %d" % (i, r.choice(["mov", "sib", "swap", "nobase", "all"]),
                                       r.choice([0, 1, 2, 0, 1, 2, 3, 7, -1])))
        elif k < 0.32:
            out.append("K %d %d" % (i, r.choice([0, 1, 2, 3, 4, 5, 7, 8, 13, 16, 21, 32, 64, 4096])))
        elif k < 0.42:
            hi = ln if ln is not None else 7000
            out.append("O %d %d" % (i, r.choice([0, 0, 1, hi, max(0, hi - 20), max(0, hi - 21), max(0, hi - 19),
                                                 r.randint(0, hi)])))
        elif k < 0.75:
            out.append("A %d %s" % (i, hexs(g.program())))
        elif k < 0.88:
            out.append("C %d %d %s %d" % (i, r.choice([-1, 0, 1, 2, 3, 4, 5, 8, 16, 32, 1000000]),
                                          hexs(g.program()), 1 if r.random() < 0.85 else 0))
        elif k < 0.93:
            out.append("G %d" % i)
        elif k < 0.97:
            out.append("B %d" % i)
        else:
            out.append("M %d" % i if ln is not None else "D %d 0 64" % i)
            if r.random() < 0.5:
                out.append("F %d" % i)
                del live[i]
    for i, ln in sorted(live.items()):
        out.append("M %d" % i if ln is not None else "D %d 0 256" % i)
        out.append("G %d" % i)
        out.append("F %d" % i)
    return out


# ---- representative lines: one or more per encoding class (used for ordered pairs, C06/C13/C14/C15) -----------
REPR_LINES = [l.encode() for l in [
    "ret", "nop", "nop7", "clc", "cpuid", "lfence", "rdtscp",
    "mov rax, rbx", "mov r9b, al", "mov ax, r10w", "mov eax, [rbx]", "mov [r13+0x10], r9",
    "mov rax, 0x1122334455667788", "mov rax, 0x5", "mov r11, 0x0000000000000001", "mov ebx, 0x12345678",
    "mov byte [rax], 0x7f", "mov qword [rsp+0x20], 0x100",
    "add rax, rbx", "add r8, 0x7f", "add rax, 0x12345678", "sub ecx, 0x80", "xor r12d, r12d", "cmp byte [rsi+0x8], -0x1",
    "and rdx, [rdi+r9*4+0x100]", "or [rax+rsp], rcx", "test rax, 0x40", "test cl, dl",
    "imul rax, rbx", "imul r14, r15, 0x2", "imul rdx, [rsi+0x10], 0x5", "neg qword [rax]", "not r10", "inc dword [rbx+0x4]", "dec r15",
    "lea rax, [2*rax]", "lea r15, [rax+rsp]", "lea rdx, [rdx+r13]", "lea rax, [4*rax+0x0]", "lea rcx, [0x1000]",
    "push rax", "push r12", "push 0x7f", "push 0x1000", "pop r9", "push qword [rax+0x8]",
    "shl rax, 1", "shr rbp, 43", "sar ecx, cl", "ror r12, 0x3f", "rcr rax, 3", "shld r12, rax, 43", "shrd rbx, r12, 44",
    "movzx eax, bl", "xchg rax, rbx", "xchg r9, rax", "cmova rax, rbx", "cmovne r10, [rsp+0x8]", "seta al", "setne byte [rax]",
    "jmp 0x10", "jmp -200", "jne 0x5", "jne 0x1000", "je short 0x10", "jmp long 0x10", "call 0x100", "call r10", "jmp [rax+0x8]", "jrcxz 0x5",
    "xbegin 0x10", "xabort 0x5", "xend",
    "adcx r12, r9", "adox rax, [rsp+0x10]", "mulx r8, r9, r10", "mulx r10, rax, [rsi+0x0]", "rorx rax, rbx, 5", "sarx r11, [rax+2*rsi-0xffff], r11",
    "bextr eax, ebx, ecx", "bzhi rax, [rdi], rdx", "shlx r9, r10, r11",
    "movq xmm0, r10", "movq rax, xmm2", "movd xmm1, [rax]", "movq [rsp+0x08], xmm15", "paddb xmm1, xmm2", "pxor xmm8, [r9+0x10]",
    "paddd mm1, mm2", "pmulld xmm3, xmm11", "psrldq xmm1, 0x4", "movntdqa xmm1, [rax]", "punpcklqdq xmm1, xmm9", "cvtdq2pd xmm2, xmm3",
    "vaddpd ymm3, ymm2, ymm1", "vmovupd ymm1, [rax]", "vmovupd [rdx], ymm3", "vmovdqu xmm13, xmm14", "vmovdqu [rsp+0x108], xmm11",
    "vpaddb ymm1, ymm2, [rax+r9*4+0x100]", "vpxor xmm1, xmm2, xmm3", "vperm2i128 ymm0, ymm1, ymm2, 0x20", "vpermd ymm9, ymm10, ymm11",
    "vpmuldq xmm1, xmm2, [rbx]", "vsubpd ymm12, ymm13, ymm14",
    "prefetcht0 [rax]", "clflush [rbx+0x40]",
]]

LONG_LINES = [l.encode() for l in [
    "mov qword [rax+rbx*8+0x12345678], 0x12345678", "add dword [eax+ecx*4+0x11223344], 0x55667788",
    "imul r9, [r10d+r11d*8+0x12345678], 0x12345678", "mov word [r8d+r9d*8+0x12345678], 0x1234",
    "vperm2i128 ymm8, ymm9, [r10d+r11d*8+0x12345678], 0x20", "mov rax, 0x1122334455667788",
    "adcx r12, [r13d+r14d*4+0x11223344]", "nop11", "nop9",
]]


# ---- style rewritings (C16) ---------------------------------------------------------------------
import re as _re
_TOK = _re.compile(r"0x[0-9a-fA-F]+|[A-Za-z_][A-Za-z0-9_]*|[0-9]+|[\[\],+\-*]|\S")


def restyle(line, r, numbers=True):
    """a rewriting of `line` (str) that the documented syntax treats as the same line: letter case,
    blanks/tabs at every legal position, trailing comment, hex digit case, and (if `numbers`)
    decimal <-> hexadecimal spelling and leading zeros of constants"""
    toks = _TOK.findall(line)
    if not toks:
        return line
    out = []
    for i, t in enumerate(toks):
        # a scale factor (next to '*') is a one-character literal in the documented syntax: leave it
        scale = (i > 0 and toks[i - 1] == "*") or (i + 1 < len(toks) and toks[i + 1] == "*")
        if _re.fullmatch(r"0x[0-9a-fA-F]+", t):
            v = int(t, 16)
            if numbers and not scale and r.random() < 0.4:
                k = r.random()
                if k < 0.4 and v < (1 << 63):
                    t = "%d" % v
                elif k < 0.7:
                    t = "0x" + "0" * r.randint(1, 3) + "%x" % v
                else:
                    t = "0x%x" % v
            if t.startswith("0x") and r.random() < 0.4:
                t = "0x" + t[2:].upper()
        elif t.isdigit():
            v = int(t)
            if numbers and not scale and r.random() < 0.4:
                k = r.random()
                if k < 0.5:
                    t = "0x%x" % v
                else:
                    t = "0" * r.randint(1, 2) + "%d" % v
        elif t[0].isalpha():
            t = "".join(c.upper() if r.random() < 0.35 else c for c in t)
        out.append(t)

    def blank(minimum=0):
        k = r.random()
        if k < 0.5:
            return " " * minimum
        return "".join(r.choice(" \t") for _ in range(max(minimum, r.randint(1, 3))))
    s = blank() if r.random() < 0.5 else ""
    s += out[0]
    for i in range(1, len(out)):
        prev, cur = out[i - 1], out[i]
        need = 0
        # a blank is REQUIRED only between the mnemonic and what follows it
        if i == 1:
            need = 1
        # and never allowed inside "0x.." (single token) — tokens are atomic here
        s += blank(need) if (need or r.random() < 0.45) else ""
        s += cur
    if r.random() < 0.4:
        s += blank()
    if r.random() < 0.35:
        s += r.choice(["; comment", ";", " ; mov rax, rbx", ";;; x, y [z]", "; caf\xe9"])
    return s


SKIP_LINES = [b"", b"   ", b"\t", b"label:", b"  loop_1:  ", b"section .text", b"global foo", b"; just a comment",
              b"SECTION .data", b"Global Bar", b"x: ; y",
              # the same directives as nasm -E prints them and in other positions of the line
              b"[section .text]", b"[global main]", b"[SECTION .text] ; code", b"\t[ Global main ]", b".section .text", b"  section  .bss  ",
              b"% define x 1", b"foo.bar:", b"a: b:", b"section", b"global", b"my_global_sym:", b"_start:  ; entry",
              # label names longer than a mnemonic (14 characters and more, up to the line limit), a blank in front of the colon
              b"field_mul_done:", b"curve25519_mul_loop:", b".Lpoly1305_blocks_avx2_tail:", b"a" * 14 + b":", b"b" * 15 + b":  ; c",
              b"  " + b"c" * 31 + b":", b"d" * 64 + b":", b"e" * 97 + b":", b"name :", b"_ZN4core3fmt9Formatter9write_str17h0123456789abcdefE:"]
