/-
  AL.Properties.C10Table — the table-dependent part of C10, by kernel evaluation on the
  regenerated INSTR_TABLE / OPD_FORMAT_TABLE against the FROZEN list AL.Spec.supported.
-/
import AL.Impl.Line
import AL.Spec.Supported
namespace AL.Properties.C10Table
open AL AL.Impl AL.Gen


/-- all operand-kind strings with up to four operands over r, m, i, v, y (781 strings) -/
def kindStrings : List Str :=
  let ks : List Ch := [ch! 'r', ch! 'm', ch! 'i', ch! 'v', ch! 'y']
  let ext (l : List Str) : List Str := l.flatMap fun s => ks.map fun k => s ++ [k]
  let l1 := ext [[]]
  let l2 := ext l1
  let l3 := ext l2
  let l4 := ext l3
  [[]] ++ l1 ++ l2 ++ l3 ++ l4

def formsOf (name : Str) : List Str :=
  match AL.Spec.supported.find? (fun p => p.1 == name) with
  | some p => p.2
  | none => []

/-- the key lookup for a mnemonic and an operand-kind string, as `line_to_instr` performs it -/
def lookup (name kinds : Str) : Int :=
  let fmt := getOpdFormat opdIndex kinds
  if fmt == c_opd_error then c_INSTR_ERROR else strToInstrKey instrIndex name fmt

/-- the operand-kind strings that are formats at all -/
def formatStrings : List Str := (opdFormatTable.filter (fun p => p.1 != c_opd_error)).map (·.2)

/-- kernel evaluation, 781 strings: a kind string that is not a format string has no format -/
theorem nonformat_strings :
    (kindStrings.all fun k => formatStrings.contains k || getOpdFormat opdIndex k == c_opd_error) = true := by
  decide +kernel

def formCheck (name kinds : Str) : Bool :=
  if (formsOf name).contains kinds then lookup name kinds != c_INSTR_ERROR
  else if AL.Spec.acceptedButUndefined.contains (name, kinds) then true
  else lookup name kinds == c_INSTR_ERROR

set_option maxRecDepth 100000 in
set_option maxHeartbeats 4000000 in
/-- kernel evaluation over all 201 mnemonics × 33 format strings on the regenerated table -/
theorem formCheck_all :
    (AL.Spec.supported.all fun p => formatStrings.all fun k => formCheck p.1 k) = true := by
  decide +kernel

/-- the frozen list only mentions kind strings that are formats -/
theorem supported_are_formats :
    (AL.Spec.supported.all fun p => p.2.all fun k => formatStrings.contains k) = true := by
  decide +kernel

theorem undefined_are_formats :
    (AL.Spec.acceptedButUndefined.all fun p => formatStrings.contains p.2) = true := by
  decide +kernel

/-- **(c)** for every supported mnemonic and every operand-kind string (up to four operands over
    r, m, i, v, y) that x86-64 does not define for it — outside the recorded finding
    `acceptedButUndefined` — the lookup fails -/
theorem reject_bad_format (name : Str) (forms : List Str) (kinds : Str)
    (hn : (name, forms) ∈ AL.Spec.supported) (hk : kinds ∈ kindStrings)
    (hnot : (formsOf name).contains kinds = false)
    (hfind : AL.Spec.acceptedButUndefined.contains (name, kinds) = false) :
    lookup name kinds = c_INSTR_ERROR := by
  by_cases hfmt : formatStrings.contains kinds = true
  · have h := formCheck_all
    rw [List.all_eq_true] at h
    have h1 := h (name, forms) hn
    rw [List.all_eq_true] at h1
    have h2 := h1 kinds (by simpa using hfmt)
    unfold formCheck at h2
    simp only [hnot, hfind, Bool.false_eq_true, if_false] at h2
    simpa using h2
  · have h := nonformat_strings
    rw [List.all_eq_true] at h
    have h1 := h kinds hk
    have hf : formatStrings.contains kinds = false := by simpa using hfmt
    simp only [hf, Bool.false_or, beq_iff_eq] at h1
    unfold lookup
    simp [h1]

/-- and every frozen supported form still has a row (a deleted or renamed row is caught here) -/
theorem supported_forms_found (name : Str) (forms : List Str) (kinds : Str)
    (hn : (name, forms) ∈ AL.Spec.supported) (hin : (formsOf name).contains kinds = true)
    (hfmt : formatStrings.contains kinds = true) : lookup name kinds ≠ c_INSTR_ERROR := by
  have h := formCheck_all
  rw [List.all_eq_true] at h
  have h1 := h (name, forms) hn
  rw [List.all_eq_true] at h1
  have h2 := h1 kinds (by simpa using hfmt)
  unfold formCheck at h2
  simp only [hin, if_true] at h2
  simpa using h2


end AL.Properties.C10Table
