/-
  AL.Lemmas.BranchText — the first half of the per-line pipeline on the text `<branch mnemonic> [short|long] <number>` for a
  SYMBOLIC number token (`filter_branch`, `lex_branch`, `not_skipped_br`) and its composition with AL.Lemmas.Branch into
  `branch_line`: the whole of `assembleLine` on that text, for each of the 20 relative-branch mnemonics of the regenerated table,
  each keyword case, every displacement −2^31 ≤ d < 2^31 and every option byte.
-/
import AL.Lemmas.Branch
import AL.Lemmas.MovText
namespace AL.Lemmas.BranchText
open AL AL.Impl AL.Gen AL.Lemmas AL.Lemmas.MovText AL.Lemmas.Branch AL.Lemmas.MovImm

/-- `imm_tok` sees its argument only through `strtok_r(imme, " ")` and (for the SMART spelling rule) its length -/
theorem immTok_congr (a b : Str) (h : strtok a [32] = strtok b [32]) :
    ∃ n', ∀ s : Instr, immTok s a = (match immTok s b with | .ok r => .ok { r with narrowOk := n' } | .error e => .error e) := by
  cases hs : strtok b [32] with
  | none =>
    refine ⟨true, fun s => ?_⟩
    unfold immTok
    rw [h, hs]
  | some p =>
    refine ⟨!((chAt p.1 1 == 120 || (chAt p.1 1 != 0 && chAt p.1 2 == 120)) && decide (a.length ≥ c_STR_HEX_64)), fun s => ?_⟩
    unfold immTok
    rw [h, hs]
    simp only
    split <;> (split <;> rfl)

/-- `imm_tok` skips blanks in front of the number (they come from a cleared `short` / `long` keyword): same value -/
theorem immTok_blanks (k : Nat) (c : Nat) (t : Str) (hc : c ≠ 32) (v : Nat) (b : Bool)
    (himm : ∀ s : Instr, immTok s (c :: t) = .ok { s with imm := true, narrowOk := b, cons := v }) :
    ∃ b', ∀ s : Instr, immTok s (List.replicate k 32 ++ c :: t) = .ok { s with imm := true, narrowOk := b', cons := v } := by
  have hdrop : (List.replicate k 32 ++ c :: t).dropWhile (isDelim [32]) = c :: t := by
    induction k with
    | zero => simp [isDelim, hc]
    | succ k ih => simp [List.replicate_succ, isDelim, ih]
  have hdrop0 : (c :: t).dropWhile (isDelim [32]) = c :: t := by simp [isDelim, hc]
  have hst : strtok (List.replicate k 32 ++ c :: t) [32] = strtok (c :: t) [32] := by
    unfold strtok; rw [hdrop, hdrop0]
  obtain ⟨n', hn⟩ := immTok_congr _ _ hst
  refine ⟨n', fun s => ?_⟩
  rw [hn s, himm s]

theorem fmt_i : getOpdFormat opdIndex [105] = 1 := by decide +kernel

/-- blanks in front do not change the operand kind -/
theorem opType_blanks (k : Nat) (c : Nat) (t : Str) (hc : numHead c = true) : getOperandType (List.replicate k 32 ++ c :: t) = 105 := by
  have h32 : c ≠ 32 := by
    unfold numHead at hc
    simp only [Bool.or_eq_true, Bool.and_eq_true, decide_eq_true_eq, beq_iff_eq] at hc
    omega
  have hd : (List.replicate k 32 ++ c :: t).dropWhile (· == 32) = c :: t := by
    induction k with
    | zero => simp [h32]
    | succ k ih => simp [List.replicate_succ, ih]
  have h0 := opType_i c t hc
  unfold getOperandType at h0 ⊢
  rw [hd]
  have hd0 : (c :: t).dropWhile (· == 32) = c :: t := by simp [h32]
  rw [hd0] at h0
  exact h0

/-- the three keyword cases of a branch operand: text in front of the number, keyword bits, blanks left behind -/
inductive KwCase : Str → Bool → Bool → Prop
  | none : KwCase [] false false
  | short : KwCase (str! "short") true false
  | long : KwCase (str! "long") false true

theorem kw_case (kwt : Str) (sh lg : Bool) (hk : KwCase kwt sh lg) (c : Nat) (t : Str) (hc : numHead c = true) (fuel : Nat) :
    checkForKeyword fuel (Keywords.mk false false false false false false false) (kwt ++ c :: t) =
      (Keywords.mk sh lg false false false false false, List.replicate kwt.length 32 ++ c :: t) := by
  cases hk with
  | none => exact kw_none fuel _ c t hc
  | short =>
    unfold checkForKeyword
    simp [isPrefix, clearAfterBlanks, List.replicate]
  | long =>
    unfold checkForKeyword
    simp [isPrefix, clearAfterBlanks, List.replicate]

/-- what the lexer needs to know about a branch mnemonic (decidable; checked for every relative-branch row below) -/
def brNameOk (key : Int) : Bool :=
  let name := (rowAt key).name
  !name.isEmpty && name.all (fun x => x != 44 && x != 32 && x != 9) && decide (name.length ≤ 14) &&
  strToInstrKey instrIndex name 1 == key && key != -2

theorem relNames_ok : relKeys.all brNameOk = true := by decide +kernel

set_option maxHeartbeats 2000000 in
/-- **the lexing half on `<branch mnemonic> [short|long]<number>`** (as the line filter leaves it) -/
theorem lex_branch (key : Int) (hkey : brNameOk key = true) (kwt : Str) (sh lg : Bool) (hk : KwCase kwt sh lg)
    (c : Nat) (t : Str) (v : Nat) (b : Bool) (hc : numHead c = true) (hall : ∀ x ∈ c :: t, numCh x = true)
    (himm : ∀ s : Instr, immTok s (c :: t) = .ok { s with imm := true, narrowOk := b, cons := v }) :
    ∃ b', lexLine ((rowAt key).name ++ 32 :: (kwt ++ c :: t)) = .ok (brRec key (rowAt key).name sh lg v b') := by
  generalize hname : (rowAt key).name = name at *
  unfold brNameOk at hkey
  simp only [hname, Bool.and_eq_true, Bool.not_eq_true', bne_iff_ne, ne_eq, beq_iff_eq, List.all_eq_true, decide_eq_true_eq] at hkey
  obtain ⟨⟨⟨⟨hne, hch⟩, hlen⟩, hkeyv⟩, hk2⟩ := hkey
  have hne' : name ≠ [] := by intro h; rw [h] at hne; simp at hne
  have hkwc : ∀ x ∈ kwt, x ≠ 44 := by
    cases hk <;> simp
  have hcomma : ∀ x ∈ kwt ++ c :: t, x ≠ 44 := by
    intro x hx
    rw [List.mem_append] at hx
    rcases hx with hx | hx
    · exact hkwc x hx
    · exact (numCh_facts x (hall x hx)).1
  have hrne : kwt ++ c :: t ≠ [] := by simp
  have hs1 : strtok (name ++ 32 :: (kwt ++ c :: t)) [32, 9] = some (name, kwt ++ c :: t) :=
    strtok_split name _ 32 [32, 9] hne' (fun x hx => by have := hch x hx; simp [isDelim, this.1.2, this.2]) (by decide)
  have hrest : strtokRest (kwt ++ c :: t) = some (kwt ++ c :: t) := by
    cases hkt : kwt ++ c :: t with
    | nil => exact absurd hkt hrne
    | cons a r => rfl
  have h0 : (chAt (kwt ++ c :: t) 0 == 44) = false := by
    rw [beq_eq_false_iff_ne]; exact chAt_ne _ _ 44 (by decide) hcomma
  have hl : (chAt (kwt ++ c :: t) ((kwt ++ c :: t).length - 1) == 44) = false := by
    rw [beq_eq_false_iff_ne]; exact chAt_ne _ _ 44 (by decide) hcomma
  have h32 : c ≠ 32 := (numCh_facts c (hall c List.mem_cons_self)).2.1
  unfold lexLine instrTok
  rw [hs1]
  simp only [hrest]
  unfold operandTok
  simp only [h0, hl, Bool.or_self, Bool.false_eq_true, if_false]
  rw [strtok_comma_whole _ hrne hcomma]
  have hkw := kw_case kwt sh lg hk c t hc (kwt ++ c :: t).length
  have hkw' : checkForKeyword (kwt ++ c :: t).length ({ initInstr with instruction := strncpy name c_MAX_INSTR_LEN } : Instr).kw (kwt ++ c :: t) =
      (Keywords.mk sh lg false false false false false, List.replicate kwt.length 32 ++ c :: t) := hkw
  simp only [hkw', opType_blanks kwt.length c t hc, beq_self_eq_true, if_true]
  obtain ⟨b', hb'⟩ := immTok_blanks kwt.length c t h32 v b himm
  refine ⟨b', ?_⟩
  simp only [hb', List.isEmpty_nil, if_true, strtokRest]
  simp only [lexAfterTok, opdTypeString, Instr.setOpd, Instr.opd, initInstr]
  have htw : List.takeWhile (fun x => x != 0) [105, 0, 0, 0] = [105] := by decide
  have hnm : strncpy name c_MAX_INSTR_LEN = name := by
    unfold strncpy; exact List.take_of_length_le hlen
  simp [htw, fmt_i, allOpdStrToReg, memNoReg, Instr.opd, strncpy, hnm, hkeyv, reg_none,
    c_opd_error, c_INSTR_ERROR, c_MOD24, brRec, hex0]
  have htake : List.take c_MAX_INSTR_LEN name = name := List.take_of_length_le hlen
  rw [htake, hkeyv]
  simp [hk2]


/-- the relative-branch mnemonics of the regenerated table -/
def brNames : List (Int × Str) :=
  [(19, str! "call"), (67, str! "ja"), (69, str! "jae"), (71, str! "jb"), (73, str! "je"), (75, str! "jg"), (77, str! "jge"), (79, str! "jbe"),
   (81, str! "jl"), (83, str! "jle"), (85, str! "jmp"), (88, str! "jne"), (90, str! "jno"), (92, str! "jnp"), (94, str! "jns"), (96, str! "jo"),
   (98, str! "jp"), (100, str! "jrcxz"), (102, str! "js"), (310, str! "xbegin")]

theorem brNames_table : brNames.map (·.1) = relKeys ∧ brNames.all (fun p => (rowAt p.1).name == p.2) = true := by decide +kernel

/-- the blank between keyword and number in the text as written -/
def kwGap (kwt : Str) : Str := if kwt.isEmpty then [] else [32]

set_option maxHeartbeats 4000000 in
theorem not_skipped_br (key : Int) (name : Str) (hp : (key, name) ∈ brNames) (kwt : Str) (sh lg : Bool) (hk : KwCase kwt sh lg)
    (l : Str) (h : ∀ x ∈ l, x ≠ 115 ∧ x ≠ 103 ∧ x ≠ 58 ∧ x ≠ 108) : isSkipped (name ++ 32 :: (kwt ++ l)) = false := by
  have h1 := contains_no_head 115 (str! "ection") l (fun x hx => (h x hx).1)
  have h2 := contains_no_head 103 (str! "lobal") l (fun x hx => (h x hx).2.1)
  have h3 : ¬ 58 ∈ l := fun hc => (h 58 hc).2.2.1 rfl
  have h4 : ∀ (x : Nat) (r : Str), l = x :: r → x ≠ 108 := by
    intro x r hl; have := h x (by rw [hl]; exact List.mem_cons_self); exact this.2.2.2
  simp only [brNames, List.mem_cons, Prod.mk.injEq, List.not_mem_nil, or_false] at hp
  cases hk <;>
  rcases hp with ⟨rfl, rfl⟩ | ⟨rfl, rfl⟩ | ⟨rfl, rfl⟩ | ⟨rfl, rfl⟩ | ⟨rfl, rfl⟩ | ⟨rfl, rfl⟩ | ⟨rfl, rfl⟩ | ⟨rfl, rfl⟩ | ⟨rfl, rfl⟩ | ⟨rfl, rfl⟩ | ⟨rfl, rfl⟩ | ⟨rfl, rfl⟩ | ⟨rfl, rfl⟩ | ⟨rfl, rfl⟩ | ⟨rfl, rfl⟩ | ⟨rfl, rfl⟩ | ⟨rfl, rfl⟩ | ⟨rfl, rfl⟩ | ⟨rfl, rfl⟩ | ⟨rfl, rfl⟩
  all_goals (unfold isSkipped; simp only [List.cons_append, List.nil_append]; repeat rw [contains_cons])
  all_goals (rw [h1, h2]; cases l with
    | nil => simp [isPrefix]
    | cons x r => have := h4 x r rfl; simp [isPrefix, h3, this] at *)


/-- branch mnemonics are lower-case letters -/
def brNamePlain (name : Str) : Bool := name.all (fun x => plainCh x && decide (97 ≤ x) && decide (x ≤ 122)) && decide (name.length ≤ 6) && !name.isEmpty
theorem brNames_plain : brNames.all (fun p => brNamePlain p.2) = true := by decide +kernel

theorem kw_plain (kwt : Str) (sh lg : Bool) (hk : KwCase kwt sh lg) : (∀ x ∈ kwt, plainCh x = true) ∧ kwt.length ≤ 5 := by
  cases hk <;> decide

set_option maxHeartbeats 2000000 in
/-- **the line filter on `<mnemonic> [short|long] <number>`** -/
theorem filter_branch (name : Str) (hname : brNamePlain name = true) (kwt : Str) (sh lg : Bool) (hk : KwCase kwt sh lg)
    (tok : Str) (htok : ∀ c ∈ tok, numCh c = true) (hlen : tok.length ≤ 60) :
    ∃ n, filterLine (name ++ 32 :: (kwt ++ kwGap kwt ++ tok)) = some (name ++ 32 :: (kwt ++ tok), n) := by
  unfold brNamePlain at hname
  simp only [Bool.and_eq_true, List.all_eq_true, decide_eq_true_eq, Bool.not_eq_true'] at hname
  obtain ⟨⟨hn, hnl⟩, hne⟩ := hname
  obtain ⟨hkp, hkl⟩ := kw_plain kwt sh lg hk
  have htp : ∀ c ∈ tok, plainCh c = true := fun c hc => numCh_plain c (htok c hc)
  cases name with
  | nil => simp at hne
  | cons n0 nr =>
    have h0 := hn n0 List.mem_cons_self
    have hnr : ∀ c ∈ nr, plainCh c = true := fun c hc => (hn c (List.mem_cons_of_mem _ hc)).1.1
    have hp0 := h0.1.1
    unfold plainCh at hp0
    simp only [Bool.and_eq_true, decide_eq_true_eq, Bool.not_eq_true', beq_iff_eq] at hp0
    obtain ⟨⟨⟨_, h127⟩, hstop⟩, hlow⟩ := hp0
    have h126 : ¬ n0 > 126 := Nat.not_lt.mpr (Nat.le_of_lt_succ h127)
    unfold filterLine
    -- first letter
    have e0 : filterGo .begin [] 0 0 (n0 :: nr ++ 32 :: (kwt ++ kwGap kwt ++ tok)) =
        filterGo .firstCh [n0] 1 1 (nr ++ 32 :: (kwt ++ kwGap kwt ++ tok)) := by
      conv => lhs; simp only [List.cons_append]; unfold filterGo
      have hb : (65 ≤ n0 ∧ n0 ≤ 122) := ⟨Nat.le_trans (by decide) h0.1.2, h0.2⟩
      simp [hstop, filterStep, hb.1, hb.2, hlow, maxFiltered, h126]
    rw [e0, filterGo_plain .firstCh (Or.inl rfl) nr _ 1 1 _ hnr (by unfold maxFiltered; simp only [List.length_cons] at hnl; omega)]
    -- the blank behind the mnemonic
    have e1 : ∀ acc j i rest, j < 90 → filterGo .firstCh acc j i (32 :: rest) = filterGo .spaceFound (32 :: acc) (j + 1) (i + 1) rest := by
      intro acc j i rest hj
      have hj' : ¬ j ≥ maxFiltered := by unfold maxFiltered; omega
      conv => lhs; unfold filterGo
      simp [filterStep, stopCh, hj']
    simp only [List.length_cons] at hnl
    rw [e1 _ _ _ _ (by omega)]
    rw [List.append_assoc, filterGo_plain .spaceFound (Or.inr rfl) kwt _ _ _ _ hkp (by unfold maxFiltered; omega)]
    -- the blank between keyword and number (if any)
    have e2 : ∀ acc j i, filterGo .spaceFound acc j i (kwGap kwt ++ tok) = filterGo .spaceFound acc j (i + (kwGap kwt).length) tok := by
      intro acc j i
      unfold kwGap
      split
      · rfl
      · conv => lhs; simp only [List.cons_append, List.nil_append]; unfold filterGo
        simp [filterStep, stopCh]
    rw [e2]
    have e3 := filterGo_plain .spaceFound (Or.inr rfl) tok (kwt.reverse ++ 32 :: (nr.reverse ++ [n0])) (1 + nr.length + 1 + kwt.length)
      (1 + nr.length + 1 + kwt.length + (kwGap kwt).length) [] htp (by unfold maxFiltered; omega)
    rw [List.append_nil] at e3
    rw [e3]
    refine ⟨1 + nr.length + 1 + kwt.length + (kwGap kwt).length + tok.length, ?_⟩
    unfold filterGo
    simp


theorem numCh_not_l (x : Nat) (h : numCh x = true) : x ≠ 108 := by
  unfold numCh at h
  simp only [Bool.or_eq_true, Bool.and_eq_true, decide_eq_true_eq, beq_iff_eq] at h
  omega

/-- the expected outcome for a key of the table, by its class -/
def brExpect (key : Int) (sh lg : Bool) (v : Nat) : Option Bytes :=
  if jKeyOk key then jExpect (ops32 key) (op8 key) sh lg v
  else if cKeyOk key then cExpect (ops32 key) sh v
  else rExpect (op8 key) v

theorem br_record (key : Int) (hk : key ∈ relKeys) (name : Str) (v : Nat) (hd : disp32 v) (sh lg : Bool) (hx : ¬ (sh = true ∧ lg = true))
    (b : Bool) (opt : Nat) : lineBytes opt (brRec key name sh lg v b) = brExpect key sh lg v := by
  unfold brExpect
  have hc := relKeys_classified
  rw [List.all_eq_true] at hc
  have := hc key hk
  simp only [Bool.or_eq_true] at this
  by_cases hj : jKeyOk key = true
  · simp only [hj, if_true]; exact j_key key hj name _ b opt sh lg hx hd
  · by_cases hcc : cKeyOk key = true
    · simp only [hj, hcc, if_true, Bool.false_eq_true, if_false]; exact c_key key hcc name _ b opt sh lg hx hd
    · have hr : rKeyOk key = true := by
        rcases this with (h | h) | h
        · exact absurd h hj
        · exact absurd h hcc
        · exact h
      simp only [hj, hcc, Bool.false_eq_true, if_false]; exact r_key key hr name _ b opt sh lg hx hd

/-- **a relative branch as a line of text**: `<mnemonic> [short|long] <number>` through the whole per-line pipeline -/
theorem branch_line (key : Int) (name : Str) (hp : (key, name) ∈ brNames) (kwt : Str) (sh lg : Bool) (hk : KwCase kwt sh lg)
    (c : Nat) (t : Str) (v : Nat) (b : Bool) (hc : numHead c = true) (hall : ∀ x ∈ c :: t, numCh x = true) (hlen : (c :: t).length ≤ 60)
    (himm : ∀ s : Instr, immTok s (c :: t) = .ok { s with imm := true, narrowOk := b, cons := v }) (hd : disp32 v) (opt : Nat) :
    match brExpect key sh lg v with
    | some bs => (assembleLine opt (name ++ 32 :: (kwt ++ kwGap kwt ++ c :: t))).1 = .ok (.code bs)
    | none => ∃ e, (assembleLine opt (name ++ 32 :: (kwt ++ kwGap kwt ++ c :: t))).1 = .error e := by
  obtain ⟨hkeys, hnames⟩ := brNames_table
  have hkey : key ∈ relKeys := by rw [← hkeys]; exact List.mem_map.mpr ⟨(key, name), hp, rfl⟩
  have hnm : (rowAt key).name = name := by
    rw [List.all_eq_true] at hnames
    have := hnames (key, name) hp
    simpa using this
  have hok : brNameOk key = true := by
    have := relNames_ok
    rw [List.all_eq_true] at this
    exact this key hkey
  have hpl : brNamePlain name = true := by
    have := brNames_plain
    rw [List.all_eq_true] at this
    exact this (key, name) hp
  have hx : ¬ (sh = true ∧ lg = true) := by cases hk <;> simp
  obtain ⟨n, hfilt⟩ := filter_branch name hpl kwt sh lg hk (c :: t) hall hlen
  have hskip := not_skipped_br key name hp kwt sh lg hk (c :: t) (fun x hx => by
    have f := numCh_facts x (hall x hx)
    exact ⟨f.2.2.2.2.2.2.2.2.1, f.2.2.2.2.2.2.2.2.2.1, f.2.2.2.1, numCh_not_l x (hall x hx)⟩)
  obtain ⟨b', hlex⟩ := lex_branch key hok kwt sh lg hk c t v b hc hall himm
  rw [hnm] at hlex
  have hrec := br_record key hkey name v hd sh lg hx b' opt
  unfold assembleLine
  rw [hfilt]
  simp only [hskip, Bool.false_eq_true, if_false, hlex]
  unfold lineBytes at hrec
  cases hres : resolveLine opt (brRec key name sh lg v b') with
  | error e =>
    rw [hres] at hrec
    simp only at hrec
    rw [← hrec]
    exact ⟨e, rfl⟩
  | ok s' =>
    rw [hres] at hrec
    simp only at hrec
    rw [← hrec]

end AL.Lemmas.BranchText
