/-
  AL.Impl.Cli — tools/asmline.c: flag parsing, the option calls the flags denote, the stdin line
  loop versus the single file call, the count, the exit status.  What is printed for `-p` and
  what `-r` returns are observed by the check (the printers live in src/parser.c, running code is
  the CPU's business).  `getopt_long` itself is assumed: the model starts from the flag list.
-/
import AL.Impl.Faults
namespace AL.Impl
open AL AL.Gen

inductive Flag
  | nasmMovImm | strictMovImm | smartMovImm
  | nasmSib | strictSib
  | nasmSwap | strictSwap
  | nasmNoBase | strictNoBase
  | n | t | s            -- asm_set_all NASM / STRICT / SMART, applied while parsing
  | p
  | c (v : Int)          -- chunk fitting size
  | b (v : Int)          -- chunk counting boundary
  | printfile | object (hasDot : Bool)
  | ret
deriving Repr, DecidableEq

/-- what parse_opt leaves behind -/
structure Parsed where
  a        : Inst
  movImm   : Nat := 0     -- 0 none, 1 NASM, 2 STRICT, 3 SMART (last long flag of the group wins)
  sibAll   : Nat := 0
  sibSwap  : Nat := 0
  sibNoBase : Nat := 0
  boundary : Int := 0
  bin      : Bool := false
  run      : Bool := false
  debug    : Bool := false
  usage    : Bool := false    -- err_print_usage: exit(EXIT_FAILURE)

def parseFlag (st : Parsed) : Flag → Parsed
  | .nasmMovImm => { st with movImm := 1 }
  | .strictMovImm => { st with movImm := 2 }
  | .smartMovImm => { st with movImm := 3 }
  | .nasmSib => { st with sibAll := 1 }
  | .strictSib => { st with sibAll := 2 }
  | .nasmSwap => { st with sibSwap := 1 }
  | .strictSwap => { st with sibSwap := 2 }
  | .nasmNoBase => { st with sibNoBase := 1 }
  | .strictNoBase => { st with sibNoBase := 2 }
  | .n => { st with a := applySetter st.a .all 1 }
  | .t => { st with a := applySetter st.a .all 0 }
  | .s => { st with a := applySetter st.a .all 2 }
  | .p => { st with debug := true }
  | .c v => if v ≤ 1 then { st with usage := true } else { st with a := setChunkSize st.a v.toNat }
  | .b v => if v ≤ 1 then { st with usage := true } else { st with boundary := v }
  | .printfile => { st with bin := true }
  | .object dot => if dot then { st with usage := true } else { st with bin := true }
  | .ret => { st with run := true }

/-- parse_opt stops at the first usage error (exit) -/
def parseFlags : Parsed → List Flag → Parsed
  | st, [] => st
  | st, f :: fs => if st.usage then st else parseFlags (parseFlag st f) fs

/-- enum asm_opt value of a recorded choice: NASM = 1, STRICT = 0, SMART = 2 -/
def optVal (k : Nat) : Nat := if k == 1 then 1 else if k == 2 then 0 else 2

/-- set_mov_imm, set_sib_all (no-base then swap), set_sib_swap, set_sib_no_base — in this order -/
def applyLong (st : Parsed) : Inst :=
  let a := st.a
  let a := if st.movImm != 0 then applySetter a .mov (optVal st.movImm) else a
  let a := if st.sibAll != 0 then applySetter (applySetter a .nobase (optVal st.sibAll)) .swap (optVal st.sibAll) else a
  let a := if st.sibSwap != 0 then applySetter a .swap (optVal st.sibSwap) else a
  if st.sibNoBase != 0 then applySetter a .nobase (optVal st.sibNoBase) else a

/-- `getline` pieces: each line with its terminating newline -/
def getlines : Str → List Str
  | [] => []
  | c :: cs =>
    match getlines cs with
    | [] => [[c]]
    | l :: ls => if c == 10 then [c] :: l :: ls else (c :: l) :: ls

structure CliRes where
  exit  : Nat
  a     : Inst
  count : Option Int
deriving Repr

/-- the stdin loop: one library call per line; stops (exit 1) at the first failing line -/
def stdinLoop (counting : Bool) (boundary : Int) : Inst → Int → List Str → Inst × Bool × Int
  | a, total, [] => (a, true, total)
  | a, total, l :: ls =>
    if counting then
      match asmCountingChunks a l boundary true with
      | (a', .ok (), some n) => stdinLoop counting boundary a' (total + n) ls
      | (a', .ok (), none) => stdinLoop counting boundary a' total ls
      | (a', .error _, _) => (a', false, total)
    else
      match asmAssembleStr a l with
      | (a', .ok ()) => stdinLoop counting boundary a' total ls
      | (a', .error _) => (a', false, total)

/-- the assembly phase of main: instance afterwards, success, the count to print -/
def assemblePhase (st : Parsed) (stdin : Bool) (prog : Option Str) : Inst × Bool × Option Int :=
  let a := applyLong st
  let counting := st.boundary > 0
  if stdin then
    let r := stdinLoop counting st.boundary a 0 (getlines (prog.getD []))
    (r.1, r.2.1, if counting then some r.2.2 else none)
  else if counting then
    match asmCountingChunksFile a prog st.boundary true with
    | (a, .ok (), n) => (a, true, n)
    | (a, .error _, _) => (a, false, none)
  else
    match asmAssembleFile a prog with
    | (a, .ok ()) => (a, true, none)
    | (a, .error _) => (a, false, none)

/-- asmline: flags, where the program comes from (`prog = none`: unreadable file), the result -/
def cliRun (flags : List Flag) (stdin : Bool) (prog : Option Str) (binOk : Bool) : CliRes :=
  let st := parseFlags { a := createInternal } flags
  if st.usage then { exit := 1, a := st.a, count := none } else
  let r := assemblePhase st stdin prog
  if !r.2.1 then { exit := 1, a := r.1, count := none }
  else { exit := if st.bin && !binOk then 1 else 0, a := r.1, count := r.2.2 }

end AL.Impl
