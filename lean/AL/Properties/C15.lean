/-
  C15 — an instance's earlier history does not influence later results.

  `AgreeI a b`: the two instances have the same kind and size of buffer, the same options, mode
  and chunk size — but arbitrary buffer contents and arbitrary pasts.  Then, once the offset has
  been set to the same value, an assemble (or counting) call returns the same value, leaves the
  same offset and, when it succeeds, the same bytes from that offset on (`same_result`,
  `same_bytes`, `same_count`).  `after_history` instantiates this for two arbitrary histories
  of calls on caller buffers of the same length (C07's invariant supplies the buffer facts):
  nothing an instance did before — successful or failed assemblies, counting calls, option and
  chunk changes that were later overwritten — is visible.  A failed call leaves the offset
  unchanged and everything before it intact, and mode and chunk setting survive a counting call
  (`failed_call_harmless`, `counting_restores`).  Other instances: every function here takes and
  returns ONE instance (no shared mutable state in the model); the only global state of the C code,
  the two first-letter index tables, is rebuilt to the same value on every create
  (`index_tables_deterministic`, kernel-evaluated on the regenerated tables).
-/
import AL.Lemmas.Agree
import AL.Properties.C07
namespace AL.Properties.C15
open AL AL.Impl AL.Gen AL.Lemmas

theorem agree_setOffset (a b : Inst) (k : Int) (h : AgreeI a b) : AgreeI (setOffset a k) (setOffset b k) :=
  ⟨h.external, h.bufLen, h.chunk, h.mode, h.opt, h.memLen, h.oobLen⟩

/-- **same return value, same offset**, whatever the two instances did before -/
theorem same_result (lfo : LineFnOf) (a b : Inst) (text : Str) (h : AgreeI a b) (ho : a.offset = b.offset) :
    (asmAssembleStrWith lfo a text).2 = (asmAssembleStrWith lfo b text).2 ∧
    (asmAssembleStrWith lfo a text).1.offset = (asmAssembleStrWith lfo b text).1.offset ∧
    AgreeI (asmAssembleStrWith lfo a text).1 (asmAssembleStrWith lfo b text).1 := by
  rw [plain_eq, plain_eq, ← h.opt, ← ho]
  have hr := runCodes_agree (codesOf lfo a.opt text)
    { a := a, bufPos := toU32 a.offset, brks := none } { a := b, bufPos := toU32 a.offset, brks := none }
    ⟨h, rfl, rfl⟩
  obtain ⟨⟨hi, hp, _⟩, he⟩ := hr
  have hca := runCodes_cfg (codesOf lfo a.opt text) { a := a, bufPos := toU32 a.offset, brks := none }
  have hcb := runCodes_cfg (codesOf lfo a.opt text) { a := b, bufPos := toU32 a.offset, brks := none }
  generalize runCodes { a := a, bufPos := toU32 a.offset, brks := none } (codesOf lfo a.opt text) = x at *
  generalize runCodes { a := b, bufPos := toU32 a.offset, brks := none } (codesOf lfo a.opt text) = y at *
  have hout : outcome x (items (lfo a.opt) (text.length + 1) text).err =
      outcome y (items (lfo a.opt) (text.length + 1) text).err := by
    unfold outcome; rw [he]
  simp only
  rw [hout]
  cases hoc : outcome y (items (lfo a.opt) (text.length + 1) text).err with
  | some er =>
    simp only
    refine ⟨by trivial, ?_, hi⟩
    have e1 : x.1.a.offset = a.offset := hca.2.2.2.1
    have e2 : y.1.a.offset = b.offset := hcb.2.2.2.1
    rw [e1, e2, ho]
  | none =>
    simp only
    exact ⟨by trivial, by rw [hp], ⟨hi.external, hi.bufLen, hi.chunk, hi.mode, hi.opt, hi.memLen, hi.oobLen⟩⟩

/-- **same bytes**: when the call succeeds, both instances hold the same code from the starting
    offset to the new offset (namely the layout of the text's codes, which mentions no buffer
    contents and no history) -/
theorem same_bytes (lfo : LineFnOf) (a b : Inst) (text : Str) (h : AgreeI a b) (ho : a.offset = b.offset)
    (hia : BufInv a) (hib : BufInv b) (h0 : 0 ≤ a.offset) (h1 : a.offset ≤ a.mem.length)
    (hc : a.mode = .fitting → 2 ≤ a.chunkSize)
    (hsmall : a.mem.length + growth a * (text.length + 1) + 60 < 2 ^ 31)
    (hok : (asmAssembleStrWith lfo a text).2 = .ok ()) :
    let n := ((asmAssembleStrWith lfo a text).1.offset - a.offset).toNat
    ((asmAssembleStrWith lfo a text).1.mem.drop a.offset.toNat).take n =
      ((asmAssembleStrWith lfo b text).1.mem.drop a.offset.toNat).take n := by
  intro n
  have hokb : (asmAssembleStrWith lfo b text).2 = .ok () := by rw [← (same_result lfo a b text h ho).1]; exact hok
  have hgr : growth b = growth a := by unfold growth; rw [h.external]
  have la := asm_layout lfo a text hia h0 h1 hc hsmall hok
  have lb := asm_layout lfo b text hib (by rw [← ho]; exact h0) (by rw [← ho, ← h.memLen]; exact h1)
    (by rw [← h.mode, ← h.chunk]; exact hc) (by rw [← h.memLen, hgr]; exact hsmall) hokb
  rw [← h.mode, ← h.chunk, ← ho, ← h.opt] at lb
  have hn : n = (layoutAll a.mode a.chunkSize a.offset.toNat (codesOf lfo a.opt text)).length := by
    show ((asmAssembleStrWith lfo a text).1.offset - a.offset).toNat = _
    rw [la.1]; omega
  rw [hn, la.2.1, lb.2.1]

/-- the counting call: same return value, offset and count -/
theorem same_count (lfo : LineFnOf) (a b : Inst) (text : Str) (c : Int) (d : Bool) (h : AgreeI a b)
    (ho : a.offset = b.offset) :
    (asmCountingChunksWith lfo a text c d).2 = (asmCountingChunksWith lfo b text c d).2 ∧
    (asmCountingChunksWith lfo a text c d).1.offset = (asmCountingChunksWith lfo b text c d).1.offset := by
  unfold asmCountingChunksWith assembleAll
  dsimp only
  rw [assembleAllGo_eq, assembleAllGo_eq]
  have hs : AgreeI (countSetup a c) (countSetup b c) :=
    ⟨h.external, h.bufLen, rfl, rfl, h.opt, h.memLen, h.oobLen⟩
  have hoa : (countSetup a c).opt = a.opt := rfl
  have hob : (countSetup b c).opt = b.opt := rfl
  have hfa : (countSetup a c).offset = a.offset := rfl
  have hfb : (countSetup b c).offset = b.offset := rfl
  rw [hoa, hob, hfa, hfb, ← h.opt, ← ho]
  have hr := runCodes_agree (items (lfo a.opt) (text.length + 1) text).codes
    { a := countSetup a c, bufPos := toU32 a.offset, brks := if d then some 0 else none }
    { a := countSetup b c, bufPos := toU32 a.offset, brks := if d then some 0 else none } ⟨hs, rfl, rfl⟩
  obtain ⟨⟨hi, hp, hb⟩, he⟩ := hr
  have hca := runCodes_cfg (items (lfo a.opt) (text.length + 1) text).codes
    { a := countSetup a c, bufPos := toU32 a.offset, brks := if d then some 0 else none }
  have hcb := runCodes_cfg (items (lfo a.opt) (text.length + 1) text).codes
    { a := countSetup b c, bufPos := toU32 a.offset, brks := if d then some 0 else none }
  generalize runCodes { a := countSetup a c, bufPos := toU32 a.offset, brks := if d then some 0 else none }
    (items (lfo a.opt) (text.length + 1) text).codes = x at *
  generalize runCodes { a := countSetup b c, bufPos := toU32 a.offset, brks := if d then some 0 else none }
    (items (lfo a.opt) (text.length + 1) text).codes = y at *
  simp only [finish_ret, finish_a, finish_brks]
  have hout : outcome x (items (lfo a.opt) (text.length + 1) text).err =
      outcome y (items (lfo a.opt) (text.length + 1) text).err := by
    unfold outcome; rw [he]
  rw [hout, hb]
  cases hoc : outcome y (items (lfo a.opt) (text.length + 1) text).err with
  | some er =>
    simp only
    refine ⟨by trivial, ?_⟩
    have e1 : x.1.a.offset = a.offset := hca.2.2.2.1
    have e2 : y.1.a.offset = b.offset := hcb.2.2.2.1
    rw [e1, e2, ho]
  | none =>
    simp only
    exact ⟨by trivial, by rw [hp]⟩

/-- a counting call leaves mode, chunk setting and options as they were -/
theorem counting_restores (lfo : LineFnOf) (a : Inst) (text : Str) (c : Int) (d : Bool) :
    (asmCountingChunksWith lfo a text c d).1.mode = a.mode ∧
    (asmCountingChunksWith lfo a text c d).1.chunkSize = a.chunkSize ∧
    (asmCountingChunksWith lfo a text c d).1.opt = a.opt := by
  unfold asmCountingChunksWith assembleAll
  dsimp only
  rw [assembleAllGo_eq]
  have hc := runCodes_cfg (items (lfo (countSetup a c).opt) (text.length + 1) text).codes
    { a := countSetup a c, bufPos := toU32 (countSetup a c).offset, brks := if d then some 0 else none }
  generalize runCodes _ _ = x at *
  simp only [finish_ret, finish_a]
  have ho : x.1.a.opt = a.opt := hc.2.2.1
  cases outcome x _ <;> exact ⟨rfl, rfl, ho⟩

/-- **a failed call is harmless**: the offset is what it was, the configuration is unchanged
    (so the instance is as usable as before); that the bytes before the offset are intact and
    nothing outside the buffer was touched is C07.step_J. -/
theorem failed_call_harmless (lfo : LineFnOf) (a : Inst) (text : Str) (e : Err)
    (hf : (asmAssembleStrWith lfo a text).2 = .error e) :
    (asmAssembleStrWith lfo a text).1.offset = a.offset ∧ SameCfg a (asmAssembleStrWith lfo a text).1 := by
  rw [plain_eq] at hf ⊢
  have hc := runCodes_cfg (codesOf lfo a.opt text) { a := a, bufPos := toU32 a.offset, brks := none }
  generalize runCodes _ _ = x at *
  simp only at hf ⊢
  cases hoc : outcome x (items (lfo a.opt) (text.length + 1) text).err with
  | none => rw [hoc] at hf; cases hf
  | some er => simp only; exact ⟨hc.2.2.2.1, hc⟩

/-- two instances on caller buffers of the same length with the same settings agree -/
theorem agree_of_J (n : Nat) (a b : Inst) (ja : C07.J n a) (jb : C07.J n b) (hopt : a.opt = b.opt)
    (hmode : a.mode = b.mode) (hchunk : a.chunkSize = b.chunkSize) : AgreeI a b := by
  have e1 := ja.inv
  have e2 := jb.inv
  unfold BufInv at e1 e2
  exact ⟨by rw [ja.ext, jb.ext], by rw [e1, e2, ja.len, jb.len], hchunk, hmode, hopt,
    by rw [ja.len, jb.len], by rw [ja.oob, jb.oob]⟩

/-- **two arbitrary histories**: instances on caller buffers of the same length `n` reached by
    ANY two valid histories (C07.Op: setters, chunk, offset, assemble, counting — succeeding or
    failing), then `asm_set_offset(k)`: if options, mode and chunk setting coincide, the next
    assemble call cannot tell them apart. -/
theorem after_history (lfo : LineFnOf) (n : Nat) (hn : n + 60 < 2 ^ 31) (f1 f2 : List Nat)
    (hf1 : f1.length = n) (hf2 : f2.length = n) (h1 h2 : List C07.Op)
    (hv1 : ∀ op ∈ h1, op.valid n) (hv2 : ∀ op ∈ h2, op.valid n) (k : Int) (text : Str)
    (hopt : (h1.foldl (C07.stepOp lfo) (createExternal n f1)).opt = (h2.foldl (C07.stepOp lfo) (createExternal n f2)).opt)
    (hmode : (h1.foldl (C07.stepOp lfo) (createExternal n f1)).mode = (h2.foldl (C07.stepOp lfo) (createExternal n f2)).mode)
    (hchunk : (h1.foldl (C07.stepOp lfo) (createExternal n f1)).chunkSize =
      (h2.foldl (C07.stepOp lfo) (createExternal n f2)).chunkSize) :
    let a := setOffset (h1.foldl (C07.stepOp lfo) (createExternal n f1)) k
    let b := setOffset (h2.foldl (C07.stepOp lfo) (createExternal n f2)) k
    (asmAssembleStrWith lfo a text).2 = (asmAssembleStrWith lfo b text).2 ∧
    (asmAssembleStrWith lfo a text).1.offset = (asmAssembleStrWith lfo b text).1.offset := by
  intro a b
  have j1 := C07.contained lfo n hn f1 hf1 h1 hv1
  have j2 := C07.contained lfo n hn f2 hf2 h2 hv2
  have hag : AgreeI a b := agree_setOffset _ _ k (agree_of_J n _ _ j1 j2 hopt hmode hchunk)
  have := same_result lfo a b text hag rfl
  exact ⟨this.1, this.2.1⟩

/-- the global first-letter index tables are a function of the (constant) tables: whatever
    instance is created, and however often, they are rebuilt to the value the library observed -/
theorem index_tables_deterministic :
    buildInstrIndex instrTable = instrIndex ∧ buildOpdIndex opdFormatTable = opdIndex := by
  constructor <;> decide +kernel

/-- non-vacuity of `AgreeI`: a used instance and a fresh one with different buffer contents -/
example : AgreeI (asmAssembleStrWith assembleLine (createExternal 32 (List.replicate 32 0xCC)) (str! "bogus\nret")).1
    (createExternal 32 (List.replicate 32 0)) := by
  refine ⟨?_, ?_, ?_, ?_, ?_, ?_, ?_⟩ <;> decide +kernel

end AL.Properties.C15
