/-
  AL.Lemmas.Agree — assembling depends on an instance only through its configuration
  (kind and length of buffer, mode, chunk size, options), never on what the buffer contains,
  on the stored offset field, or on how the instance got there.
-/
import AL.Lemmas.Layout
namespace AL.Lemmas
open AL AL.Impl AL.Gen

/-- two instances that differ at most in buffer CONTENTS (same size) and in the `offset` field -/
structure AgreeI (a b : Inst) : Prop where
  external : a.external = b.external
  bufLen   : a.bufLen = b.bufLen
  chunk    : a.chunkSize = b.chunkSize
  mode     : a.mode = b.mode
  opt      : a.opt = b.opt
  memLen   : a.mem.length = b.mem.length
  oobLen   : a.oob.length = b.oob.length

structure AgreeR (r s : Run) : Prop where
  inst   : AgreeI r.a s.a
  bufPos : r.bufPos = s.bufPos
  brks   : r.brks = s.brks

theorem check_agree (a b : Inst) (p : Nat) (h : AgreeI a b) :
    (∀ e, checkLenOrResize a p = .error e → checkLenOrResize b p = .error e) ∧
    (∀ a', checkLenOrResize a p = .ok a' → ∃ b', checkLenOrResize b p = .ok b' ∧ AgreeI a' b') := by
  have hg : growBytes a p = growBytes b p := by unfold growBytes; rw [h.bufLen]
  unfold checkLenOrResize
  rw [hg, h.bufLen, h.external]
  constructor
  · intro e he
    split at he
    · split at he
      · rename_i h1 h2; simp only [h1, h2, if_true]; exact he
      · cases he
    · cases he
  · intro a' ha
    split at ha
    · rename_i h1
      split at ha
      · cases ha
      · rename_i h2
        injection ha with ha
        subst ha
        simp only [h1, h2, if_true, Bool.false_eq_true, if_false]
        refine ⟨_, rfl, ⟨rfl, rfl, h.chunk, h.mode, h.opt, ?_, h.oobLen⟩⟩
        simp only [List.length_append, h.memLen]
    · rename_i h1
      injection ha with ha
      subst ha
      simp only [h1, if_false]
      exact ⟨_, rfl, h⟩

theorem writeAt_agree (a b : Inst) (p : Nat) (bs : Bytes) (h : AgreeI a b) :
    AgreeI (writeAt a p bs) (writeAt b p bs) := by
  unfold writeAt
  rw [h.memLen]
  split
  · refine ⟨h.external, h.bufLen, h.chunk, h.mode, h.opt, ?_, h.oobLen⟩
    simp only [List.length_append, List.length_take, List.length_drop, h.memLen]
  · refine ⟨h.external, h.bufLen, h.chunk, h.mode, h.opt, ?_, ?_⟩
    · simp only
      split
      · simp only [List.length_append, List.length_take, h.memLen]
      · exact h.memLen
    · simp only [List.length_append, List.length_map, h.oobLen]

/-- **one step**: agreeing runs stay agreeing and fail in the same way -/
theorem emitOne_agree (r s : Run) (bs : Bytes) (h : AgreeR r s) :
    AgreeR (emitOne r bs).1 (emitOne s bs).1 ∧ (emitOne r bs).2 = (emitOne s bs).2 := by
  obtain ⟨hi, hp, hb⟩ := h
  unfold emitOne
  rw [← hi.mode, ← hp, ← hb]
  obtain ⟨hce, hco⟩ := check_agree r.a s.a r.bufPos hi
  cases hm : r.a.mode with
  | assemble =>
    simp only
    cases hck : checkLenOrResize r.a r.bufPos with
    | error e => rw [hce e hck]; exact ⟨⟨hi, hp, hb⟩, rfl⟩
    | ok a1 =>
      obtain ⟨b1, hb1, hab⟩ := hco a1 hck
      rw [hb1]
      simp only
      split
      · exact ⟨⟨hi, hp, hb⟩, rfl⟩
      · exact ⟨⟨writeAt_agree _ _ _ _ hab, rfl, rfl⟩, rfl⟩
  | count =>
    simp only
    cases hbr : r.brks with
    | none => exact ⟨⟨hi, hp, hb⟩, rfl⟩
    | some n =>
      simp only
      cases hck : checkLenOrResize r.a r.bufPos with
      | error e => rw [hce e hck]; exact ⟨⟨hi, hp, hb⟩, rfl⟩
      | ok a1 =>
        obtain ⟨b1, hb1, hab⟩ := hco a1 hck
        rw [hb1]
        simp only [← hab.chunk]
        split
        · exact ⟨⟨hi, hp, hb⟩, rfl⟩
        · split
          · exact ⟨⟨hi, hp, hb⟩, rfl⟩
          · exact ⟨⟨writeAt_agree _ _ _ _ hab, rfl, rfl⟩, rfl⟩
  | fitting =>
    simp only
    cases hck : checkLenOrResize r.a r.bufPos with
    | error e => rw [hce e hck]; exact ⟨⟨hi, hp, hb⟩, rfl⟩
    | ok a1 =>
      obtain ⟨b1, hb1, hab⟩ := hco a1 hck
      rw [hb1]
      simp only [← hab.chunk]
      split
      · exact ⟨⟨hi, hp, hb⟩, rfl⟩
      · split
        · exact ⟨⟨hi, hp, hb⟩, rfl⟩
        · have hw := writeAt_agree a1 b1 r.bufPos bs hab
          simp only [← hw.chunk]
          split
          · exact ⟨⟨hw, rfl, rfl⟩, rfl⟩
          · have hw2 := writeAt_agree _ _ r.bufPos (nopPadding (a1.chunkSize - r.bufPos % a1.chunkSize)) hw
            obtain ⟨hce2, hco2⟩ := check_agree _ _
              ((r.bufPos + (a1.chunkSize - r.bufPos % a1.chunkSize)) % 2 ^ 32) hw2
            cases hck2 : checkLenOrResize (writeAt (writeAt a1 r.bufPos bs) r.bufPos
                (nopPadding (a1.chunkSize - r.bufPos % a1.chunkSize)))
                ((r.bufPos + (a1.chunkSize - r.bufPos % a1.chunkSize)) % 2 ^ 32) with
            | error e => rw [hce2 e hck2]; exact ⟨⟨hw2, rfl, rfl⟩, rfl⟩
            | ok a3 =>
              obtain ⟨b3, hb3, hab3⟩ := hco2 a3 hck2
              rw [hb3]
              simp only
              have hw4 := writeAt_agree a3 b3
                ((r.bufPos + (a1.chunkSize - r.bufPos % a1.chunkSize)) % 2 ^ 32) bs hab3
              simp only [← hab3.chunk, ← hw4.chunk]
              split
              · exact ⟨⟨hw4, rfl, rfl⟩, rfl⟩
              · exact ⟨⟨hw4, rfl, rfl⟩, rfl⟩

theorem runCodes_agree (cs : List Bytes) (r s : Run) (h : AgreeR r s) :
    AgreeR (runCodes r cs).1 (runCodes s cs).1 ∧ (runCodes r cs).2 = (runCodes s cs).2 := by
  induction cs generalizing r s with
  | nil => exact ⟨h, rfl⟩
  | cons bs rest ih =>
    unfold runCodes
    obtain ⟨h1, h2⟩ := emitOne_agree r s bs h
    rcases hx : emitOne r bs with ⟨r1, e1⟩
    rcases hy : emitOne s bs with ⟨s1, e2⟩
    rw [hx, hy] at h1 h2
    simp only at h1 h2
    subst h2
    cases e1 with
    | some e => exact ⟨h1, rfl⟩
    | none => exact ih r1 s1 h1

end AL.Lemmas
