/-
  AL.Spec.X86Families — the quantifier domains of C01–C05 as enumerations over the reference
  opcode table: which instances are listed for which property, with which memory shapes,
  immediate values, displacements and spellings.
-/
import AL.Spec.X86Enum
namespace AL.Spec.X86

def hasImm (en : Enc) : Bool :=
  en.ops.any fun t => match t with
    | .immS8 | .immZ | .immFull | .imm8 _ | .imm32s64 | .imm8s64 | .one => true
    | _ => false

def hasRel (en : Enc) : Bool :=
  en.ops.any fun t => match t with | .rel8 | .rel32 => true | _ => false

def hasRm (en : Enc) : Bool :=
  en.ops.any fun t => match t with | .rm .. | .rmMem .. => true | _ => false

def isVector (en : Enc) : Bool :=
  en.vex != .none || en.ops.any fun t => match t with
    | .rm c _ _ | .rmReg c _ | .reg c _ | .vvvv c _ => c != .gpr
    | _ => false

/-- boundary values of an operand size, as unsigned numbers of that size -/
def immValues (bits : Nat) : List Nat :=
  let pos := [0, 1, 2, 0x7e, 0x7f, 0x80, 0x81, 0xfe, 0xff, 0x100, 0x101, 0x7fff, 0x8000, 0xffff, 0x10000, 0x12345678,
              0x7ffffffe, 0x7fffffff, 0x80000000, 0x80000001, 0xfffffffe, 0xffffffff, 0x100000000, 0x100000001,
              0x123456789abcdef0, 0x7fffffffffffffff]
  let neg := [1, 2, 0x7f, 0x80, 0x81, 0xff, 0x100, 0x7fff, 0x8000, 0x8001, 0x7fffffff, 0x80000000, 0x80000001, 0xffffffff,
              0x100000000, 0x7fffffffffffffff, 0x8000000000000000]
  ((pos.filter (· < 2 ^ bits)) ++ ((neg.filter (· ≤ 2 ^ (bits - 1))).map fun v => 2 ^ bits - v)).eraseDups

def fewImm (bits : Nat) : List Nat := if bits == 8 then [5] else [5]

/-- immediates stored through a memory operand (C02): a small positive and a small negative value of the operand's width -/
def memImm (bits : Nat) : List Nat := [5, 2 ^ bits - 5]

def dispValues : List Int := [0, 1, 0x7f, 0x80, 0xff, 0x100, -1, -0x80, -0x81, -0x100, 0x12345678, 0x7fffffff, -0x80000000]
def dispFew : List Int := [0, 8, -8, 0x80, -0x81]

def mkMem (size : Nat) (a32 : Bool) (b i : Option Nat) (s : Nat) (d : Int) : Mem :=
  { size, addr32 := a32, base := b, index := i, scale := if i.isNone then 1 else s, disp := d }

/-- every shape: base (none, 16) x index (none, 15 without the stack pointer) x scale x displacement x address size;
    an operand without any register needs a displacement -/
def memShapes (bases idxs : List (Option Nat)) (scales : List Nat) (disps : List Int) (a32s : List Bool) (size : Nat) : List Mem :=
  a32s.flatMap fun a32 => bases.flatMap fun b => idxs.flatMap fun i =>
    (if i.isNone then [1] else scales).flatMap fun s => (disps.filterMap fun d =>
      if b.isNone && i.isNone && a32 then none           -- [disp] has no address registers to be 32-bit
      else some (mkMem size a32 b i s d))

def allBases : List (Option Nat) := none :: (List.range 16).map some
def allIdxs : List (Option Nat) := none :: ((List.range 16).filter (· != 4)).map some
def keyBases : List (Option Nat) := [none, some 0, some 4, some 5, some 12, some 13, some 15]
def keyIdxs : List (Option Nat) := [none, some 1, some 5, some 12, some 13, some 15]

def memsFull (size : Nat) : List Mem := memShapes allBases allIdxs [1, 2, 4, 8] dispValues [false, true] size
def memsKey (size : Nat) : List Mem := memShapes keyBases keyIdxs [1, 2, 8] dispFew [false] size ++
  memShapes [some 3, some 5, some 9] [none, some 6, some 13] [4] [0, 0x44] [true] size
def memsMid (size : Nat) : List Mem := memShapes [none, some 0, some 4, some 5, some 12, some 13] [none, some 1, some 12, some 13] [1, 4] [0, 8, -0x81] [false] size ++
  memShapes [some 3, some 13] [none, some 6, some 9] [2] [0x44] [true] size ++
  memShapes [some 0] [some 13] [1, 8] [0] [true] size       -- extended 32-bit index registers (REX.X / VEX.X with 0x67)
/-- a stack pointer written as the second register: `[base+rsp]`, `[base+rsp+disp]` (the NASM index/base swap; with
    the STRICT swap option the documented literal encoding applies instead — not judged there) -/
def memsSwap (size : Nat) : List Mem :=
  [some 0, some 3, some 5, some 9, some 12, some 13].flatMap fun b =>
    [0, 8, -0x81].map fun d => mkMem size false b (some 4) 1 d

/-- a stack pointer written as a lone unscaled index: `[1*rsp]`, `[1*rsp+disp]`, `[1*esp+disp]` (the same address as `[rsp+disp]`) -/
def memsLoneSp (size : Nat) : List Mem :=
  ([0, 8, -0x81].map fun d => mkMem size false none (some 4) 1 d) ++ [mkMem size true none (some 4) 1 8]

/-- (with rbp / r13 as base and no displacement: the encoding needs a zero disp8 of its own, next to the immediate) -/
def memsFew (size : Nat) : List Mem := [mkMem size false (some 3) none 1 0, mkMem size false (some 13) (some 1) 4 (-0x20),
  mkMem size false (some 5) none 1 0, mkMem size false (some 13) none 1 0, mkMem size true (some 5) (some 1) 2 0]

def noMems (_ : Nat) : List Mem := []

def fillRegs : Fill := { mems := noMems, imms := fewImm, rels8 := [], rels32 := [] }

structure Item where
  text : String
  want : Dec
  wmn  : Mn := []      -- the mnemonic as written (a synonym of `want.mn` possibly)
  relKw : Nat := 0          -- 0 none, 1 short, 2 long

def relKwOf (st : Style) : Nat := if st.relKw == "short " then 1 else if st.relKw == "long " then 2 else 0

def items (st : Style) (ds : List Dec) : List Item :=
  ds.map fun d => { text := d.asm st, want := d, wmn := if d.mn == (mn! "callf") then (mn! "call") else if d.mn == (mn! "jmpf") then (mn! "jmp") else d.mn,
                    relKw := relKwOf st }

/-- synonym spellings of an instance -/
def withSynonyms (st : Style) (d : Dec) : List Item :=
  (items st [d]) ++
    (synonyms.filter (fun p => p.2 == d.mn)).map fun p =>
      { text := ({ d with mn := p.1 } : Dec).asm st, want := d, wmn := p.1, relKw := relKwOf st }

/-- C01: integer instructions whose operands are registers (and the no-operand instructions) -/
def famC01 : List Item :=
  (table.filter fun en => !hasImm en && !hasRel en && !isVector en).flatMap fun en =>
    (enumEnc fillRegs en).flatMap (withSynonyms {})

/-- keep a few registers per class (first, an extended one, the last) -/
def fewRegs (ds : List Dec) : List Dec :=
  ds.filter fun d => d.ops.all fun o => match o with
    | .reg r => r.num == 1 || r.num == 10 || (r.file == .mm && r.num == 6) || (r.file == .gpr8h && r.num == 5)
    | _ => true

/-- C04: vector and VEX-encoded forms over registers (memory forms with a few shapes) -/
def famC04 (thorough : Bool) : List Item :=
  let fr : Fill := { mems := noMems, imms := fun _ => [0, 1, 0x7f, 0x80, 0xff], rels8 := [], rels32 := [] }
  let fm : Fill := { mems := (if thorough then memsKey else memsMid), imms := fun _ => [0x31], rels8 := [], rels32 := [],
                     regForm := false, memForm := true }
  (table.filter fun en => isVector en).flatMap fun en => items {} (enumEnc fr en) ++ items {} (fewRegs (enumEnc fm en))

/-- C02: every entry with a memory-capable operand over the memory shapes -/
def famC02 (level : Nat) : List Item :=
  (table.filter fun en => hasRm en && !hasRel en).flatMap fun en =>
    let rep := en.mn == (mn! "mov") && en.opc == 0x8B || en.mn == (mn! "paddb") || en.mn == (mn! "vaddpd") || en.mn == (mn! "lea")
    let mems0 := if level ≥ 2 && rep then memsFull else if level ≥ 1 || rep then memsKey else memsMid
    let mems := fun sz => mems0 sz ++ memsSwap sz ++ memsLoneSp sz
    let f : Fill := { mems, imms := memImm, rels8 := [], rels32 := [], regForm := false, memForm := true }
    let ds := fewRegs (enumEnc f en)
    items {} ds ++ (if rep || level ≥ 1 then items { scaleFirst := true, kwAlways := true, num := .dec } ds else [])

/-- a wider register selection for immediates: accumulator, rcx, the stack/frame pointers and their extended twins, r10, r15, ch -/
def someRegs (ds : List Dec) : List Dec :=
  ds.filter fun d => d.ops.all fun o => match o with
    | .reg r => [0, 1, 4, 5, 10, 12, 13, 15].contains r.num || (r.file == .mm && r.num == 6) || (r.file == .gpr8h && r.num == 5)
    | _ => true

/-- C03: every entry with an immediate over the boundary values, register and memory destinations -/
def famC03 (thorough : Bool) : List Item :=
  (table.filter fun en => hasImm en).flatMap fun en =>
    let f : Fill := { mems := memsFew, imms := immValues, rels8 := [], rels32 := [], regForm := true, memForm := true }
    let ds := enumEnc f en
    let ds := if thorough then ds else someRegs ds
    items {} ds ++ items { num := .dec } ds ++ items { negImm := false } ds ++
    items { num := .hexPad 16, negImm := false } (if thorough then ds else fewRegs ds)

def relValues32 : List Int :=
  [-129, -128, -127, -1, 0, 1, 2, 126, 127, 128, 129, 255, 256, 0x7fff, 0x8000, -0x8000, -0x8001, 0x12345678, -0x12345678,
   0x7fffffff, -0x80000000, 0x7ffffffe, -0x7fffffff]

/-- an address without base register: every index register (the stack pointer cannot be one) x every scale, with and without
    displacement (scale 1 and 2 are rewritten to a base by the NASM no-base option) -/
def memsNoBase (size : Nat) : List Mem :=
  ((List.range 16).filter (· != 4)).flatMap fun i => [1, 2, 4, 8].flatMap fun s => [0, 8].map fun d => mkMem size false none (some i) s d

/-- displacements no rel8 field holds: an instruction that has only a rel8 form (jrcxz) must reject them with every keyword, `short`
    must reject them everywhere; without keyword (or with `long`) a branch that has a rel32 form takes it -/
def relOut8 : List Int := [-129, 128, 255, 256, 300, -300, 0x7fff, 0x7fffffff, -0x80000000]

/-- C05: relative branches over the displacement values, and the indirect forms of jmp and call: register targets over all
    registers, memory and far-memory targets over the C02 address shapes -/
def famC05 : List Item :=
  let f : Fill := { mems := noMems, imms := fewImm, rels8 := (List.range 256).map (fun (n : Nat) => (n : Int) - 128) ++ relOut8, rels32 := relValues32 ++ (List.range 260).map (fun (n : Nat) => (n : Int) - 130) }
  ((table.filter hasRel).flatMap fun en =>
    let ds := enumEnc f en
    ds.flatMap (withSynonyms {}) ++ items { num := .dec } ds ++ items { relKw := "short " } ds ++ items { relKw := "long " } ds) ++
  ((table.filter fun en => [(mn! "call"), (mn! "callf"), (mn! "jmp"), (mn! "jmpf")].contains en.mn && hasRm en && !hasRel en).flatMap fun en =>
    let mems := fun sz => memsKey sz ++ memsSwap sz ++ memsLoneSp sz ++ memsNoBase sz
    let fi : Fill := { mems, imms := fewImm, rels8 := [], rels32 := [], regForm := true, memForm := true }
    let ds := enumEnc fi en
    items {} ds ++ items { scaleFirst := true, kwAlways := true, num := .dec } ds)

def family (name : String) (level : Nat) : List Item :=
  if name == "c01" then famC01
  else if name == "c02" then famC02 level
  else if name == "c03" then famC03 (level ≥ 1)
  else if name == "c04" then famC04 (level ≥ 1)
  else if name == "c05" then famC05
  else []

end AL.Spec.X86
