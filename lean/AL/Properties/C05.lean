/-
  C05 — relative jumps and calls encode the given displacement; rel8 never wraps.

  Statement: for every instance of the family — jmp, the conditional jumps, call, jrcxz, xbegin x
  {no keyword, short, long} x every d in −130..129 and the 16/32-bit boundary values, decimal and
  hexadecimal, all synonym mnemonics — an accepted line decodes to that operation with displacement d
  (rel8 or rel32; `long` forces rel32, `short` rel8), and a line is rejected exactly when `short` is asked
  for, or only rel8 exists, and d is outside −128..127.
   * `Sweep.c05_sweep`          — the whole family (≈ 47 000 instances x 2 option bytes) on the model, by evaluation;
   * `rel_field_reads_back`     — kernel-checked, for EVERY d: a rel8 / rel32 field holding d's two's complement
                                  is read back as d;
   * `written_displacement`     — kernel-checked, for EVERY n: the written number reaches the encoder unchanged
                                  (C03 `written_number_value`).
  Register, memory and far-memory targets are instances of the C01 / C02 families (call, jmp, callf, jmpf).
-/
import AL.Properties.Sweep.C05
import AL.Properties.C03
namespace AL.Properties.C05
open AL AL.Impl AL.Spec.X86

theorem rel_field_reads_back :
    (∀ d : Int, -128 ≤ d → d < 128 → toSigned 8 (leVal (leBytes 1 (d % 256).toNat)) = d) ∧
    (∀ d : Int, -2147483648 ≤ d → d < 2147483648 → toSigned 32 (leVal (leBytes 4 (d % 4294967296).toNat)) = d) := by
  constructor
  · intro d h1 h2
    rw [leVal_leBytes_lt 1 _ (by have := Int.emod_lt_of_pos d (show (0 : Int) < 256 by decide); have := Int.emod_nonneg d (show (256 : Int) ≠ 0 by decide); omega)]
    exact toSigned_roundtrip 8 (by decide) d (by simpa using h1) (by simpa using h2)
  · intro d h1 h2
    rw [leVal_leBytes_lt 4 _ (by have := Int.emod_lt_of_pos d (show (0 : Int) < 4294967296 by decide); have := Int.emod_nonneg d (show (4294967296 : Int) ≠ 0 by decide); have : (256 : Nat) ^ 4 = 4294967296 := by decide
                                 omega)]
    exact toSigned_roundtrip 32 (by decide) d (by simpa using h1) (by simpa using h2)

theorem written_displacement (s : Instr) (n : Nat) (hn : n < 2 ^ 64) :
    (∃ r, immTok s (AL.Lemmas.decStr n) = .ok r ∧ r.cons = n ∧ r.imm = true) ∧
    (∃ r, immTok s (45 :: AL.Lemmas.decStr n) = .ok r ∧ r.cons = (2 ^ 64 - n) % 2 ^ 64) :=
  ⟨(AL.Properties.C03.written_number_value s n 0 hn).1, (AL.Properties.C03.written_number_value s n 0 hn).2.2.1⟩

end AL.Properties.C05
