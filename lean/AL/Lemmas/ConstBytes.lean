/-
  AL.Lemmas.ConstBytes — the bytes `assemble_const` emits, for EVERY value: as many little-endian
  bytes as the value needs; padded with zeros to n bytes they are the n-byte little-endian encoding.
-/
import AL.Spec.X86Lemmas
namespace AL.Lemmas
open AL AL.Impl AL.Spec.X86

theorem leBytes_length (n v : Nat) : (leBytes n v).length = n := by
  induction n generalizing v with
  | zero => rfl
  | succ n ih => simp [leBytes, ih]

theorem leBytes_zero (n : Nat) : leBytes n 0 = List.replicate n 0 := by
  induction n with
  | zero => rfl
  | succ n ih => simp [leBytes, ih, List.replicate_succ]

/-- number of bytes `assemble_const` emits (0 for 0) -/
theorem assembleConstGo_length_le (f c n : Nat) (h : c < 256 ^ n) : (assembleConstGo f c).length ≤ n := by
  induction f generalizing c n with
  | zero => simp [assembleConstGo]
  | succ f ih =>
    unfold assembleConstGo
    split
    · simp
    · rename_i hc
      cases n with
      | zero => simp at h; omega
      | succ n =>
        simp only [List.length_cons]
        have := ih (c / 256) n (by rw [Nat.div_lt_iff_lt_mul (by decide)]; rw [Nat.pow_succ] at h; exact h)
        omega

/-- **padded to n bytes, the emitted constant is the n-byte little-endian encoding** -/
theorem assembleConstGo_pad (f c n : Nat) (h : c < 256 ^ n) (hf : n ≤ f) :
    assembleConstGo f c ++ List.replicate (n - (assembleConstGo f c).length) 0 = leBytes n c := by
  induction f generalizing c n with
  | zero =>
    have : n = 0 := by omega
    subst this
    simp [assembleConstGo, leBytes]
  | succ f ih =>
    unfold assembleConstGo
    split
    · rename_i hc
      subst hc
      simp [leBytes_zero]
    · rename_i hc
      cases n with
      | zero => simp at h; omega
      | succ n =>
        simp only [List.length_cons, List.cons_append, leBytes]
        have hq : c / 256 < 256 ^ n := by rw [Nat.div_lt_iff_lt_mul (by decide)]; rw [Nat.pow_succ] at h; exact h
        have := ih (c / 256) n hq (by omega)
        rw [← this, Nat.add_sub_add_right]

theorem assembleConst_pad (c n : Nat) (h : c < 256 ^ n) (hn : n ≤ 8) :
    assembleConst c ++ List.replicate (n - (assembleConst c).length) 0 = leBytes n c :=
  assembleConstGo_pad 8 c n h hn

theorem assembleConst_length_le (c n : Nat) (h : c < 256 ^ n) : (assembleConst c).length ≤ n :=
  assembleConstGo_length_le 8 c n h

/-- the value fits into the bytes emitted -/
theorem assembleConstGo_fits (f c : Nat) (h : c < 256 ^ f) : c < 256 ^ (assembleConstGo f c).length := by
  induction f generalizing c with
  | zero => simp at h; subst h; simp [assembleConstGo]
  | succ f ih =>
    unfold assembleConstGo
    split
    · rename_i hc; subst hc; simp
    · simp only [List.length_cons, Nat.pow_succ]
      have := ih (c / 256) (by rw [Nat.div_lt_iff_lt_mul (by decide)]; rw [Nat.pow_succ] at h; exact h)
      have h2 := Nat.div_add_mod c 256
      have h3 := Nat.mod_lt c (show 0 < 256 by decide)
      omega

/-- a value with its top byte set needs all n bytes -/
theorem assembleConst_full (c n : Nat) (hlo : 256 ^ (n - 1) ≤ c) (hhi : c < 256 ^ n) (hn : 0 < n) (h8 : n ≤ 8) :
    (assembleConst c).length = n := by
  have hle := assembleConst_length_le c n hhi
  have hfit := assembleConstGo_fits 8 c (Nat.lt_of_lt_of_le hhi (Nat.pow_le_pow_right (by decide) h8))
  by_cases hlt : (assembleConst c).length < n
  · exfalso
    have : 256 ^ (assembleConst c).length ≤ 256 ^ (n - 1) := Nat.pow_le_pow_right (by decide) (by omega)
    unfold assembleConst at this hlt
    omega
  · omega

end AL.Lemmas
