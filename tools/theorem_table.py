#!/usr/bin/env python3
"""print a markdown table: property -> theorems audited on the last run (from evidence/*.json)"""
import json, glob, os, re
HERE = os.path.dirname(os.path.dirname(os.path.abspath(__file__)))
print("| id | theorems audited on every run (axioms) |")
print("|---|---|")
for f in sorted(glob.glob(os.path.join(HERE, "evidence", "C*.json"))):
    d = json.load(open(f))
    names = []
    for o in d["coverage"].get("obligation_list", []):
        m = re.match(r"theorem (\S+) \(axioms: (.*)\)", o["name"])
        if m:
            nm = m.group(1).replace("AL.Properties.", "").replace("AL.Lemmas.", "Lemmas.").replace("AL.Spec.", "Spec.")
            nat = "native_decide" in m.group(2)
            names.append("`%s`%s" % (nm, " (native_decide)" if nat else ""))
    print("| %s | %s |" % (d["property_id"], ", ".join(names)))
