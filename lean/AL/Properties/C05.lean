/-
  C05 — relative jumps and calls encode the given displacement; rel8 never wraps.

  Statement: for every instance of the family — jmp, the conditional jumps, call, jrcxz, xbegin x
  {no keyword, short, long} x every d in −130..129 and the 16/32-bit boundary values, decimal and
  hexadecimal, all synonym mnemonics — an accepted line decodes to that operation with displacement d
  (rel8 or rel32; `long` forces rel32, `short` rel8), and a line is rejected exactly when `short` is asked
  for, or only rel8 exists, and d is outside −128..127.
   * `Sweep.c05_sweep`          — the whole family (≈ 47 000 instances x 2 option bytes) on the model, by evaluation;
   * `rel_field_reads_back`     — kernel-checked, for EVERY d: a rel8 / rel32 field holding d's two's complement
                                  is read back as d;
   * `written_displacement`     — kernel-checked, for EVERY n: the written number reaches the encoder unchanged
                                  (C03 `written_number_value`).
   * `rel_branch_every_d`       — kernel-checked, SYMBOLIC in d: for every relative-branch row of the regenerated table
                                  (`Lemmas.Branch.relKeys_classified`: each is jmp/jcc-shaped, call/xbegin-shaped or jrcxz-shaped), EVERY
                                  d in −2^31..2^31−1, with and without `short`/`long`, every option byte, the second half of the per-line
                                  pipeline yields rel8 / rel32 / rejection exactly as the property says, with d's two's complement in the
                                  displacement field (AL.Lemmas.Branch.j_bytes / c_bytes / r_bytes).
  Register, memory and far-memory targets are instances of the C01 / C02 families (call, jmp, callf, jmpf).
-/
import AL.Properties.Sweep.C05
import AL.Properties.C03
import AL.Lemmas.Branch
namespace AL.Properties.C05
open AL AL.Impl AL.Gen AL.Spec.X86 AL.Lemmas.Branch AL.Lemmas.MovImm

theorem rel_field_reads_back :
    (∀ d : Int, -128 ≤ d → d < 128 → toSigned 8 (leVal (leBytes 1 (d % 256).toNat)) = d) ∧
    (∀ d : Int, -2147483648 ≤ d → d < 2147483648 → toSigned 32 (leVal (leBytes 4 (d % 4294967296).toNat)) = d) := by
  constructor
  · intro d h1 h2
    rw [leVal_leBytes_lt 1 _ (by have := Int.emod_lt_of_pos d (show (0 : Int) < 256 by decide); have := Int.emod_nonneg d (show (256 : Int) ≠ 0 by decide); omega)]
    exact toSigned_roundtrip 8 (by decide) d (by simpa using h1) (by simpa using h2)
  · intro d h1 h2
    rw [leVal_leBytes_lt 4 _ (by have := Int.emod_lt_of_pos d (show (0 : Int) < 4294967296 by decide); have := Int.emod_nonneg d (show (4294967296 : Int) ≠ 0 by decide); have : (256 : Nat) ^ 4 = 4294967296 := by decide
                                 omega)]
    exact toSigned_roundtrip 32 (by decide) d (by simpa using h1) (by simpa using h2)

theorem written_displacement (s : Instr) (n : Nat) (hn : n < 2 ^ 64) :
    (∃ r, immTok s (AL.Lemmas.decStr n) = .ok r ∧ r.cons = n ∧ r.imm = true) ∧
    (∃ r, immTok s (45 :: AL.Lemmas.decStr n) = .ok r ∧ r.cons = (2 ^ 64 - n) % 2 ^ 64) :=
  ⟨(AL.Properties.C03.written_number_value s n 0 hn).1, (AL.Properties.C03.written_number_value s n 0 hn).2.2.1⟩

/-- a displacement of the property's range as the 64-bit two's complement value the tokenizer produces -/
theorem disp_of_int (d : Int) (h1 : -2147483648 ≤ d) (h2 : d < 2147483648) :
    disp32 (d % 18446744073709551616).toNat ∧
    (d % 18446744073709551616).toNat % 2 ^ 32 = (d % 4294967296).toNat ∧
    (d % 18446744073709551616).toNat % 256 = (d % 256).toNat ∧
    ((d % 18446744073709551616).toNat ≤ 0x7f ↔ (0 ≤ d ∧ d ≤ 127)) ∧
    (0xffffffffffffff80 ≤ (d % 18446744073709551616).toNat ↔ (-128 ≤ d ∧ d < 0)) := by
  unfold disp32
  refine ⟨?_, ?_, ?_, ?_, ?_⟩ <;> omega

/-- **every relative branch, every d**: for every relative-branch row of the regenerated table, every displacement
    −2^31 ≤ d < 2^31, with and without `short` / `long`, every option byte — the code is
      * jmp / jcc: `op8 d8` when 0 ≤ d ≤ 127 and `long` is absent, or when `short` is written and −128 ≤ d < 0;
        REJECTED when `short` is written and d is outside −128..127; `op32 d32` otherwise;
      * call / xbegin: `op32 d32`, rejected when `short` is written and d is outside −128..127;
      * jrcxz: `op8 d8` when −128 ≤ d ≤ 127, rejected otherwise (never wrapped);
    with d8 / d32 the two's complement of d (which `rel_field_reads_back` reads back as d) -/
theorem rel_branch_every_d (key : Int) (hk : key ∈ relKeys) (name : Str) (d : Int) (h1 : -2147483648 ≤ d) (h2 : d < 2147483648)
    (sh lg : Bool) (hx : ¬ (sh = true ∧ lg = true)) (b : Bool) (opt : Nat) :
    lineBytes opt (brRec key name sh lg (d % 18446744073709551616).toNat b) =
      (if jKeyOk key then jExpect (ops32 key) (op8 key) sh lg (d % 18446744073709551616).toNat
       else if cKeyOk key then cExpect (ops32 key) sh (d % 18446744073709551616).toNat
       else rExpect (op8 key) (d % 18446744073709551616).toNat) := by
  have hd := (disp_of_int d h1 h2).1
  have hc := relKeys_classified
  rw [List.all_eq_true] at hc
  have := hc key hk
  simp only [Bool.or_eq_true] at this
  by_cases hj : jKeyOk key = true
  · simp only [hj, if_true]; exact j_key key hj name _ b opt sh lg hx hd
  · by_cases hcc : cKeyOk key = true
    · simp only [hj, hcc, if_true, Bool.false_eq_true, if_false]; exact c_key key hcc name _ b opt sh lg hx hd
    · have hr : rKeyOk key = true := by
        rcases this with (h | h) | h
        · exact absurd h hj
        · exact absurd h hcc
        · exact h
      simp only [hj, hcc, Bool.false_eq_true, if_false]; exact r_key key hr name _ b opt sh lg hx hd

/-- the record is what the lexer produces (instances; the lexing of every family line is part of `Sweep.c05_sweep`) -/
example : (match lexLine (str! "jmp short -5") with | .ok s => s == brRec 85 (str! "jmp") true false 18446744073709551611 true | _ => false) = true := by
  decide +kernel
example : (match lexLine (str! "jne long 5") with | .ok s => s == brRec 88 (str! "jne") false true 5 true | _ => false) = true := by
  decide +kernel
example : (85 : Int) ∈ relKeys ∧ (19 : Int) ∈ relKeys ∧ (100 : Int) ∈ relKeys := by decide +kernel

end AL.Properties.C05
