/-
  AL.Lemmas.MovImm — the second half of the per-line pipeline (branch/register resolution, encode_imm, encode_operands,
  assemble_asm) on the record the lexer produces for `mov <r64>, <number>`, for a SYMBOLIC value: `mov_bytes` says that
  for each of the 16 registers, every v < 2^64, every option byte and either spelling class the emitted bytes are
  `movBytes` — `B8+r imm32` when narrowed, `REX.W C7 /0 simm32` for values that sign-extend from 32 bits,
  `REX.W B8+r imm64` otherwise.  Proved by symbolic evaluation (simp) per value class, 16 registers each.
-/
import AL.Impl.Line
import AL.Lemmas.ImmField
import AL.Lemmas.Bits
namespace AL.Lemmas.MovImm
open AL AL.Impl AL.Gen AL.Lemmas AL.Spec.X86

def kw0 : Keywords := Keywords.mk false false false false false false false
def hex0 : Hex := Hex.mk 0 0 0 false false false 0

/-- the record `lexLine` produces for `mov <r64>, <number>`: table row 109 (`mov r, imm`), the register's name and code,
    the number, and whether the spelling allows narrowing under SMART -/
def movRec (name : Str) (g : Nat) (v : Nat) (b : Bool) : Instr :=
  Instr.mk 109 [109, 111, 118] (Operand.mk name g [] 32 114) (Operand.mk [] 32 [] 32 105) (Operand.mk [] 32 [] 32 0) (Operand.mk [] 0 [] 0 0) kw0 b true false v false false false false false false 0 0 0 192 0 hex0 0 0

/-- second half of the per-line pipeline on a lexed record: branch/register resolution, encoding, byte emission -/
def lineBytes (opt : Nat) (s : Instr) : Option Bytes :=
  match resolveLine opt s with
  | .ok s' => some (assembleAsm s')
  | .error _ => none

/-- is `mov r64, imm` narrowed to the 32-bit register?  (NASM: always; SMART: unless the spelling forbids it; STRICT: never) -/
def narrows (opt : Nat) (b : Bool) : Bool := if opt &&& 2 != 0 then b else opt &&& 1 != 0

/-- the three encodings of `mov r64, v` the library chooses between (n = register number 0..15) -/
def movBytes (n v : Nat) (nar : Bool) : Bytes :=
  if 0xffffffff80000000 ≤ v then [0x48 + n / 8, 0xc7, 0xc0 + n % 8] ++ leBytes 4 (v % 2 ^ 32)
  else if v ≤ 0xffffffff then
    if nar then (if n ≥ 8 then [0x41] else []) ++ [0xb8 + n % 8] ++ leBytes 4 v
    else if v < 0x80000000 then [0x48 + n / 8, 0xc7, 0xc0 + n % 8] ++ leBytes 4 v
    else [0x48 + n / 8, 0xb8 + n % 8] ++ leBytes 8 v
  else [0x48 + n / 8, 0xb8 + n % 8] ++ leBytes 8 v

def regs64 : List (Nat × Str × Nat) :=
  [(0, str! "rax", 1024), (1, str! "rcx", 1025), (2, str! "rdx", 1026), (3, str! "rbx", 1027), (4, str! "rsp", 1028), (5, str! "rbp", 1029),
   (6, str! "rsi", 1030), (7, str! "rdi", 1031), (8, str! "r8", 1160), (9, str! "r9", 1161), (10, str! "r10", 1162), (11, str! "r11", 1163),
   (12, str! "r12", 1164), (13, str! "r13", 1165), (14, str! "r14", 1166), (15, str! "r15", 1167)]

theorem row109 : rowAt 109 = { name := [], id := 72, fmt0 := 8, fmt1 := 7, enc := 505, type := 1, opOffI := 1, singleReg := 4294967295, size := 2, opcode := [262144, 2097328, 0, 0, 0, 0, 0, 0, 0, 0, 0, 0, 0, 0, 0] } := by decide +kernel
theorem row110 : rowAt 110 = { name := [], id := 72, fmt0 := -1, fmt1 := -1, enc := 504, type := 1, opOffI := 1, singleReg := 0, size := 3, opcode := [262144, 198, 131072, 0, 0, 0, 0, 0, 0, 0, 0, 0, 0, 0, 0] } := by decide +kernel

theorem bit31 (v : Nat) : (v &&& 2147483648 != 0) = decide (2147483648 ≤ v % 4294967296) := by
  have := and_two_pow_ne_zero v 31
  simp only [show (2 : Nat) ^ 31 = 2147483648 by decide, show (2 : Nat) ^ (31 + 1) = 4294967296 by decide] at this
  cases h : (v &&& 2147483648 != 0)
  · symm; rw [decide_eq_false_iff_not]; intro hc; have := this.2 hc; rw [h] at this; exact Bool.noConfusion this
  · symm; rw [decide_eq_true_eq]; exact this.1 h

theorem low32 (v : Nat) : v &&& 4294967295 = v % 4294967296 := by
  have := Nat.and_two_pow_sub_one_eq_mod v 32
  simpa using this

theorem effNasm_eq (opt : Nat) (s : Instr) : effNasm opt s = narrows opt s.narrowOk := by
  simp [effNasm, narrows, band, c_SMART_MOV_IMM, c_NASM_MOV_IMM]

macro "mov_resolve" : tactic => `(tactic|
  simp [lineBytes, resolveLine, resolveBranch, selectShort, resolveRest, checkRegistersFail, branch32, encodeIfRegs, pushAdjust,
    encodeOffset, encodeImm, immSelectAcc, immByClass, immTruncate, encodeImmDataTransfer, dtNeg32, dtSelect, dtOpOffset, effNasm_eq,
    nasmRegisterSizeOptimize, encodeOperands, xchgAdjust, movzxAdjust, dispatchEnc, encodeSpecialOpd, setRex, getRexPrefix, opd0WidthMode,
    encodeMem, getReg, noBaseAdjust, noBaseFires, getRegFinish, getOpcodeOffset, noRegister, Instr.setOpd,
    Instr.opd, movRec, kw0, hex0, typeIs, nameIs, row109, row110, inR, band, Keywords.any, bit31, low32,
    c_CONTROL_FLOW, c_S, c_NO_BYTE, c_reg_error, c_reg_none, c_NEG32BIT, c_NEG64BIT, c_push, c_SHIFT, c_OPERATION, c_MODE_MASK,
    c_mmx64, c_PAD_ALWAYS, c_DATA_TRANSFER, c_VALUE_MASK, c_NEG32BIT_CHECK, c_reg64, c_MAX_UNSIGNED_32BIT, c_noext8, c_I, c_BIT_8,
    c_reg32, c_ext32, c_ext64, c_reg16, c_xchg, c_movzx, c_MR, c_RM, c_RVM, c_RMV, c_M, c_O, c_spl, c_REG_RB, c_rex_, c_rex_w, c_rex_b, c_REX_W_RXB,
    c_SMART_MOV_IMM, c_NASM_MOV_IMM, c_MODE_CLEAR, c_REG_MASK, c_MOD24, c_MOD16, c_MOD8, *])

macro "mov_emit" : tactic => `(tactic|
  simp [assembleAsm, assembleInstr, assembleSlots, emitSlot, row109, row110, assembleMemDisp, c_BIT_MASK, c_BIT_16, c_GET_EN, c_REX, c_REG, c_VEX,
    c_ib, c_rd, c_NO_BYTE])

theorem zp109 (s : Instr) (hk : s.key = 109) (hb : s.kw.isByte = false) (ho : s.opOffset = 8) (hm : s.memDisp = false)
    (hg : s.opd0.reg &&& 1920 > 512) : zeroPads s = true := by
  simp [zeroPads, hk, row109, opd0WidthMode, hb, ho, hm, c_CONTROL_FLOW, c_MODE_MASK, c_noext8]
  omega


theorem zp110 (s : Instr) (hk : s.key = 110) (hb : s.kw.isByte = false) (ho : s.opOffset = 1) (hm : s.memDisp = false)
    (hg : s.opd0.reg &&& 1920 > 512) : zeroPads s = true := by
  simp [zeroPads, hk, row110, opd0WidthMode, hb, ho, hm, c_CONTROL_FLOW, c_MODE_MASK, c_noext8]
  omega

macro "side" : tactic => `(tactic| first
  | rfl | decide | assumption | omega
  | (simp [checkZero, row109, row110, c_DATA_TRANSFER, c_I, c_MODE_MASK, c_reg64, c_ext64]; done)
  | (simp [is16, opd0WidthMode, c_MODE_MASK, c_reg16, c_ext16]; done)
  | (apply zp109 <;> first | rfl | (simp; done))
  | (apply zp110 <;> first | rfl | (simp; done))
  | (exact Or.inl (by assumption))
  | (refine Or.inr ⟨by assumption, ?_⟩
     simp [checkZero, row109, c_DATA_TRANSFER, c_I, c_MODE_MASK, c_reg64, c_ext64, inR, c_NEG32BIT_CHECK, c_MAX_UNSIGNED_32BIT, *]; done)
  | (simp; omega) | (simp; done))

set_option maxHeartbeats 4000000 in
/-- v ≥ 2^64 − 2^31: `REX.W C7 /0 simm32` -/
theorem leafD (n : Nat) (name : Str) (g : Nat) (hp : (n, name, g) ∈ regs64) (v : Nat) (b : Bool) (opt : Nat) (h64 : v < 2 ^ 64)
    (hD : 0xffffffff80000000 ≤ v) :
    lineBytes opt (movRec name g v b) = some ([0x48 + n / 8, 0xc7, 0xc0 + n % 8] ++ leBytes 4 (v % 2 ^ 32)) := by
  have h1 : ¬ v ≤ 4294967295 := by omega
  have h2 : 18446744069414584321 ≤ v := by omega
  have h3 : v ≤ 18446744073709551615 := by omega
  have h4 : 2147483648 ≤ v % 4294967296 := by omega
  have h5 : v % 4294967296 ≠ 0 := by omega
  have h6 : 256 ^ (4 - 1) ≤ v % 4294967296 := by omega
  have h7 : v % 4294967296 < 256 ^ 4 := by omega
  simp only [regs64, List.mem_cons, Prod.mk.injEq, List.not_mem_nil, or_false] at hp
  rcases hp with ⟨rfl, rfl, rfl⟩ | ⟨rfl, rfl, rfl⟩ | ⟨rfl, rfl, rfl⟩ | ⟨rfl, rfl, rfl⟩ | ⟨rfl, rfl, rfl⟩ | ⟨rfl, rfl, rfl⟩ | ⟨rfl, rfl, rfl⟩ | ⟨rfl, rfl, rfl⟩ | ⟨rfl, rfl, rfl⟩ | ⟨rfl, rfl, rfl⟩ | ⟨rfl, rfl, rfl⟩ | ⟨rfl, rfl, rfl⟩ | ⟨rfl, rfl, rfl⟩ | ⟨rfl, rfl, rfl⟩ | ⟨rfl, rfl, rfl⟩ | ⟨rfl, rfl, rfl⟩
  all_goals (mov_resolve; mov_emit; rw [assembleImm_reduced (n := 4)] <;> side)

set_option maxHeartbeats 4000000 in
/-- 2^32 ≤ v < 2^64 − 2^31: `REX.W B8+r imm64` -/
theorem leafC (n : Nat) (name : Str) (g : Nat) (hp : (n, name, g) ∈ regs64) (v : Nat) (b : Bool) (opt : Nat) (h64 : v < 2 ^ 64)
    (hD : ¬ 0xffffffff80000000 ≤ v) (hC : 0xffffffff < v) :
    lineBytes opt (movRec name g v b) = some ([0x48 + n / 8, 0xb8 + n % 8] ++ leBytes 8 v) := by
  have h1 : ¬ v ≤ 4294967295 := by omega
  have h3 : v ≤ 18446744073709551615 := by omega
  have hC' : 4294967295 < v := hC
  by_cases hE : 18446744069414584321 ≤ v
  · have h4 : ¬ 2147483648 ≤ v % 4294967296 := by omega
    simp only [regs64, List.mem_cons, Prod.mk.injEq, List.not_mem_nil, or_false] at hp
    rcases hp with ⟨rfl, rfl, rfl⟩ | ⟨rfl, rfl, rfl⟩ | ⟨rfl, rfl, rfl⟩ | ⟨rfl, rfl, rfl⟩ | ⟨rfl, rfl, rfl⟩ | ⟨rfl, rfl, rfl⟩ | ⟨rfl, rfl, rfl⟩ | ⟨rfl, rfl, rfl⟩ | ⟨rfl, rfl, rfl⟩ | ⟨rfl, rfl, rfl⟩ | ⟨rfl, rfl, rfl⟩ | ⟨rfl, rfl, rfl⟩ | ⟨rfl, rfl, rfl⟩ | ⟨rfl, rfl, rfl⟩ | ⟨rfl, rfl, rfl⟩ | ⟨rfl, rfl, rfl⟩
    all_goals (mov_resolve; mov_emit; rw [assembleImm_qword] <;> side)
  · simp only [regs64, List.mem_cons, Prod.mk.injEq, List.not_mem_nil, or_false] at hp
    rcases hp with ⟨rfl, rfl, rfl⟩ | ⟨rfl, rfl, rfl⟩ | ⟨rfl, rfl, rfl⟩ | ⟨rfl, rfl, rfl⟩ | ⟨rfl, rfl, rfl⟩ | ⟨rfl, rfl, rfl⟩ | ⟨rfl, rfl, rfl⟩ | ⟨rfl, rfl, rfl⟩ | ⟨rfl, rfl, rfl⟩ | ⟨rfl, rfl, rfl⟩ | ⟨rfl, rfl, rfl⟩ | ⟨rfl, rfl, rfl⟩ | ⟨rfl, rfl, rfl⟩ | ⟨rfl, rfl, rfl⟩ | ⟨rfl, rfl, rfl⟩ | ⟨rfl, rfl, rfl⟩
    all_goals (mov_resolve; mov_emit; rw [assembleImm_qword] <;> side)

set_option maxHeartbeats 4000000 in
/-- 2^31 ≤ v < 2^32, not narrowed: `REX.W B8+r imm64` (a 32-bit immediate would be sign-extended) -/
theorem leafB (n : Nat) (name : Str) (g : Nat) (hp : (n, name, g) ∈ regs64) (v : Nat) (b : Bool) (opt : Nat) (h64 : v < 2 ^ 64)
    (h1 : v ≤ 0xffffffff) (h5 : 0x80000000 ≤ v) (hn : narrows opt b = false) :
    lineBytes opt (movRec name g v b) = some ([0x48 + n / 8, 0xb8 + n % 8] ++ leBytes 8 v) := by
  have h1' : v ≤ 4294967295 := h1
  have h2 : ¬ 18446744069414584321 ≤ v := by omega
  have h5' : 2147483648 ≤ v := h5
  have h6 : ¬ v < 2147483648 := by omega
  simp only [regs64, List.mem_cons, Prod.mk.injEq, List.not_mem_nil, or_false] at hp
  rcases hp with ⟨rfl, rfl, rfl⟩ | ⟨rfl, rfl, rfl⟩ | ⟨rfl, rfl, rfl⟩ | ⟨rfl, rfl, rfl⟩ | ⟨rfl, rfl, rfl⟩ | ⟨rfl, rfl, rfl⟩ | ⟨rfl, rfl, rfl⟩ | ⟨rfl, rfl, rfl⟩ | ⟨rfl, rfl, rfl⟩ | ⟨rfl, rfl, rfl⟩ | ⟨rfl, rfl, rfl⟩ | ⟨rfl, rfl, rfl⟩ | ⟨rfl, rfl, rfl⟩ | ⟨rfl, rfl, rfl⟩ | ⟨rfl, rfl, rfl⟩ | ⟨rfl, rfl, rfl⟩
  all_goals (mov_resolve; mov_emit; rw [assembleImm_qword] <;> side)

set_option maxHeartbeats 4000000 in
/-- v < 2^31, not narrowed: `REX.W C7 /0 imm32` -/
theorem leafA (n : Nat) (name : Str) (g : Nat) (hp : (n, name, g) ∈ regs64) (v : Nat) (b : Bool) (opt : Nat)
    (hB : v < 0x80000000) (hn : narrows opt b = false) :
    lineBytes opt (movRec name g v b) = some ([0x48 + n / 8, 0xc7, 0xc0 + n % 8] ++ leBytes 4 v) := by
  have h1 : v ≤ 4294967295 := by omega
  have h2 : ¬ 18446744069414584321 ≤ v := by omega
  have hB' : v < 2147483648 := hB
  simp only [regs64, List.mem_cons, Prod.mk.injEq, List.not_mem_nil, or_false] at hp
  rcases hp with ⟨rfl, rfl, rfl⟩ | ⟨rfl, rfl, rfl⟩ | ⟨rfl, rfl, rfl⟩ | ⟨rfl, rfl, rfl⟩ | ⟨rfl, rfl, rfl⟩ | ⟨rfl, rfl, rfl⟩ | ⟨rfl, rfl, rfl⟩ | ⟨rfl, rfl, rfl⟩ | ⟨rfl, rfl, rfl⟩ | ⟨rfl, rfl, rfl⟩ | ⟨rfl, rfl, rfl⟩ | ⟨rfl, rfl, rfl⟩ | ⟨rfl, rfl, rfl⟩ | ⟨rfl, rfl, rfl⟩ | ⟨rfl, rfl, rfl⟩ | ⟨rfl, rfl, rfl⟩
  all_goals (mov_resolve; mov_emit; rw [assembleImm_dword] <;> side)

set_option maxHeartbeats 4000000 in
/-- v < 2^32, narrowed: `B8+r imm32` on the 32-bit register (the upper half is cleared) -/
theorem leafN (n : Nat) (name : Str) (g : Nat) (hp : (n, name, g) ∈ regs64) (v : Nat) (b : Bool) (opt : Nat)
    (h1 : v ≤ 0xffffffff) (hn : narrows opt b = true) :
    lineBytes opt (movRec name g v b) = some ((if n ≥ 8 then [0x41] else []) ++ [0xb8 + n % 8] ++ leBytes 4 v) := by
  have h1' : v ≤ 4294967295 := h1
  have h2 : ¬ 18446744069414584321 ≤ v := by omega
  simp only [regs64, List.mem_cons, Prod.mk.injEq, List.not_mem_nil, or_false] at hp
  rcases hp with ⟨rfl, rfl, rfl⟩ | ⟨rfl, rfl, rfl⟩ | ⟨rfl, rfl, rfl⟩ | ⟨rfl, rfl, rfl⟩ | ⟨rfl, rfl, rfl⟩ | ⟨rfl, rfl, rfl⟩ | ⟨rfl, rfl, rfl⟩ | ⟨rfl, rfl, rfl⟩ | ⟨rfl, rfl, rfl⟩ | ⟨rfl, rfl, rfl⟩ | ⟨rfl, rfl, rfl⟩ | ⟨rfl, rfl, rfl⟩ | ⟨rfl, rfl, rfl⟩ | ⟨rfl, rfl, rfl⟩ | ⟨rfl, rfl, rfl⟩ | ⟨rfl, rfl, rfl⟩
  all_goals (mov_resolve; mov_emit; rw [assembleImm_dword] <;> side)

/-- **`mov r64, v` at the record level**: for each of the 16 registers, EVERY value v < 2^64, every option byte and either
    spelling class, the second half of the per-line pipeline emits exactly `movBytes` -/
theorem mov_bytes (n : Nat) (name : Str) (g : Nat) (hp : (n, name, g) ∈ regs64) (v : Nat) (b : Bool) (opt : Nat) (h64 : v < 2 ^ 64) :
    lineBytes opt (movRec name g v b) = some (movBytes n v (narrows opt b)) := by
  unfold movBytes
  by_cases hD : 0xffffffff80000000 ≤ v
  · simp only [hD, if_true]; exact leafD n name g hp v b opt h64 hD
  · simp only [hD, if_false]
    by_cases hC : v ≤ 0xffffffff
    · simp only [hC, if_true]
      cases hn : narrows opt b
      · simp only [Bool.false_eq_true, if_false]
        by_cases hB : v < 0x80000000
        · simp only [hB, if_true]; exact leafA n name g hp v b opt hB hn
        · simp only [hB, if_false]; exact leafB n name g hp v b opt h64 hC (by omega) hn
      · simp only [if_true]; exact leafN n name g hp v b opt hC hn
    · simp only [hC, if_false]; exact leafC n name g hp v b opt h64 hD (by omega)

end AL.Lemmas.MovImm
