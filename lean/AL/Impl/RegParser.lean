/-
  AL.Impl.RegParser — src/reg_parser.c, function by function.
-/
import AL.Impl.CStr
import AL.Gen.Tables
namespace AL.Impl
open AL AL.Gen

def isDigit (c : Ch) : Bool := ch! '0' ≤ c && c ≤ ch! '9'
def isLower (c : Ch) : Bool := ch! 'a' ≤ c && c ≤ ch! 'z'

/-- `find_add_mem(mem, &neg, &base)`: loop body for index `i`, scanning forward.
    State: `firstNum` is always false at the top of an iteration (it is reset at the bottom). -/
def findAddMemGo (mem : Str) (len : Nat) (neg : Bool) (base : Nat) (fuel i : Nat) :
    Option Nat × Bool × Nat :=
  match fuel with
  | 0 => (none, neg, base)
  | fuel + 1 =>
    if i ≥ len then (none, neg, base) else
    let firstNum := isDigit (chAt mem i) && (chAt mem (i - 1) == ch! '-' || chAt mem (i - 1) == ch! '+')
    let base := if firstNum && isDigit (chAt mem (i + 1)) then 10 else base
    let firstNum := if firstNum && chAt mem (i + 1) == ch! '*' then false else firstNum
    let before2 : Ch := if i ≥ 2 then chAt mem (i - 2) else 0
    if firstNum && chAt mem (i - 1) == ch! '-' && before2 != ch! '[' then (some i, true, base)
    else if firstNum && chAt mem (i - 1) == ch! '+' then (some i, neg, base)
    else findAddMemGo mem len neg base fuel (i + 1)

/-- returns (index or NA, neg, base) -/
def findAddMem (mem : Str) (neg : Bool) : Option Nat × Bool × Nat :=
  findAddMemGo mem mem.length neg 16 mem.length 1

def findMemConstGo (mem : Str) (len : Nat) (neg : Bool) (base : Nat) (fuel i : Nat) :
    Option Nat × Bool × Nat :=
  match fuel with
  | 0 => (none, neg, base)
  | fuel + 1 =>
    if i ≥ len then (none, neg, base) else
    let c := chAt mem i
    if c == ch! '[' then
      if chAt mem (i + 1) == ch! '-' then
        let base := if isDigit (chAt mem (i + 2)) && chAt mem (i + 3) != ch! 'x' then 10 else base
        (some (i + 2), true, base)
      else if chAt mem (i + 1) == ch! '0' && chAt mem (i + 2) == ch! 'x' then (some (i + 1), neg, base)
      else if isDigit (chAt mem (i + 1)) && chAt mem (i + 2) != ch! '*' then (some (i + 1), neg, 10)
      else findMemConstGo mem len neg base fuel (i + 1)
    else if c == 32 then findMemConstGo mem len neg base fuel (i + 1)
    else (none, neg, base)

def findMemConst (mem : Str) (neg : Bool) (base : Nat) : Option Nat × Bool × Nat :=
  findMemConstGo mem mem.length neg base mem.length 0

/-- `process_neg_disp` on a `uint32_t`. -/
def processNegDisp (x : Nat) : Nat :=
  let nd := (2 ^ 32 - x % 2 ^ 32) % 2 ^ 32
  if x < 0x81 then nd % 256 else nd

/-- `get_reg_str`: the register token copied into `char reg[6]` (at most 5 characters). -/
def getRegStrGo (s : Str) (prev : Ch) (first : Bool) (acc : Str) (j : Nat) : Str → Str
  | [] => acc.reverse
  | c :: cs =>
    if c == ch! '*' then acc.reverse
    else if !first && c == ch! 'x' && prev == ch! '0' then acc.reverse
    else if j > 0 then
      if isLower c || isDigit c then
        if j + 1 > 4 then (c :: acc).reverse else getRegStrGo s c false (c :: acc) (j + 1) cs
      else acc.reverse
    else if isLower c then
      -- j < 1: first letter; (j > 4 cannot hold yet)
      getRegStrGo s c false (c :: acc) 1 cs
    else getRegStrGo s c false acc j cs

def getRegStr (s : Str) : Str := getRegStrGo s 0 true [] 0 s

/-- `check_sib_disp`: `none` = EXIT_FAILURE, `some d` = new sib_disp. -/
def checkSibDisp (scale next : Ch) : Option Nat :=
  if next != ch! ']' && next != ch! '+' && next != ch! '-' && next != ch! '[' then none
  else if scale == ch! '1' then some c_SIB
  else if scale == ch! '2' then some c_SIB2
  else if scale == ch! '4' then some c_SIB4
  else if scale == ch! '8' then some c_SIB8
  else none

/-- `copy_index_reg`: characters copied (≤ 5) and the index `j` after them. -/
def copyIndexReg (mem : Str) (j : Nat) : Str × Nat :=
  let run := ((mem.drop j).takeWhile (fun c => (ch! 'a' ≤ c && c ≤ ch! 'z') || isDigit c)).take 5
  (run, j + run.length)

/-- loop of `get_index_reg`; result: `none` = failure, `some (sibDisp, sibStr)`. -/
def getIndexRegGo (mem : Str) (len : Nat) (plus multiply : Bool) (sibDisp : Nat)
    (fuel i : Nat) : Option (Nat × Str) :=
  match fuel with
  | 0 => some (sibDisp, [])
  | fuel + 1 =>
    if i ≥ len then some (sibDisp, []) else
    let c := chAt mem i
    if (multiply || plus) && isLower c then
      let (reg, j) := copyIndexReg mem i
      if sibDisp != 0 && chAt mem j == ch! '*' then none
      else if sibDisp == 0 && chAt mem j == ch! '*' then
        match checkSibDisp (chAt mem (j + 1)) (chAt mem (j + 2)) with
        | none => none
        | some d => some (d, reg)
      else some (sibDisp, reg)
    else
      let plus := c == ch! '+'
      if c == ch! '*' && i > 1 then
        match checkSibDisp (chAt mem (i - 1)) (chAt mem (i - 2)) with
        | none => none
        | some d => getIndexRegGo mem len plus true d fuel (i + 1)
      else getIndexRegGo mem len plus multiply sibDisp fuel (i + 1)

/-- the `strchr` tests of `get_index_reg` (fix 5a09eff): exactly one `[`, and the first `]` is the last character -/
def oneBracketPair (mem : Str) : Bool :=
  (mem.filter (· == ch! '[')).length == 1 && mem.idxOf (ch! ']') == mem.length - 1

/-- `get_index_reg(instruc, mem, reg)`: `none` = EXIT_FAILURE. -/
def getIndexReg (mem : Str) : Option (Nat × Str) :=
  if mem.isEmpty then none
  else if chAt mem (mem.length - 1) != ch! ']' then none
  else if !oneBracketPair mem then none
  else getIndexRegGo mem mem.length false false c_SIB mem.length 0

/-- `get_operand_type`. -/
def getOperandType (opd : Str) : Ch :=
  match opd.dropWhile (· == 32) with
  | [] => ch! 'e'
  | c :: _ =>
    if c == ch! '[' then ch! 'm'
    else if ch! 'a' ≤ c && c ≤ ch! 's' then ch! 'r'
    else if c == ch! 'x' then ch! 'v'
    else if c == ch! 'y' then ch! 'y'
    else if isDigit c then ch! 'i'
    else if ch! '-' ≤ c && c < 128 then ch! 'i'
    else ch! 'e'

/-- `find_reg(row, col, reg_str)` over the regenerated `REG_TABLE`. -/
def findRegGo (col : Nat) (reg : Str) : List (Nat × List Str) → Nat
  | [] => c_reg_error
  | (gen, conv) :: rest =>
    let name := conv.getD col []
    if name.isEmpty then c_reg_error
    else if name == reg then gen
    else findRegGo col reg rest

def findReg (row col : Nat) (reg : Str) : Nat := findRegGo col reg (regTable.drop row)

/-- `str_to_reg`. -/
def strToReg (reg : Str) : Nat :=
  match reg with
  | [] => c_reg_none
  | r0 :: _ =>
    let fin := chAt reg (reg.length - 1)
    let r1 := chAt reg 1
    if r0 == ch! 'r' then
      if isLower r1 then c_reg64 ||| findReg 0 4 reg
      else if isDigit r1 && fin == ch! 'd' then c_ext32 ||| findReg 8 3 reg
      else if isDigit r1 && fin == ch! 'w' then c_ext16 ||| findReg 8 2 reg
      else if isDigit r1 && fin == ch! 'b' then c_ext8 ||| findReg 8 0 reg
      else c_ext64 ||| findReg 8 4 reg
    else if r0 == ch! 'm' then c_mmx64 ||| findReg 16 4 reg
    else if r0 == ch! 'x' then c_mmx64 ||| findReg 16 5 reg
    else if r0 == ch! 'y' then c_mmx64 ||| findReg 16 6 reg
    else if r0 == ch! 'e' then c_reg32 ||| findReg 0 3 reg
    else if fin == ch! 'l' then c_reg8 ||| findReg 0 0 reg
    else if fin == ch! 'h' then c_noext8 ||| findReg 4 1 reg
    else if fin == ch! 'x' || fin == ch! 'p' || fin == ch! 'i' then c_reg16 ||| findReg 0 2 reg
    else c_reg_error

end AL.Impl
