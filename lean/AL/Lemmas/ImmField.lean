/-
  AL.Lemmas.ImmField — what `assemble_imm` emits, for EVERY value of the constant, in terms of the
  facts the encoder has established about the record (no concrete instruction needed):
   * `assembleImm_dword`   — a constant ≤ 0xffffffff that is neither reduced nor marked for the 8-byte
                             form, under a zero-padding opcode, is emitted as its 4-byte little-endian
                             encoding (zero included);
   * `assembleImm_qword`   — a constant > 0xffffffff, or one in 0x80000000..0xffffffff with the 8-byte
                             mark (`check_zero`, only mov r64, imm64), is emitted as its 8-byte encoding;
   * `assembleImm_reduced` — a reduced constant is emitted as exactly the bytes it needs, and those are
                             all n bytes when its top byte is set.
  With `leVal_leBytes` (AL.Spec.X86Lemmas) the decoder reads the constant back from each of them.
-/
import AL.Lemmas.ConstBytes
namespace AL.Lemmas
open AL AL.Impl AL.Gen AL.Spec.X86

/-- the zero-padding condition of assemble_imm for the row and operand of `s` -/
def zeroPads (s : Instr) : Bool :=
  let row := rowAt s.key
  (((row.type != c_CONTROL_FLOW && s.opOffset != 3 && !s.kw.isByte) && opd0WidthMode s > c_noext8) ||
   (row.enc > c_I) || (row.type == c_PAD_ALWAYS))

def is16 (s : Instr) : Bool := opd0WidthMode s == c_reg16 || opd0WidthMode s == c_ext16

theorem p4 : (256 : Nat) ^ 4 = 4294967296 := by decide
theorem p8 : (256 : Nat) ^ 8 = 18446744073709551616 := by decide

theorem immPad_eq (s : Instr) (hr : s.reducedImm = false) (hb : s.kw.isByte = false) (hp : zeroPads s = true) (bytes : Nat) :
    immPad s bytes = if bytes ≤ 4 && !(bytes == 1 && is16 s) then 4 - bytes
                     else if bytes > 4 && bytes ≤ 8 then 8 - bytes else bytes := by
  unfold immPad
  unfold zeroPads at hp
  unfold is16
  dsimp only at hp ⊢
  rw [hb] at hp
  simp only [hr, hb, Bool.or_self, Bool.false_eq_true, if_false, Bool.not_false, Bool.and_true] at hp ⊢
  simp only [hp, Bool.not_true, Bool.false_eq_true, if_false]

/-- core bytes: the constant's bytes plus the extra zero for 0 (or for the 8-byte mark) -/
theorem immCore_eq (s : Instr) (hb : s.kw.isByte = false) :
    immCore s = assembleConst s.cons ++ (if s.cons == 0 || checkZero s s.cons (rowAt s.key).type then [0] else []) := by
  unfold immCore
  simp only [hb, Bool.false_eq_true, if_false]
  split <;> simp

theorem assembleImm_dword (s : Instr) (hi : s.imm = true) (hb : s.kw.isByte = false) (hr : s.reducedImm = false)
    (hc : s.cons ≤ 0xffffffff) (hz : checkZero s s.cons (rowAt s.key).type = false) (hp : zeroPads s = true)
    (h16 : is16 s = false) :
    assembleImm s = leBytes 4 s.cons := by
  unfold assembleImm
  simp only [hi, Bool.not_true, Bool.false_eq_true, if_false]
  rw [immCore_eq s hb, hz, Bool.or_false]
  have hlen := assembleConst_length_le s.cons 4 (by rw [p4]; omega)
  have hpad : ∀ bytes, bytes ≤ 4 → immPad s bytes = 4 - bytes := by
    intro bytes hle
    rw [immPad_eq s hr hb hp, h16]
    simp [hle]
  by_cases h0 : s.cons = 0
  · simp only [h0, beq_self_eq_true, if_true]
    have : assembleConst 0 = [] := rfl
    rw [this]
    simp only [List.nil_append, List.length_singleton]
    rw [hpad 1 (by decide), leBytes_zero]
    rfl
  · have h0' : (s.cons == 0) = false := by simp [h0]
    simp only [h0', Bool.false_eq_true, if_false, List.append_nil]
    rw [hpad _ hlen]
    exact assembleConst_pad s.cons 4 (by rw [p4]; omega) (by decide)

theorem assembleImm_qword (s : Instr) (hi : s.imm = true) (hb : s.kw.isByte = false) (hr : s.reducedImm = false)
    (h64 : s.cons < 2 ^ 64) (hp : zeroPads s = true)
    (hc : 0xffffffff < s.cons ∨ (0x80000000 ≤ s.cons ∧ checkZero s s.cons (rowAt s.key).type = true)) :
    assembleImm s = leBytes 8 s.cons := by
  unfold assembleImm
  simp only [hi, Bool.not_true, Bool.false_eq_true, if_false]
  rw [immCore_eq s hb]
  have h0' : (s.cons == 0) = false := by
    rw [beq_eq_false_iff_ne]; rcases hc with h | h <;> omega
  have hle8 := assembleConst_length_le s.cons 8 (by rw [p8]; omega)
  have hpad : ∀ bytes, 4 < bytes → bytes ≤ 8 → immPad s bytes = 8 - bytes := by
    intro bytes hgt hle
    rw [immPad_eq s hr hb hp]
    have h4 : ¬ bytes ≤ 4 := by omega
    simp [h4, hgt, hle]
  have hpadded := assembleConst_pad s.cons 8 (by rw [p8]; omega) (by decide)
  rcases hc with hgt | ⟨hge, hcz⟩
  · -- more than four bytes anyway
    have hz : checkZero s s.cons (rowAt s.key).type = false := by
      unfold checkZero
      dsimp only
      split
      · rfl
      · split
        · rfl
        · have : inR s.cons c_NEG32BIT_CHECK c_MAX_UNSIGNED_32BIT = false := by
            unfold inR; simp; intro _; exact hgt
          simp [this]
    have hlen5 : 4 < (assembleConst s.cons).length := by
      have hfit := assembleConstGo_fits 8 s.cons (by rw [p8]; omega)
      by_cases h : 4 < (assembleConst s.cons).length
      · exact h
      · exfalso
        have : 256 ^ (assembleConstGo 8 s.cons).length ≤ 256 ^ 4 := Nat.pow_le_pow_right (by decide) (by unfold assembleConst at h; omega)
        rw [p4] at this
        omega
    simp only [h0', hz, Bool.or_self, Bool.false_eq_true, if_false, List.append_nil]
    rw [hpad _ hlen5 hle8]
    exact hpadded
  · -- exactly four bytes plus the mark
    by_cases hgt : 0xffffffff < s.cons
    · exact absurd hcz (by
        have : inR s.cons c_NEG32BIT_CHECK c_MAX_UNSIGNED_32BIT = false := by
          unfold inR; simp; intro _; exact hgt
        unfold checkZero; dsimp only; split
        · simp
        · split
          · simp
          · simp [this])
    · have hlen4 : (assembleConst s.cons).length = 4 :=
        assembleConst_full s.cons 4 (by show 256 ^ 3 ≤ s.cons; have : (256 : Nat) ^ 3 = 16777216 := by decide
                                        omega) (by rw [p4]; omega) (by decide) (by decide)
      simp only [h0', hcz, Bool.or_true, if_true, List.length_append, List.length_singleton, hlen4]
      rw [hpad 5 (by decide) (by decide)]
      rw [← hpadded, hlen4]
      simp [List.replicate_succ]

theorem assembleImm_reduced (s : Instr) (hi : s.imm = true) (hb : s.kw.isByte = false) (hr : s.reducedImm = true)
    (h0 : s.cons ≠ 0) (hz : checkZero s s.cons (rowAt s.key).type = false) (n : Nat)
    (hlo : 256 ^ (n - 1) ≤ s.cons) (hhi : s.cons < 256 ^ n) (hn : 0 < n) (h8 : n ≤ 8) :
    assembleImm s = leBytes n s.cons := by
  unfold assembleImm
  simp only [hi, Bool.not_true, Bool.false_eq_true, if_false]
  rw [immCore_eq s hb, hz]
  have h0' : (s.cons == 0) = false := by simp [h0]
  simp only [h0', Bool.or_self, Bool.false_eq_true, if_false, List.append_nil]
  have : immPad s (assembleConst s.cons).length = 0 := by
    unfold immPad; simp [hr]
  rw [this]
  have hlen := assembleConst_full s.cons n hlo hhi hn h8
  have hp := assembleConst_pad s.cons n hhi h8
  rw [hlen] at hp
  simpa using hp

end AL.Lemmas
