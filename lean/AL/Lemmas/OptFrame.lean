/-
  AL.Lemmas.OptFrame — where the option byte matters.  In the model the option byte is a
  parameter of exactly the functions that (transitively) read it; the lexer has no such parameter,
  so lexing is option-independent by construction.  The lemmas below show that the readers —
  encode_mem's swap, get_reg's no-base rule, encode_imm_data_transfer, check_zero — return the same
  result for any two option bytes unless their guard fires.
-/
import AL.Impl.Line
namespace AL.Lemmas
open AL AL.Impl AL.Gen

/-- the swap of encode_mem cannot fire for operand `mi`: its index is not an unscaled stack pointer -/
def SwapOff (s : Instr) (mi : Nat) : Prop :=
  ¬ (((s.opd mi).index &&& c_REG_MASK) = c_spl ∧ s.sibDisp = 0)

theorem swapFires_off (o : Nat) (s : Instr) (mi : Nat) (h : SwapOff s mi) : swapFires o s mi = false := by
  unfold swapFires
  cases hh : (band o c_NASM_SIB_INDEX_BASE_SWAP && ((s.opd mi).index &&& c_REG_MASK) == c_spl && s.sibDisp == 0) with
  | false => rfl
  | true =>
    simp only [Bool.and_eq_true, beq_iff_eq] at hh
    exact absurd ⟨hh.1.2, hh.2⟩ h

theorem encodeMem_indep (o1 o2 : Nat) (s : Instr) (mi : Nat) (h : SwapOff s mi) :
    encodeMem o1 s mi = encodeMem o2 s mi := by
  unfold encodeMem
  rw [swapFires_off o1 s mi h, swapFires_off o2 s mi h]

theorem opd_setOpd_same (s : Instr) (i : Nat) (o : Operand) (hi : i < 4) : (s.setOpd i o).opd i = o := by
  match i, hi with
  | 0, _ => rfl
  | 1, _ => rfl
  | 2, _ => rfl
  | 3, _ => rfl

theorem setAddrPrefixes_opd (s : Instr) (m : Operand) (i : Nat) : (setAddrPrefixes s m).opd i = s.opd i := by
  unfold setAddrPrefixes
  dsimp only
  split <;> split <;> rfl

theorem markSibConst_opd (s : Instr) (m : Operand) (i : Nat) : (markSibConst s m).opd i = s.opd i := by
  unfold markSibConst; split <;> rfl

theorem zeroDispFix_opd (s : Instr) (m : Operand) (i : Nat) : (zeroDispFix s m).opd i = s.opd i := by
  unfold zeroDispFix; split <;> (try rfl); dsimp only; split <;> rfl

/-- without a swap, encode_mem leaves the memory operand itself alone -/
theorem encodeMemCore_opd (s : Instr) (mi : Nat) (hi : mi < 4) : (encodeMemCore s mi false).opd mi = s.opd mi := by
  unfold encodeMemCore swapOperand
  simp only [Bool.false_eq_true, if_false]
  rw [zeroDispFix_opd, markSibConst_opd, opd_setOpd_same _ _ _ hi]

theorem encodeMem_opd (o : Nat) (s : Instr) (mi : Nat) (hi : mi < 4) (h : SwapOff s mi) :
    (encodeMem o s mi).1.opd mi = s.opd mi := by
  unfold encodeMem
  split
  · rfl
  · rw [swapFires_off o s mi h]; exact encodeMemCore_opd s mi hi

/-- the no-base rule of get_reg cannot fire for operand `m`: it has a base, or no index either -/
def BaseOn (m : Operand) : Prop := noBaseFires m = false

theorem noBaseAdjust_indep (o1 o2 : Nat) (s : Instr) (m : Operand) (h : BaseOn m) :
    noBaseAdjust o1 s m = noBaseAdjust o2 s m := by
  unfold noBaseAdjust
  have h' : noBaseFires m = false := h
  simp only [h', Bool.false_eq_true, if_false]

theorem getReg_indep (o1 o2 : Nat) (s : Instr) (mi r : Nat) (h : BaseOn (s.opd mi)) :
    getReg o1 s mi r = getReg o2 s mi r := by
  unfold getReg
  rw [noBaseAdjust_indep o1 o2 s _ h]

theorem autoSetOperand_opd (s : Instr) (r i : Nat) : (autoSetOperand s r).opd i = s.opd i := by
  unfold autoSetOperand
  split
  · rfl
  · split
    · rfl
    · split
      · rfl
      · split <;> rfl

/-- the memory operand `mi` of the record can trigger neither option-dependent rewriting -/
def MemPlain (s : Instr) (mi : Nat) : Prop := SwapOff s mi ∧ BaseOn (s.opd mi)

theorem encodeTwoOpds_indep (o1 o2 : Nat) (s : Instr) (r m : Nat) (hm : m < 4) (h : MemPlain s m) :
    encodeTwoOpds o1 s r m = encodeTwoOpds o2 s r m := by
  unfold encodeTwoOpds
  rw [encodeMem_indep o1 o2 s m h.1]
  dsimp only
  have hb : BaseOn ((if (encodeMem o2 s m).2 = true then
      autoSetOperand (encodeMem o2 s m).1 (((encodeMem o2 s m).1.opd r).reg) else (encodeMem o2 s m).1).opd m) := by
    have e := encodeMem_opd o2 s m hm h.1
    split
    · rw [autoSetOperand_opd, e]; exact h.2
    · rw [e]; exact h.2
  rw [getReg_indep o1 o2 _ m _ hb]

theorem encodeThreeOpds_indep (o1 o2 : Nat) (s : Instr) (r m v : Nat) (hm : m < 4) (h : MemPlain s m) :
    encodeThreeOpds o1 s r m v = encodeThreeOpds o2 s r m v := by
  unfold encodeThreeOpds
  rw [encodeMem_indep o1 o2 s m h.1]
  dsimp only
  have hb : BaseOn (({ (if (encodeMem o2 s m).2 = true then
      autoSetOperand (encodeMem o2 s m).1 (((encodeMem o2 s m).1.opd r).reg) else (encodeMem o2 s m).1) with
      hex := { (if (encodeMem o2 s m).2 = true then
        autoSetOperand (encodeMem o2 s m).1 (((encodeMem o2 s m).1.opd r).reg) else (encodeMem o2 s m).1).hex with
        vvvv := ((if (encodeMem o2 s m).2 = true then
          autoSetOperand (encodeMem o2 s m).1 (((encodeMem o2 s m).1.opd r).reg) else (encodeMem o2 s m).1).opd v).reg &&& c_MASK_4BIT } } : Instr).opd m) := by
    have e := encodeMem_opd o2 s m hm h.1
    show BaseOn ((if (encodeMem o2 s m).2 = true then
      autoSetOperand (encodeMem o2 s m).1 (((encodeMem o2 s m).1.opd r).reg) else (encodeMem o2 s m).1).opd m)
    split
    · rw [autoSetOperand_opd, e]; exact h.2
    · rw [e]; exact h.2
  rw [getReg_indep o1 o2 _ m _ hb]


/-! ### encode_special_opd, the dispatcher -/

theorem farAdjust_opd (s : Instr) (r i : Nat) : (farAdjust s r).1.opd i = s.opd i := by
  unfold farAdjust
  split
  · dsimp only; split <;> rfl
  · rfl

theorem rexBExt_opd (s : Instr) (m i : Nat) : (rexBExt s m).opd i = s.opd i := by
  unfold rexBExt; split <;> rfl

theorem encodeSpecialOpd_indep (o1 o2 : Nat) (s : Instr) (m i : Nat) (hm : m < 4) (h : MemPlain s m) :
    encodeSpecialOpd o1 s m i = encodeSpecialOpd o2 s m i := by
  unfold encodeSpecialOpd
  have e := encodeMem_opd o2 s m hm h.1
  rw [encodeMem_indep o1 o2 s m h.1]
  dsimp only
  split
  · have hb : BaseOn ((encodeMem o2 s m).1.opd m) := by rw [e]; exact h.2
    rw [getReg_indep o1 o2 _ m _ hb]
  · split
    · have hb : BaseOn ((farAdjust (encodeMem o2 s m).1 (rowAt s.key).singleReg).1.opd m) := by
        rw [farAdjust_opd, e]; exact h.2
      rw [getReg_indep o1 o2 _ m _ hb]
    · rfl

/-- same operands and addressing facts -/
def AddrSame (a b : Instr) : Prop :=
  a.opd0 = b.opd0 ∧ a.opd1 = b.opd1 ∧ a.opd2 = b.opd2 ∧ a.opd3 = b.opd3 ∧ a.sibDisp = b.sibDisp ∧
  a.memDisp = b.memDisp

theorem AddrSame.refl (a : Instr) : AddrSame a a := ⟨rfl, rfl, rfl, rfl, rfl, rfl⟩

theorem AddrSame.trans {a b c : Instr} (h1 : AddrSame a b) (h2 : AddrSame b c) : AddrSame a c :=
  ⟨h1.1.trans h2.1, h1.2.1.trans h2.2.1, h1.2.2.1.trans h2.2.2.1, h1.2.2.2.1.trans h2.2.2.2.1,
   h1.2.2.2.2.1.trans h2.2.2.2.2.1, h1.2.2.2.2.2.trans h2.2.2.2.2.2⟩

theorem AddrSame.opd {a b : Instr} (h : AddrSame a b) (i : Nat) : a.opd i = b.opd i := by
  unfold Instr.opd
  split
  · exact h.1
  · exact h.2.1
  · exact h.2.2.1
  · exact h.2.2.2.1
  · rfl

/-- no operand of the record can trigger the swap or the no-base rule -/
def Plain (s : Instr) : Prop := ∀ i, i < 4 → MemPlain s i

theorem Plain.of_same {a b : Instr} (h : AddrSame a b) (hb : Plain b) : Plain a := by
  intro i hi
  have := hb i hi
  unfold MemPlain SwapOff at *
  rw [h.opd i, h.2.2.2.2.1]
  exact this

theorem encodeImmNonDataTransfer_same (s : Instr) : AddrSame (encodeImmNonDataTransfer s) s := by
  unfold encodeImmNonDataTransfer
  dsimp only
  repeat' split
  all_goals exact ⟨rfl, rfl, rfl, rfl, rfl, rfl⟩

theorem encodeImmOperation_same (s : Instr) : AddrSame (encodeImmOperation s) s := by
  unfold encodeImmOperation
  dsimp only
  repeat' split
  all_goals exact ⟨rfl, rfl, rfl, rfl, rfl, rfl⟩

theorem encodeOffset_same (s : Instr) : AddrSame (encodeOffset s) s := by
  unfold encodeOffset
  repeat' split
  all_goals exact ⟨rfl, rfl, rfl, rfl, rfl, rfl⟩

theorem autoSetByte_same (s : Instr) : AddrSame (autoSetByte s) s := by
  unfold autoSetByte
  split <;> exact ⟨rfl, rfl, rfl, rfl, rfl, rfl⟩

theorem immSelectAcc_same (s : Instr) : AddrSame (immSelectAcc s) s := by
  unfold immSelectAcc
  split
  · exact encodeImmOperation_same s
  · exact AddrSame.refl s

theorem immTruncate_same (s : Instr) : AddrSame (immTruncate s) s := by
  unfold immTruncate
  dsimp only
  repeat' split
  all_goals exact ⟨rfl, rfl, rfl, rfl, rfl, rfl⟩

/-! ### the mov-immediate option -/

/-- the data-transfer immediate step cannot depend on the mov-immediate option: the destination is
    memory, or a register narrower than 64 bits (whose row is the `b0+rd`/`b8+rd` one) -/
def DtPlain (s : Instr) : Prop :=
  s.memDisp = true ∨
  (((s.opd0.reg &&& c_MODE_MASK) < c_reg64 ∨ c_MAX_UNSIGNED_32BIT < s.cons) ∧
   ((rowAt s.key).enc = c_I ∨ (s.opd0.reg &&& c_MODE_MASK) ≤ c_noext8))

theorem nasmRegisterSizeOptimize_narrow (s : Instr) (h : (s.opd0.reg &&& c_MODE_MASK) < c_reg64) :
    nasmRegisterSizeOptimize s = s := by
  unfold nasmRegisterSizeOptimize
  have h1 : ((s.opd0.reg &&& c_MODE_MASK) == c_reg64) = false := by
    rw [beq_eq_false_iff_ne]; intro e; rw [e] at h; exact Nat.lt_irrefl _ h
  have h2 : ((s.opd0.reg &&& c_MODE_MASK) == c_ext64) = false := by
    rw [beq_eq_false_iff_ne]; intro e; rw [e] at h; exact absurd h (by decide)
  simp only [h1, h2, Bool.false_eq_true, if_false]


theorem dtSelect_key (b : Bool) (s : Instr)
    (h : (s.opd0.reg &&& c_MODE_MASK) < c_reg64 ∨ c_MAX_UNSIGNED_32BIT < s.cons)
    (hm : s.memDisp = false) : dtSelect b s = s := by
  unfold dtSelect
  rcases h with h | h
  · have hge : (decide ((s.opd0.reg &&& c_MODE_MASK) ≥ c_reg64)) = false := by
      rw [decide_eq_false_iff_not]; exact Nat.not_le.mpr h
    rw [nasmRegisterSizeOptimize_narrow s h]
    simp only [hm, hge, Bool.and_false, Bool.or_false, Bool.false_eq_true, if_false, ite_self]
  · rw [if_neg (Nat.not_le.mpr h)]

theorem dtSelect_indep (b1 b2 : Bool) (s : Instr)
    (h : s.memDisp = true ∨ (s.opd0.reg &&& c_MODE_MASK) < c_reg64 ∨ c_MAX_UNSIGNED_32BIT < s.cons) :
    dtSelect b1 s = dtSelect b2 s := by
  cases hmd : s.memDisp with
  | true =>
    unfold dtSelect
    simp only [hmd, Bool.not_true, Bool.and_false, Bool.false_eq_true, if_false]
  | false =>
    rcases h with hm | h
    · rw [hmd] at hm; exact absurd hm (by decide)
    · rw [dtSelect_key b1 s h hmd, dtSelect_key b2 s h hmd]

theorem nasmRegisterSizeOptimize_memDisp (s : Instr) : (nasmRegisterSizeOptimize s).memDisp = s.memDisp := by
  unfold nasmRegisterSizeOptimize
  dsimp only
  repeat' split
  all_goals rfl

theorem dtSelect_memDisp (b : Bool) (s : Instr) : (dtSelect b s).memDisp = s.memDisp := by
  unfold dtSelect
  repeat' split
  all_goals first | rfl | exact nasmRegisterSizeOptimize_memDisp s

theorem dtOpOffset_indep (b1 b2 : Bool) (s : Instr)
    (h : s.memDisp = true ∨ (rowAt s.key).enc = c_I ∨ (s.opd0.reg &&& c_MODE_MASK) ≤ c_noext8) :
    dtOpOffset b1 s = dtOpOffset b2 s := by
  unfold dtOpOffset
  rcases h with hm | hI | hle
  · simp only [hm, Bool.not_true, Bool.and_false, Bool.false_or]
  · have hI' : ((rowAt s.key).enc == c_I) = true := by rw [hI]; rfl
    simp only [hI', Bool.or_true]
  · have hgt : (decide ((s.opd0.reg &&& c_MODE_MASK) > c_noext8)) = false := by
      rw [decide_eq_false_iff_not]; exact Nat.not_lt.mpr hle
    simp only [hgt, Bool.false_and]

/-- facts about `dtNeg32`: only `cons`/`reducedImm` change, and the plain-ness condition survives -/
theorem dtNeg32_facts (x : Instr) :
    (dtNeg32 x).opd0 = x.opd0 ∧ (dtNeg32 x).memDisp = x.memDisp ∧ (dtNeg32 x).key = x.key ∧
    (dtNeg32 x).narrowOk = x.narrowOk ∧ AddrSame (dtNeg32 x) x ∧
    (((x.opd0.reg &&& c_MODE_MASK) < c_reg64 ∨ c_MAX_UNSIGNED_32BIT < x.cons) →
     ((dtNeg32 x).opd0.reg &&& c_MODE_MASK) < c_reg64 ∨ c_MAX_UNSIGNED_32BIT < (dtNeg32 x).cons) := by
  unfold dtNeg32
  dsimp only
  split
  · rename_i hc
    refine ⟨rfl, rfl, rfl, rfl, ⟨rfl, rfl, rfl, rfl, rfl, rfl⟩, fun _ => Or.inl ?_⟩
    simp only [Bool.and_eq_true, Bool.or_eq_true, beq_iff_eq] at hc
    rcases hc.2 with h32 | h32
    · show (x.opd0.reg &&& c_MODE_MASK) < c_reg64
      rw [h32]; decide
    · show (x.opd0.reg &&& c_MODE_MASK) < c_reg64
      rw [h32]; decide
  · exact ⟨rfl, rfl, rfl, rfl, AddrSame.refl x, fun h => h⟩

theorem effNasm_congr (o : Nat) (a b : Instr) (h : a.narrowOk = b.narrowOk) : effNasm o a = effNasm o b := by
  unfold effNasm; rw [h]

theorem encodeImmDataTransfer_indep (o1 o2 : Nat) (s : Instr) (h : DtPlain s) :
    encodeImmDataTransfer o1 s = encodeImmDataTransfer o2 s := by
  unfold encodeImmDataTransfer
  dsimp only
  split
  · rfl
  split
  · rfl
  · generalize hx : ({ s with rdOffset := s.opd0.reg &&& c_VALUE_MASK } : Instr) = x0
    have hx0' : x0.opd0 = s.opd0 := by rw [← hx]
    have hxm' : x0.memDisp = s.memDisp := by rw [← hx]
    have hxk' : x0.key = s.key := by rw [← hx]
    have hxc' : x0.cons = s.cons := by rw [← hx]
    obtain ⟨f0, fm, fk, _, _, fp⟩ := dtNeg32_facts x0
    generalize dtNeg32 x0 = x at f0 fm fk fp
    have hx0 : x.opd0 = s.opd0 := f0.trans hx0'
    have hxm : x.memDisp = s.memDisp := fm.trans hxm'
    have hxk : x.key = s.key := fk.trans hxk'
    cases hmd : s.memDisp with
    | true =>
      rw [dtSelect_indep (effNasm o1 x) (effNasm o2 x) x (Or.inl (hxm.trans hmd))]
      exact dtOpOffset_indep _ _ _ (Or.inl ((dtSelect_memDisp _ x).trans (hxm.trans hmd)))
    | false =>
      rcases h with hm | ⟨hlt, hrow⟩
      · rw [hmd] at hm; exact absurd hm (by decide)
      · have hlt' : (x.opd0.reg &&& c_MODE_MASK) < c_reg64 ∨ c_MAX_UNSIGNED_32BIT < x.cons := by
          apply fp; rw [hx0', hxc']; exact hlt
        rw [dtSelect_key _ x hlt' (hxm.trans hmd), dtSelect_key _ x hlt' (hxm.trans hmd)]
        apply dtOpOffset_indep
        right
        rw [hxk, hx0]
        exact hrow

theorem dtSelect_same (b : Bool) (s : Instr)
    (h : s.memDisp = true ∨ (s.opd0.reg &&& c_MODE_MASK) < c_reg64 ∨ c_MAX_UNSIGNED_32BIT < s.cons) :
    AddrSame (dtSelect b s) s := by
  cases hm : s.memDisp with
  | false =>
    rcases h with h | h
    · rw [hm] at h; exact absurd h (by decide)
    · rw [dtSelect_key b s h hm]; exact AddrSame.refl s
  | true =>
    rw [dtSelect_indep b false s (Or.inl hm)]
    unfold dtSelect
    simp only [Bool.false_and, Bool.false_eq_true, if_false]
    repeat' split
    all_goals exact ⟨rfl, rfl, rfl, rfl, rfl, rfl⟩

theorem dtOpOffset_same (b : Bool) (s : Instr) : AddrSame (dtOpOffset b s) s := by
  unfold dtOpOffset
  split <;> exact ⟨rfl, rfl, rfl, rfl, rfl, rfl⟩

theorem encodeImmDataTransfer_same (o : Nat) (s : Instr) (h : DtPlain s) :
    AddrSame (encodeImmDataTransfer o s) s := by
  unfold encodeImmDataTransfer
  dsimp only
  split
  · exact ⟨rfl, rfl, rfl, rfl, rfl, rfl⟩
  split
  · exact ⟨rfl, rfl, rfl, rfl, rfl, rfl⟩
  · generalize hx : ({ s with rdOffset := s.opd0.reg &&& c_VALUE_MASK } : Instr) = x0
    have hxs : AddrSame x0 s := by rw [← hx]; exact ⟨rfl, rfl, rfl, rfl, rfl, rfl⟩
    have hx0' : x0.opd0 = s.opd0 := by rw [← hx]
    have hxm' : x0.memDisp = s.memDisp := by rw [← hx]
    have hxc' : x0.cons = s.cons := by rw [← hx]
    obtain ⟨_, fm, _, _, fs, fp⟩ := dtNeg32_facts x0
    have h' : (dtNeg32 x0).memDisp = true ∨ ((dtNeg32 x0).opd0.reg &&& c_MODE_MASK) < c_reg64 ∨
        c_MAX_UNSIGNED_32BIT < (dtNeg32 x0).cons := by
      rcases h with h | h
      · exact Or.inl (fm.trans (hxm'.trans h))
      · exact Or.inr (fp (by rw [hx0', hxc']; exact h.1))
    exact (dtOpOffset_same _ _).trans ((dtSelect_same _ _ h').trans (fs.trans hxs))

/-- the class step of encode_imm does not read the mov-immediate option, or reads it where it
    cannot matter -/
def ClassPlain (s : Instr) : Prop := typeIs s.key c_DATA_TRANSFER = false ∨ DtPlain s

theorem immByClass_indep (o1 o2 : Nat) (s : Instr) (h : ClassPlain s) : immByClass o1 s = immByClass o2 s := by
  unfold immByClass
  dsimp only
  split
  · rfl
  · split
    · rfl
    · split
      · rfl
      · split
        · rename_i hdt
          rcases h with h | h
          · rw [h] at hdt; exact absurd hdt (by decide)
          · exact encodeImmDataTransfer_indep o1 o2 s h
        · rfl

theorem immByClass_same (o : Nat) (s : Instr) (h : ClassPlain s) : AddrSame (immByClass o s) s := by
  unfold immByClass
  dsimp only
  split
  · exact ⟨rfl, rfl, rfl, rfl, rfl, rfl⟩
  · split
    · split <;> split <;> exact ⟨rfl, rfl, rfl, rfl, rfl, rfl⟩
    · split
      · exact encodeImmNonDataTransfer_same s
      · split
        · rename_i hdt
          rcases h with h | h
          · rw [h] at hdt; exact absurd hdt (by decide)
          · exact encodeImmDataTransfer_same o s h
        · exact AddrSame.refl s

/-- encode_imm cannot depend on the mov-immediate option for this record -/
def ImmPlain (s : Instr) : Prop := s.imm = false ∨ ClassPlain (immSelectAcc s)

theorem encodeImm_indep (o1 o2 : Nat) (s : Instr) (h : ImmPlain s) : encodeImm o1 s = encodeImm o2 s := by
  unfold encodeImm
  rcases h with h | h
  · simp only [h, Bool.not_false, if_true]
  · split
    · rfl
    · split
      · rfl
      · split
        · rfl
        · rw [immByClass_indep o1 o2 _ h]

theorem encodeImm_same (o : Nat) (s : Instr) (h : ImmPlain s) : AddrSame (encodeImm o s) s := by
  unfold encodeImm
  split
  · exact AddrSame.refl s
  · split
    · exact ⟨rfl, rfl, rfl, rfl, rfl, rfl⟩
    · split
      · exact ⟨rfl, rfl, rfl, rfl, rfl, rfl⟩
      · rename_i hi _ _
        rcases h with h | h
        · rw [h] at hi; exact absurd rfl hi
        · exact (immTruncate_same _).trans ((immByClass_same o _ h).trans (immSelectAcc_same s))

/-! ### xchg, the dispatcher, encode_operands -/

theorem xchgAdjust_plain (s : Instr) (h : Plain s) : Plain (xchgAdjust s) := by
  unfold xchgAdjust
  split
  · dsimp only
    have h0 := h 0 (by decide)
    have h1 := h 1 (by decide)
    have h2 := h 2 (by decide)
    have h3 := h 3 (by decide)
    split
    · intro i hi
      match i, hi with
      | 0, _ => exact h1
      | 1, _ => exact h0
      | 2, _ => exact h2
      | 3, _ => exact h3
    · split
      · intro i hi
        match i, hi with
        | 0, _ => exact h0
        | 1, _ => exact h1
        | 2, _ => exact h2
        | 3, _ => exact h3
      · intro i hi
        match i, hi with
        | 0, _ => exact h0
        | 1, _ => exact h1
        | 2, _ => exact h2
        | 3, _ => exact h3
  · exact h

theorem movzxAdjust_same (s : Instr) : AddrSame (movzxAdjust s) s := by
  unfold movzxAdjust
  dsimp only
  repeat' split
  all_goals exact ⟨rfl, rfl, rfl, rfl, rfl, rfl⟩

theorem dispatchEnc_indep (o1 o2 : Nat) (s : Instr) (h : Plain s) : dispatchEnc o1 s = dispatchEnc o2 s := by
  unfold dispatchEnc
  dsimp only
  split
  · exact encodeTwoOpds_indep o1 o2 s 1 0 (by decide) (h 0 (by decide))
  · split
    · exact encodeTwoOpds_indep o1 o2 s 0 1 (by decide) (h 1 (by decide))
    · split
      · exact encodeThreeOpds_indep o1 o2 s 0 2 1 (by decide) (h 2 (by decide))
      · split
        · exact encodeThreeOpds_indep o1 o2 s 0 1 2 (by decide) (h 1 (by decide))
        · exact encodeSpecialOpd_indep o1 o2 s 0 1 (by decide) (h 0 (by decide))

theorem encodeOperands_indep (o1 o2 : Nat) (s : Instr) (h : Plain s) :
    encodeOperands o1 s = encodeOperands o2 s := by
  unfold encodeOperands
  dsimp only
  apply dispatchEnc_indep
  split
  · exact Plain.of_same ((autoSetByte_same _).trans (movzxAdjust_same _)) (xchgAdjust_plain s h)
  · exact Plain.of_same (movzxAdjust_same _) (xchgAdjust_plain s h)

end AL.Lemmas
