/*
 * apidrv — line-protocol driver over the REAL library (linked from /repo/src of the
 * current working tree).  The Lean model driver (lean/Driver.lean) speaks the same
 * protocol; alv.py diffs the two output streams.
 *
 * One operation per input line, exactly one output line per operation.
 *   L <opt> <hex>            fresh-state single call on the scratch instance:
 *                            opt = mov(0 strict,1 nasm,2 smart) + 4*swap + 8*nobase
 *                            -> "<rc> <offset> <hex of buffer[0,offset)> <hex of dirty bytes behind it>"
 *   N <id> <len> <fill>      create instance on a caller buffer (len bytes, filled with
 *                            byte <fill>, guarded on both sides);  "N <id> -" = internal
 *   S <id> <setter> <val>    setter in mov sib swap nobase all
 *   K <id> <n>               asm_set_chunk_size
 *   O <id> <k>               asm_set_offset
 *   A <id> <hex>             asm_assemble_str            -> "<rc> <offset>"
 *   C <id> <c> <hex> <d>     ..._string_counting_chunks  -> "<rc> <offset> <dest>"
 *                            (d=0 passes dest=NULL and prints dest as -)
 *   G <id>                   asm_get_offset
 *   D <id> <from> <to>       bytes [from,to) of the code buffer
 *   M <id>                   whole caller buffer + "ok"/"BAD" for the guard regions
 *   B <id>                   buffer length as the library sees it (internal: growth)
 *   X <id>                   call the code buffer as a function, print rax in hex (oracle runs only)
 *   R <id> <path> <content>  asm_assemble_file (the model reads <content>: hex, "-" empty, "missing")
 *   U <id> <c> <path> <content> <d>   asm_assemble_file_counting_chunks
 *   W <id> <path> <ok|bad|stale>   asm_create_bin_file ("stale": the path already holds a longer file) -> "<rc> <hex of the file | nofile>" (the file is removed)
 *   F <id>                   asm_destroy_instance
 * Text is hex-encoded ("-" = empty) so that any byte except NUL can be sent.
 */
#define _GNU_SOURCE 1
#include <assemblyline.h>
#include <stdio.h>
#include <sys/resource.h>
#include <stdlib.h>
#include <string.h>
#include <stdint.h>
#include <sys/mman.h>
#include <unistd.h>
#include <fcntl.h>

#define MAXI 16
#define GUARD 64
#define GUARDBYTE 0xA5
#define SCRATCH 1024

struct assemblyline_peek { /* mirror of the first fields of struct assemblyline */
  uint8_t *buffer;
  int buffer_len;
};

static assemblyline_t inst[MAXI];
static uint8_t *raw[MAXI]; /* guard + buffer + guard, NULL for internal */
static int blen[MAXI];

static uint8_t scratch_raw[GUARD + SCRATCH + GUARD];
static assemblyline_t scratch;

/* put an inaccessible page directly behind an internal instance's mapping, so that the next
   growth cannot extend it in place: mremap() then has to MOVE the buffer, which makes any use of a
   stale buffer pointer deterministic (SIGSEGV on the unmapped old region) */
static void block_behind(assemblyline_t al) {
  struct assemblyline_peek *pk = (struct assemblyline_peek *)al;
  uintptr_t end = (uintptr_t)pk->buffer + (uintptr_t)pk->buffer_len;
  end = (end + 4095) & ~(uintptr_t)4095;
#ifdef MAP_FIXED_NOREPLACE
  mmap((void *)end, 4096, PROT_NONE, MAP_PRIVATE | MAP_ANONYMOUS | MAP_FIXED_NOREPLACE, -1, 0);
#endif
}

static int hexval(int c) {
  if (c >= '0' && c <= '9') return c - '0';
  if (c >= 'a' && c <= 'f') return c - 'a' + 10;
  if (c >= 'A' && c <= 'F') return c - 'A' + 10;
  return -1;
}

/* decode hex token into a fresh NUL-terminated heap string */
static char *unhex(const char *h) {
  size_t n = strlen(h);
  if (n == 1 && h[0] == '-') { char *e = malloc(1); e[0] = 0; return e; }
  char *out = malloc(n / 2 + 1);
  size_t k = 0;
  for (size_t i = 0; i + 1 < n; i += 2)
    out[k++] = (char)(hexval(h[i]) * 16 + hexval(h[i + 1]));
  out[k] = 0;
  return out;
}

static void puthex(const uint8_t *p, long n) {
  if (n <= 0) { fputs("-", stdout); return; }
  for (long i = 0; i < n; i++) printf("%02x", p[i]);
}

static int guards_ok(const uint8_t *r, int len) {
  for (int i = 0; i < GUARD; i++)
    if (r[i] != GUARDBYTE || r[GUARD + len + i] != GUARDBYTE) return 0;
  return 1;
}

static void set_opt(assemblyline_t al, int opt) {
  asm_mov_imm(al, (enum asm_opt)(opt & 3));
  asm_sib_index_base_swap(al, (opt & 4) ? NASM : STRICT);
  asm_sib_no_base(al, (opt & 8) ? NASM : STRICT);
}

/* the debug listing of the library (asm_set_debug) goes to stdout, which carries this harness's protocol: while an instance with
   the listing switched on is inside a library call, file descriptor 1 points to /dev/null */
static int dbg[MAXI];
static int saved_out = -1;
static void mute_begin(int id) {
  if (!dbg[id]) return;
  fflush(stdout);
  saved_out = dup(1);
  int dn = open("/dev/null", O_WRONLY);
  dup2(dn, 1);
  close(dn);
}
static void mute_end(int id) {
  if (!dbg[id] || saved_out < 0) return;
  fflush(stdout);
  dup2(saved_out, 1);
  close(saved_out);
  saved_out = -1;
}

int main(void) {
  char *line = NULL;
  size_t cap = 0;
  ssize_t got;
  memset(scratch_raw, GUARDBYTE, sizeof scratch_raw);
  scratch = asm_create_instance(scratch_raw + GUARD, SCRATCH);
  while ((got = getline(&line, &cap, stdin)) != -1) {
    while (got > 0 && (line[got - 1] == '\n' || line[got - 1] == '\r')) line[--got] = 0;
    if (got == 0) continue;
    char *save = NULL;
    char *op = strtok_r(line, " ", &save);
    if (op[0] == 'T' || op[0] == 'Y') { /* model-side table ops: nothing to do here */
      puts("ok");
      continue;
    }
    if (op[0] == 'L') {
      int opt = atoi(strtok_r(NULL, " ", &save));
      char *txt = unhex(strtok_r(NULL, " ", &save));
      uint8_t *b = scratch_raw + GUARD;
      memset(b, 0xCC, SCRATCH);
      set_opt(scratch, opt);
      asm_set_chunk_size(scratch, 0);
      asm_set_offset(scratch, 0);
      int rc = asm_assemble_str(scratch, txt);
      int off = asm_get_offset(scratch);
      /* code = buffer[0, offset); then what the call left behind the final offset, up to
         the last byte that differs from the 0xCC fill ("-" when nothing) */
      long start = (rc == 0 && off >= 0 && off <= SCRATCH) ? off : 0;
      long last = SCRATCH;
      while (last > start && b[last - 1] == 0xCC) last--;
      printf("%d %d ", rc, off);
      puthex(b, start);
      putchar(' ');
      puthex(b + start, last - start);
      printf("%s\n", guards_ok(scratch_raw, SCRATCH) ? "" : " GUARD-BAD");
      free(txt);
      continue;
    }
    int id = atoi(strtok_r(NULL, " ", &save));
    if (id < 0 || id >= MAXI) { puts("bad-id"); continue; }
    switch (op[0]) {
    case 'N': {
      char *l = strtok_r(NULL, " ", &save);
      dbg[id] = 0;
      if (l[0] == '-') {
        /* "-" or "-<len>": library-managed buffer; the length argument is documented as irrelevant then */
        raw[id] = NULL; blen[id] = 0;
        inst[id] = asm_create_instance(NULL, atoi(l + 1));
      } else {
        int len = atoi(l);
        int fill = (int)strtol(strtok_r(NULL, " ", &save), NULL, 16);
        raw[id] = malloc((size_t)len + 2 * GUARD);
        memset(raw[id], GUARDBYTE, (size_t)len + 2 * GUARD);
        memset(raw[id] + GUARD, fill, (size_t)len);
        blen[id] = len;
        inst[id] = asm_create_instance(raw[id] + GUARD, len);
      }
      puts(inst[id] ? "ok" : "null");
      break;
    }
    case 'S': {
      char *w = strtok_r(NULL, " ", &save);
      int v = atoi(strtok_r(NULL, " ", &save));
      if (!strcmp(w, "mov")) asm_mov_imm(inst[id], (enum asm_opt)v);
      else if (!strcmp(w, "sib")) asm_sib(inst[id], (enum asm_opt)v);
      else if (!strcmp(w, "swap")) asm_sib_index_base_swap(inst[id], (enum asm_opt)v);
      else if (!strcmp(w, "nobase")) asm_sib_no_base(inst[id], (enum asm_opt)v);
      else if (!strcmp(w, "all")) asm_set_all(inst[id], (enum asm_opt)v);
      puts("ok");
      break;
    }
    case 'V': /* V <id> <0|1>: asm_set_debug */
      dbg[id] = atoi(strtok_r(NULL, " ", &save));
      asm_set_debug(inst[id], dbg[id] != 0);
      puts("ok");
      break;
    case 'K':
      asm_set_chunk_size(inst[id], (size_t)atol(strtok_r(NULL, " ", &save)));
      puts("ok");
      break;
    case 'O':
      asm_set_offset(inst[id], atoi(strtok_r(NULL, " ", &save)));
      puts("ok");
      break;
    case 'A': {
      char *txt = unhex(strtok_r(NULL, " ", &save));
      if (!raw[id]) block_behind(inst[id]);
      mute_begin(id);
      /* (every other call goes through the deprecated alias: it is documented as the same function) */
      static unsigned na;
      int rc = (na++ & 1) ? assemble_str(inst[id], txt) : asm_assemble_str(inst[id], txt);
      mute_end(id);
      printf("%d %d\n", rc, asm_get_offset(inst[id]));
      free(txt);
      break;
    }
    case 'C': {
      int c = atoi(strtok_r(NULL, " ", &save));
      char *txt = unhex(strtok_r(NULL, " ", &save));
      int d = atoi(strtok_r(NULL, " ", &save));
      int dest = -777;
      if (!raw[id]) block_behind(inst[id]);
      mute_begin(id);
      static unsigned nc;
      int rc = (nc++ & 1) ? assemble_string_counting_chunks(inst[id], txt, c, d ? &dest : NULL)
                          : asm_assemble_string_counting_chunks(inst[id], txt, c, d ? &dest : NULL);
      mute_end(id);
      if (d) printf("%d %d %d\n", rc, asm_get_offset(inst[id]), dest);
      else printf("%d %d -\n", rc, asm_get_offset(inst[id]));
      free(txt);
      break;
    }
    case 'R': { /* R <id> <path> <content|missing>: asm_assemble_file (the model gets the content, the library the path) */
      char *path = strtok_r(NULL, " ", &save);
      if (!raw[id]) block_behind(inst[id]);
      mute_begin(id);
      static unsigned nr;
      int rc = (nr++ & 1) ? assemble_file(inst[id], path) : asm_assemble_file(inst[id], path);
      mute_end(id);
      printf("%d %d\n", rc, asm_get_offset(inst[id]));
      break;
    }
    case 'U': { /* U <id> <c> <path> <content|missing> <d>: asm_assemble_file_counting_chunks */
      int c = atoi(strtok_r(NULL, " ", &save));
      char *path = strtok_r(NULL, " ", &save);
      strtok_r(NULL, " ", &save);
      int d = atoi(strtok_r(NULL, " ", &save));
      int dest = -777;
      if (!raw[id]) block_behind(inst[id]);
      mute_begin(id);
      int rc = asm_assemble_file_counting_chunks(inst[id], path, c, d ? &dest : NULL);
      mute_end(id);
      if (d) printf("%d %d %d\n", rc, asm_get_offset(inst[id]), dest);
      else printf("%d %d -\n", rc, asm_get_offset(inst[id]));
      break;
    }
    case 'W': { /* W <id> <path> <ok|bad>: asm_create_bin_file, then the file's contents */
      char *path = strtok_r(NULL, " ", &save);
      char *flag = strtok_r(NULL, " ", &save);
      if (flag && !strcmp(flag, "stale")) {   /* the path already names a longer file */
        FILE *pre = fopen(path, "wb");
        if (pre) { for (int k = 0; k < 4096; k++) fputc(0xEE, pre); fclose(pre); }
      }
      int rc = asm_create_bin_file(inst[id], path);
      printf("%d ", rc);
      FILE *f = fopen(path, "rb");
      if (!f) { puts("nofile"); break; }
      static uint8_t fb[1 << 16];
      size_t g = fread(fb, 1, sizeof fb, f);
      fclose(f);
      remove(path);
      puthex(fb, (long)g);
      putchar('\n');
      break;
    }
    case 'H': { /* H <id> <n>: at most n open descriptors for this process from now on (0: back to the original limit) */
      static struct rlimit orig; static int have = 0;
      struct rlimit rl;
      int n = atoi(strtok_r(NULL, " ", &save));
      if (!have) { getrlimit(RLIMIT_NOFILE, &orig); have = 1; }
      rl = orig;
      if (n > 0 && (rlim_t)n < orig.rlim_cur) rl.rlim_cur = (rlim_t)n;
      setrlimit(RLIMIT_NOFILE, &rl);
      puts("ok");
      break;
    }
    case 'G':
      printf("%d\n", asm_get_offset(inst[id]));
      break;
    case 'D': {
      long from = atol(strtok_r(NULL, " ", &save));
      long to = atol(strtok_r(NULL, " ", &save));
      uint8_t *code = asm_get_code(inst[id]);
      long lim = ((struct assemblyline_peek *)inst[id])->buffer_len; /* never read beyond the buffer */
      if (to > lim) to = lim;
      if (from > to) from = to;
      puthex(code + from, to - from);
      putchar('\n');
      break;
    }
    case 'M':
      if (!raw[id]) { puts("internal"); break; }
      puthex(raw[id] + GUARD, blen[id]);
      printf(" %s\n", guards_ok(raw[id], blen[id]) ? "ok" : "BAD");
      break;
    case 'X': { /* execute the code buffer as uint64_t f(void) (internal instances) */
      uint64_t (*f)(void) = (uint64_t(*)(void))asm_get_code(inst[id]);
      printf("%llx\n", (unsigned long long)f());
      break;
    }
    case 'B':
      printf("%d\n", ((struct assemblyline_peek *)inst[id])->buffer_len);
      break;
    case 'F': {
      int rc = asm_destroy_instance(inst[id]);
      inst[id] = NULL;
      if (raw[id]) { free(raw[id]); raw[id] = NULL; }
      printf("%d\n", rc);
      break;
    }
    default:
      puts("bad-op");
    }
  }
  free(line);
  fflush(stdout);
  return 0;
}
