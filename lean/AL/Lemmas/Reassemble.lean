/-
  AL.Lemmas.Reassemble — `assemble_asm` may be called twice on the same record: chunk fitting assembles an instruction,
  pads, and assembles it again (src/parser.c assemble_with_chunk_fitting).  The only thing a call changes in the record is the
  `ib` slot's mark (`reduced_imm = true`, `cons &= 0xff`, src/assembler.c assemble_instr); that mark is idempotent and
  invisible to every byte emitted before the immediate, so the second call emits the same machine code.  This is what lets
  the parser model hand the fitting loop one byte string per instruction.
-/
import AL.Impl.Assembler
namespace AL.Lemmas
open AL AL.Impl AL.Gen

/-- what the `ib` slot does to the record -/
def ibMark (s : Instr) : Instr := { s with reducedImm := true, cons := s.cons &&& c_MAX_UNSIGNED_8BIT }

theorem and_ff_idem (n : Nat) : (n &&& c_MAX_UNSIGNED_8BIT) &&& c_MAX_UNSIGNED_8BIT = n &&& c_MAX_UNSIGNED_8BIT := by
  rw [Nat.and_assoc]; rfl

theorem ibMark_idem (s : Instr) : ibMark (ibMark s) = ibMark s := by
  unfold ibMark
  simp only [and_ff_idem]

/-- is this slot of the opcode layout the `ib` slot? -/
def isIbSlot (slot : Nat) : Bool :=
  !(slot &&& (2 ^ 32 - 256) == 0) && !(slot &&& c_GET_EN == c_REX) && !(slot &&& c_GET_EN == c_REG) &&
  !(slot &&& c_GET_EN == c_VEX) && (slot &&& c_GET_EN == c_ib)

/-- the bytes a slot emits: a function of the opcode offset, the `hex` fields and `rd_offset` only -/
def slotBytes (row : Row) (s : Instr) (pos slot : Nat) : Bytes := (emitSlot row s pos slot).2

theorem emitSlot_state (row : Row) (s : Instr) (pos slot : Nat) :
    (emitSlot row s pos slot).1 = if isIbSlot slot then ibMark s else s := by
  unfold emitSlot isIbSlot
  dsimp only
  repeat' split
  all_goals simp_all [ibMark]

theorem slotBytes_mark (row : Row) (s : Instr) (pos slot : Nat) :
    slotBytes row (ibMark s) pos slot = slotBytes row s pos slot := by
  unfold slotBytes emitSlot
  dsimp only
  repeat' split
  all_goals first | rfl | simp_all [ibMark]


/-- state and bytes of the slot loop, separately -/
theorem assembleSlots_mark (row : Row) : ∀ (l : List Nat) (s : Instr) (pos : Nat),
    ((assembleSlots row s pos l).1 = s ∨ (assembleSlots row s pos l).1 = ibMark s) ∧
    assembleSlots row (ibMark s) pos l = (ibMark s, (assembleSlots row s pos l).2) := by
  intro l
  induction l with
  | nil => intro s pos; exact ⟨Or.inl rfl, rfl⟩
  | cons slot rest ih =>
    intro s pos
    have hst := emitSlot_state row s pos slot
    have hstm := emitSlot_state row (ibMark s) pos slot
    have hb := slotBytes_mark row s pos slot
    unfold slotBytes at hb
    have e1 : emitSlot row s pos slot = ((emitSlot row s pos slot).1, (emitSlot row s pos slot).2) := rfl
    have e2 : emitSlot row (ibMark s) pos slot = ((emitSlot row (ibMark s) pos slot).1, (emitSlot row (ibMark s) pos slot).2) := rfl
    have hm1 : (emitSlot row (ibMark s) pos slot).1 = ibMark s := by
      rw [hstm]; split
      · exact ibMark_idem s
      · rfl
    by_cases hib : isIbSlot slot = true
    · -- the ib slot: the state becomes ibMark s in both runs
      simp only [hib, if_true] at hst
      obtain ⟨ihs, _⟩ := ih (ibMark s) (pos + 1)
      have hfst : (assembleSlots row (ibMark s) (pos + 1) rest).1 = ibMark s := by
        rcases ihs with h | h
        · exact h
        · rw [h, ibMark_idem]
      constructor
      · right
        show (assembleSlots row s pos (slot :: rest)).1 = ibMark s
        unfold assembleSlots
        rw [e1, hst]
        dsimp only
        exact hfst
      · show assembleSlots row (ibMark s) pos (slot :: rest) = (ibMark s, (assembleSlots row s pos (slot :: rest)).2)
        conv => lhs; unfold assembleSlots
        conv => rhs; unfold assembleSlots
        rw [e2, hm1, hb, e1, hst]
        dsimp only
        rw [hfst]
    · simp only [hib, Bool.false_eq_true, if_false] at hst
      obtain ⟨ihs, ihm⟩ := ih s (pos + 1)
      constructor
      · show (assembleSlots row s pos (slot :: rest)).1 = s ∨ (assembleSlots row s pos (slot :: rest)).1 = ibMark s
        unfold assembleSlots
        rw [e1, hst]
        dsimp only
        exact ihs
      · show assembleSlots row (ibMark s) pos (slot :: rest) = (ibMark s, (assembleSlots row s pos (slot :: rest)).2)
        conv => lhs; unfold assembleSlots
        conv => rhs; unfold assembleSlots
        rw [e2, hm1, hb, e1, hst]
        dsimp only
        rw [ihm]

/-- **`assemble_instr` a second time**: on the record the first call left behind it emits the same bytes and leaves the
    same record -/
theorem assembleInstr_again (s : Instr) :
    assembleInstr (assembleInstr s).1 = ((assembleInstr s).1, (assembleInstr s).2) := by
  have h := assembleSlots_mark (rowAt s.key) ((rowAt s.key).opcode.take (rowAt s.key).size) s 0
  obtain ⟨hs, hm⟩ := h
  have e : (assembleInstr s).1 = (assembleSlots (rowAt s.key) s 0 ((rowAt s.key).opcode.take (rowAt s.key).size)).1 := rfl
  rcases hs with hs | hs
  · rw [e, hs]
    exact Prod.ext (by rw [e, hs]) rfl
  · rw [e, hs]
    unfold assembleInstr
    dsimp only
    have hk : (ibMark s).key = s.key := rfl
    rw [hk, hm]
    rfl

/-- **`assemble_asm` a second time** gives the same machine code -/
theorem assembleAsm_again (s : Instr) : assembleAsm (assembleInstr s).1 = assembleAsm s := by
  unfold assembleAsm
  rw [assembleInstr_again s]

/-- not vacuous: rows with an `ib` slot exist in the regenerated table (the shift/rotate-by-immediate rows and others) -/
example : (instrTable.any fun row => (row.opcode.take row.size).any isIbSlot) = true := by decide +kernel

end AL.Lemmas
