import AL.Impl.Api
import AL.Spec.Api
import AL.Properties.C12
