/-
  AL.Impl.CStr — the libc string functions the parser uses, as total list functions with
  the C semantics that matter here (what `strtok_r` leaves behind, `strtoul` saturation and
  sign handling, `strncpy` truncation, signed `char` comparison).
-/
import AL.Impl.Types
namespace AL.Impl
open AL

open Lean in
/-- `ch! 'a'` is the numeral 97. -/
macro "ch!" c:char : term => return Syntax.mkNumLit (toString c.getChar.toNat)

open Lean in
/-- `str! "ab"` is the list literal `[97, 98]`. -/
macro "str! " s:str : term => do
  let cs : Array (TSyntax `term) :=
    (s.getString.toUTF8.toList.map (fun b => (Syntax.mkNumLit (toString b.toNat) : TSyntax `term))).toArray
  `([$cs,*])

/-- value of a C `char` (signed on x86-64): bytes ≥ 0x80 are negative. -/
def sch (c : Ch) : Int := if c < 128 then (c : Int) else (c : Int) - 256

/-- `IN_RANGE(c, lo, hi)` on plain ASCII bounds for a `char` that is known to be < 128 after
    the filter; written on `Nat` with the explicit `< 128` guard so that it agrees with the
    signed comparison for every byte. -/
def inRange (c lo hi : Nat) : Bool := lo ≤ c && c ≤ hi && c < 128

/-- `s[i]` with C semantics for a NUL-terminated string: the terminator reads as 0.
    Reads beyond the terminator are never modelled by this function (callers that could do
    so are written with explicit guards). -/
def chAt (s : Str) (i : Nat) : Ch := s.getD i 0

def isDelim (ds : List Ch) (c : Ch) : Bool := ds.contains c

/-- `strtok_r(s, delims, &save)` on a fresh string: skip leading delimiters; `none` if nothing
    is left; otherwise the token and what `save` points to afterwards (the text behind the
    delimiter that was overwritten with NUL, or the empty string). -/
def strtok (s : Str) (ds : List Ch) : Option (Str × Str) :=
  let s' := s.dropWhile (isDelim ds)
  match s' with
  | [] => none
  | _ =>
    let tok := s'.takeWhile (fun c => !isDelim ds c)
    let rest := (s'.dropWhile (fun c => !isDelim ds c)).drop 1
    some (tok, rest)

/-- `strtok_r(NULL, "", &save)`: the whole remainder, or NULL when it is empty. -/
def strtokRest (save : Str) : Option Str :=
  match save with
  | [] => none
  | _ => some save

/-- `strncpy(dst, src, n)` into a zero-initialised array of more than `n` bytes. -/
def strncpy (src : Str) (n : Nat) : Str := src.take n

def isPrefix (p s : Str) : Bool := s.take p.length == p

/-- `strstr(s, needle) != NULL`. -/
def contains (s needle : Str) : Bool :=
  match s with
  | [] => needle.isEmpty
  | _ :: t => isPrefix needle s || contains t needle

def digitVal (c : Ch) : Option Nat :=
  if ch! '0' ≤ c && c ≤ ch! '9' then some (c - ch! '0')
  else if ch! 'a' ≤ c && c ≤ ch! 'z' then some (c - ch! 'a' + 10)
  else if ch! 'A' ≤ c && c ≤ ch! 'Z' then some (c - ch! 'A' + 10)
  else none

/-- accumulate digits of `base`: value (unbounded — saturation is applied by the caller), the
    unconsumed rest, and whether any digit was seen -/
def digitsVal (base : Nat) (acc : Nat) (seen : Bool) : Str → Nat × Str × Bool
  | [] => (acc, [], seen)
  | c :: cs =>
    match digitVal c with
    | some d => if d < base then digitsVal base (acc * base + d) true cs else (acc, c :: cs, seen)
    | none => (acc, c :: cs, seen)

def isSpaceC (c : Ch) : Bool := c == 32 || (9 ≤ c && c ≤ 13)

/-- optional sign of a number -/
def stripSign (s : Str) : Bool × Str :=
  match s with
  | 45 :: t => (true, t)     -- '-'
  | 43 :: t => (false, t)    -- '+'
  | _ => (false, s)

/-- "0x"/"0X" prefix, skipped only when a hex digit follows (glibc) -/
def stripHexPrefix (s : Str) : Str :=
  match s with
  | 48 :: x :: t =>
    if (x == ch! 'x' || x == ch! 'X') &&
       (match t with
        | d :: _ => (match digitVal d with | some v => v < 16 | none => false)
        | [] => false) then t else s
  | _ => s

/-- the 64-bit result of the conversion: saturation, then negation modulo 2^64 -/
def strtoulResult (neg : Bool) (v : Nat) : Nat :=
  if v ≥ 2 ^ 64 then 2 ^ 64 - 1 else if neg then (2 ^ 64 - v) % 2 ^ 64 else v

/-- glibc `strtoul(s, &end, base)` for base 10 or 16: the 64-bit result, what `end` points at,
    and whether any digits were converted (`end != s`). -/
def strtoulEnd (s : Str) (base : Nat) : Nat × Str × Bool :=
  let ns := stripSign (s.dropWhile isSpaceC)
  let body := if base == 16 then stripHexPrefix ns.2 else ns.2
  let r := digitsVal base 0 false body
  (strtoulResult ns.1 r.1, r.2.1, r.2.2)

/-- `strtoul(s, NULL, base)` -/
def strtoul (s : Str) (base : Nat) : Nat := (strtoulEnd s base).1

end AL.Impl
