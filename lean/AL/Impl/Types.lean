/-
  AL.Impl.Types — data types of the implementation model.

  Everything is `Nat`/`Int`/`Bool`/`List`: the kernel evaluates `Nat` arithmetic and
  bit operations natively (GMP), `omega` understands `%` and `/` by literals, and no
  Mathlib is needed.  A byte is a `Nat` (< 256 by construction at every emission
  site), a C `char` is a `Nat` in 1..255 (values ≥ 128 are *negative* as `signed char`,
  see `AL.Impl.CStr.sch`).
-/
namespace AL

/-- C `char`/`uint8_t` values and text.  Text never contains NUL. -/
abbrev Ch := Nat
abbrev Str := List Ch
abbrev Bytes := List Nat

/-- One row of `INSTR_TABLE` (src/instructions.h `struct instr_table`), all nine fields,
    numeric values exactly as the C compiler initialised them. -/
structure Row where
  name      : Str        -- instr_name (without NUL)
  id        : Int        -- .name      (asm_instr enumerator, NA = -1 terminates)
  fmt0      : Int        -- opd_format[0]
  fmt1      : Int        -- opd_format[1]
  enc       : Nat        -- encode_operand as the unsigned enum it is (NA = 2^32-1)
  type      : Nat        -- instr_type
  opOffI    : Nat        -- op_offset_i (unsigned; NA = 2^32-1)
  singleReg : Nat        -- single_reg_r as 32-bit two's complement (NA = 2^32-1)
  size      : Nat        -- instr_size
  opcode    : List Nat   -- opcode[0..14], raw slot values
deriving Repr, DecidableEq, Inhabited

/-- `struct operand` without the unused `ptr`. -/
structure Operand where
  str   : Str := []      -- char str[6]
  reg   : Nat := 0       -- asm_reg (bit-or of bit_mode and register number)
  sib   : Str := []      -- char sib[6]
  index : Nat := 0
  type  : Ch  := 0       -- 'r' 'm' 'i' 'v' 'y' 'e' or 0
deriving Repr, DecidableEq, Inhabited

/-- `union keywords` bits. -/
structure Keywords where
  isShort : Bool := false
  isLong  : Bool := false
  isFar   : Bool := false
  isByte  : Bool := false
  isWord  : Bool := false
  isDword : Bool := false
  isQword : Bool := false
deriving Repr, DecidableEq, Inhabited

def Keywords.any (k : Keywords) : Bool :=
  k.isShort || k.isLong || k.isFar || k.isByte || k.isWord || k.isDword || k.isQword

/-- `struct prefix`. -/
structure Hex where
  reg   : Nat  := 0
  rex   : Nat  := 0
  vvvv  : Nat  := 0      -- 4-bit field
  isW0  : Bool := false
  is67  : Bool := false
  is66  : Bool := false
  sib   : Nat  := 0
deriving Repr, DecidableEq, Inhabited

/-- `struct instr` — the per-line record, zero-initialised for every line. -/
structure Instr where
  key         : Int  := 0
  instruction : Str  := []          -- char instruction[15]
  opd0        : Operand := {}
  opd1        : Operand := {}
  opd2        : Operand := {}
  opd3        : Operand := {}
  kw          : Keywords := {}
  narrowOk    : Bool := false       -- an immediate was written in hex with < 18 characters (what the
                                    -- SMART rule of imm_tok looks at; see Impl.effNasm)
  imm         : Bool := false
  reducedImm  : Bool := false
  cons        : Nat  := 0           -- unsigned long  (< 2^64)
  zeroByte    : Bool := false
  memDisp     : Bool := false
  memValue    : Bool := false
  isSibConst  : Bool := false
  isSib       : Bool := false
  noBase      : Bool := false
  memIndex    : Nat  := 0           -- 3-bit field
  memOffset   : Nat  := 0           -- uint32_t
  memConst    : Nat  := 0           -- uint32_t
  modDisp     : Nat  := 0           -- int, always one of 0,0x40,0x80,0xc0
  sibDisp     : Nat  := 0
  hex         : Hex  := {}
  opOffset    : Nat  := 0           -- int, small non-negative
  rdOffset    : Nat  := 0
deriving Repr, DecidableEq, Inhabited

def Instr.opd (s : Instr) (i : Nat) : Operand :=
  match i with
  | 0 => s.opd0 | 1 => s.opd1 | 2 => s.opd2 | 3 => s.opd3
  | _ => {}

def Instr.setOpd (s : Instr) (i : Nat) (o : Operand) : Instr :=
  match i with
  | 0 => { s with opd0 := o } | 1 => { s with opd1 := o }
  | 2 => { s with opd2 := o } | 3 => { s with opd3 := o }
  | _ => s

end AL
