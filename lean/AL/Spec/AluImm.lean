/-
  AL.Spec.AluImm — what a 64-bit CPU reads in the three immediate encodings of the eight "group 1" operations on a 64-bit
  register (Intel SDM vol. 2: ADD/OR/ADC/SBB/AND/SUB/XOR/CMP — `REX.W 83 /n ib`, `REX.W 81 /n id`, `REX.W <8n+5> id` for rax), as
  a small reader of its own, independent of the table-driven reference decoder: used to state "`<op> r64, v` is encoded with an
  immediate field of a legal width that sign-extends to v" for EVERY v that sign-extends from 32 bits.
-/
import AL.Spec.MovImm
namespace AL.Spec.AluImm
open AL AL.Spec.X86 AL.Lemmas AL.Spec.MovImm

/-- sign extension of an 8-bit value to 64 bits -/
def sext8 (x : Nat) : Nat := if x ≥ 2 ^ 7 then x + (2 ^ 64 - 2 ^ 8) else x

/-- the eight operations and their `/digit` (the architecture's assignment, written by hand) -/
def aluOps : List (Str × Nat) :=
  [(str! "add", 0), (str! "or", 1), (str! "adc", 2), (str! "sbb", 3), (str! "and", 4), (str! "sub", 5), (str! "xor", 6), (str! "cmp", 7)]

/-- **what a 64-bit CPU reads**: (operation /digit, register number, the 64-bit immediate operand after sign extension);
    `none` for any other byte string -/
def aluRead (bs : List Nat) : Option (Nat × Nat × Nat) :=
  match bs with
  | rex :: op :: rest =>
    if rex == 0x48 || rex == 0x49 then
      let rexB := if rex == 0x49 then 1 else 0
      if op == 0x83 then
        match rest with
        | [mrm, i] => if 0xc0 ≤ mrm && mrm ≤ 0xff && i < 256 then some ((mrm - 0xc0) / 8, 8 * rexB + mrm % 8, sext8 i) else none
        | _ => none
      else if op == 0x81 then
        match rest with
        | mrm :: imm4 =>
          if 0xc0 ≤ mrm && mrm ≤ 0xff && imm4.length == 4 then some ((mrm - 0xc0) / 8, 8 * rexB + mrm % 8, sext32 (leVal imm4)) else none
        | _ => none
      else if rex == 0x48 && op < 0x40 && op % 8 == 5 then
        (if rest.length == 4 then some (op / 8, 0, sext32 (leVal rest)) else none)
      else none
    else none
  | _ => none

example : aluRead [0x48, 0x83, 0xc1, 0xff] = some (0, 1, 2 ^ 64 - 1) := by decide
example : aluRead [0x49, 0x81, 0xef, 0x34, 0x12, 0, 0] = some (5, 15, 0x1234) := by decide
example : aluRead [0x48, 0x3d, 0, 0, 0, 0x80] = some (7, 0, 0xffffffff80000000) := by decide
example : aluRead [0x48, 0x05, 1, 2] = none := by decide

/-- the encodings in arithmetic form (n = /digit, m = register number) -/
def aluBytes (n m v : Nat) : List Nat :=
  if v ≤ 0x7f ∨ 0xffffffffffffff80 ≤ v then [0x48 + m / 8, 0x83, 0xc0 + 8 * n + m % 8, v % 256]
  else (if m = 0 then [0x48, 8 * n + 5] else [0x48 + m / 8, 0x81, 0xc0 + 8 * n + m % 8]) ++ leBytes 4 (v % 2 ^ 32)

/-- **each encoding reads back as operation n on register m with the immediate operand v** -/
theorem aluRead_aluBytes (n m v : Nat) (hn : n < 8) (hm : m < 16)
    (hv : v < 0x80000000 ∨ (0xffffffff80000000 ≤ v ∧ v < 2 ^ 64)) :
    aluRead (aluBytes n m v) = some (n, m, v) := by
  unfold aluBytes
  have hq : m / 8 = 0 ∧ m % 8 = m ∨ m / 8 = 1 ∧ m % 8 + 8 = m := by omega
  by_cases h8 : v ≤ 0x7f ∨ 0xffffffffffffff80 ≤ v
  · have e : sext8 (v % 256) = v := by unfold sext8; split <;> omega
    have hlt : v % 256 < 256 := Nat.mod_lt _ (by decide)
    simp only [h8, if_true]
    rcases hq with ⟨q, r⟩ | ⟨q, r⟩
    · simp [aluRead, q, r, e, hlt]; omega
    · simp [aluRead, q, e, hlt]; omega
  · have e1 : leVal (leBytes 4 (v % 2 ^ 32)) = v % 4294967296 := by
      rw [leVal_leBytes_lt 4 _ (by rw [AL.Spec.MovImm.p4]; omega)]
    have e2 : sext32 (v % 4294967296) = v := by unfold sext32; split <;> omega
    simp only [h8, if_false]
    by_cases h0 : m = 0
    · subst h0
      have a1 : ¬ 8 * n = 126 := by omega
      have a2 : ¬ 8 * n = 124 := by omega
      have a3 : 8 * n + 5 < 64 := by omega
      have a4 : (8 * n + 5) / 8 = n := by omega
      simp [aluRead, leBytes_length, e1, e2, a1, a2, a3, a4]
    · simp only [h0, if_false]
      rcases hq with ⟨q, r⟩ | ⟨q, r⟩
      · simp [aluRead, q, r, leBytes_length, e1, e2]; omega
      · simp [aluRead, q, leBytes_length, e1, e2]; omega

end AL.Spec.AluImm
