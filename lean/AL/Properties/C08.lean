/-
  C08 — the library-managed buffer grows transparently for programs of any length.

  Model of growth: `checkLenOrResize` on an internal instance never fails; when fewer than
  BUFFER_TOLERANCE bytes are left it appends MEM_BUFFER zero bytes (mremap: same prefix, assumed
  OS behaviour).  Theorems, for every text, offset, mode and per-line function:
   * `internal_has_room`: the room check never fails on an internal instance, and a step can
     only fail for reasons that have nothing to do with room (`internal_step_error`);
   * `growth_keeps_code`: every call (successful or not, with any number of growths) leaves all
     bytes before its starting offset untouched and the bookkeeping consistent;
   * `same_as_caller_buffer`: when the call succeeds on the internal instance and on a caller
     buffer with the same settings, both hold the same code at the same place and report the
     same offset — the layout of the text's codes (C06/C13), which does not mention the buffer.
   * `plain_success_iff`: in plain mode a run succeeds on an internal instance exactly when no
     code is longer than the reserve — the same condition as on a caller buffer that never runs
     out of room.
  Not provable here: that the region stays executable across mremap (OS property; the check
  executes code placed behind each growth point).
-/
import AL.Lemmas.Agree
namespace AL.Properties.C08
open AL AL.Impl AL.Gen AL.Lemmas

theorem internal_has_room (a : Inst) (p : Nat) (h : a.external = false) :
    ∃ a', checkLenOrResize a p = .ok a' ∧ a'.external = false := by
  unfold checkLenOrResize
  split
  · simp only [h, Bool.false_eq_true, if_false]; exact ⟨_, rfl, rfl⟩
  · exact ⟨a, rfl, h⟩

/-- on an internal instance a step in plain mode fails only for an over-long instruction -/
theorem internal_step_error (r : Run) (bs : Bytes) (h : r.a.external = false) (hm : r.a.mode = .assemble) :
    (emitOne r bs).2 = none ↔ bs.length ≤ 20 := by
  obtain ⟨a', hc, _⟩ := internal_has_room r.a r.bufPos h
  unfold emitOne
  simp only [hm, hc]
  by_cases hl : bs.length > c_BUFFER_TOLERANCE
  · simp only [hl, if_true]
    constructor
    · intro h; cases h
    · intro h2; exact absurd hl (Nat.not_lt.2 h2)
  · simp only [hl, if_false, true_iff]
    exact Nat.le_of_not_gt hl

/-- the same on a caller buffer as long as 20 bytes are left -/
theorem external_step_error (r : Run) (bs : Bytes) (hm : r.a.mode = .assemble) (hp : r.bufPos < 2 ^ 31)
    (hroom : (r.bufPos : Int) + 20 ≤ r.a.bufLen) : (emitOne r bs).2 = none ↔ bs.length ≤ 20 := by
  have hc := check_ok_of_room r.a r.bufPos hp hroom
  unfold emitOne
  simp only [hm, hc]
  by_cases hl : bs.length > c_BUFFER_TOLERANCE
  · simp only [hl, if_true]
    constructor
    · intro h; cases h
    · intro h2; exact absurd hl (Nat.not_lt.2 h2)
  · simp only [hl, if_false, true_iff]
    exact Nat.le_of_not_gt hl

/-- plain mode, internal instance: a run succeeds iff every code fits the reserve -/
theorem plain_success_iff (cs : List Bytes) (r : Run) (h : r.a.external = false) (hm : r.a.mode = .assemble) :
    (runCodes r cs).2 = none ↔ ∀ bs ∈ cs, bs.length ≤ 20 := by
  induction cs generalizing r with
  | nil => simp [runCodes]
  | cons bs rest ih =>
    unfold runCodes
    have h1 := internal_step_error r bs h hm
    have hcfg := emitOne_cfg r bs
    rcases hx : emitOne r bs with ⟨r1, e1⟩
    rw [hx] at h1 hcfg
    simp only at h1 hcfg
    cases e1 with
    | some e =>
      simp only
      constructor
      · intro hh; cases hh
      · intro hall
        have := h1.2 (hall bs List.mem_cons_self)
        cases this
    | none =>
      simp only
      have hr1 : r1.a.external = false := by rw [hcfg.2.2.2.2, h]
      have hm1 : r1.a.mode = .assemble := by rw [hcfg.1, hm]
      rw [ih r1 hr1 hm1]
      constructor
      · intro hall b hb
        rcases List.mem_cons.1 hb with rfl | hb
        · exact h1.1 rfl
        · exact hall b hb
      · intro hall b hb; exact hall b (List.mem_cons_of_mem _ hb)

/-- **growth preserves all earlier bytes**: whatever a call does to an internal instance
    (any number of growths, success or failure), the bytes before its starting offset and the
    buffer bookkeeping survive, and the buffer never shrinks -/
theorem growth_keeps_code (lfo : LineFnOf) (a : Inst) (text : Str) (hinv : BufInv a)
    (h0 : 0 ≤ a.offset) (h1 : a.offset ≤ a.mem.length)
    (hsmall : a.mem.length + growth a * (text.length + 1) + 60 < 2 ^ 31) :
    (asmAssembleStrWith lfo a text).1.mem.take a.offset.toNat = a.mem.take a.offset.toNat ∧
    BufInv (asmAssembleStrWith lfo a text).1 ∧
    a.mem.length ≤ (asmAssembleStrWith lfo a text).1.mem.length ∧
    (asmAssembleStrWith lfo a text).1.oob = a.oob := by
  have hp := assembleAll_post (lfo a.opt) a text false hinv h0 h1 hsmall
  obtain ⟨hf, _, _⟩ := hp
  unfold asmAssembleStrWith
  dsimp only
  cases (assembleAll (lfo a.opt) a text false).ret with
  | error e => exact ⟨hf.pre, hf.inv, hf.len_le, hf.oob⟩
  | ok bp => exact ⟨hf.pre, hf.inv, hf.len_le, hf.oob⟩

/-- **transparent**: internal instance `ai` and caller-buffer instance `ae` with the same settings
    and offset; when both calls succeed they hold the same code at the same place and report the
    same offset. -/
theorem same_as_caller_buffer (lfo : LineFnOf) (ai ae : Inst) (text : Str)
    (hopt : ai.opt = ae.opt) (hmode : ai.mode = ae.mode) (hchunk : ai.chunkSize = ae.chunkSize)
    (hoff : ai.offset = ae.offset) (hii : BufInv ai) (hie : BufInv ae) (h0 : 0 ≤ ai.offset)
    (h1i : ai.offset ≤ ai.mem.length) (h1e : ae.offset ≤ ae.mem.length)
    (hc : ai.mode = .fitting → 2 ≤ ai.chunkSize)
    (hsi : ai.mem.length + growth ai * (text.length + 1) + 60 < 2 ^ 31)
    (hse : ae.mem.length + growth ae * (text.length + 1) + 60 < 2 ^ 31)
    (hoki : (asmAssembleStrWith lfo ai text).2 = .ok ())
    (hoke : (asmAssembleStrWith lfo ae text).2 = .ok ()) :
    (asmAssembleStrWith lfo ai text).1.offset = (asmAssembleStrWith lfo ae text).1.offset ∧
    ∀ n, n = ((asmAssembleStrWith lfo ai text).1.offset - ai.offset).toNat →
      ((asmAssembleStrWith lfo ai text).1.mem.drop ai.offset.toNat).take n =
      ((asmAssembleStrWith lfo ae text).1.mem.drop ai.offset.toNat).take n := by
  have li := asm_layout lfo ai text hii h0 h1i hc hsi hoki
  have le := asm_layout lfo ae text hie (by rw [← hoff]; exact h0) h1e
    (by rw [← hmode, ← hchunk]; exact hc) hse hoke
  rw [← hmode, ← hchunk, ← hoff, ← hopt] at le
  refine ⟨by rw [li.1, le.1], ?_⟩
  intro n hn
  have : n = (layoutAll ai.mode ai.chunkSize ai.offset.toNat (codesOf lfo ai.opt text)).length := by
    rw [hn, li.1]; omega
  rw [this, li.2.1, le.2.1]

/-- non-vacuity: the initial internal buffer (6020 bytes) grows by 6000 when position 6001 is
    reached, and the old contents are a prefix of the new -/
example : ∃ a', checkLenOrResize createInternal 6001 = .ok a' ∧ a'.bufLen = 12020 := by
  refine ⟨_, rfl, by decide⟩

/-- **room at ANY position**: on a library-managed buffer the room check grows the buffer by as many quanta as the position needs —
    also when `asm_set_offset` has moved the position far beyond the current length (fix 4022683) — and keeps every earlier byte -/
theorem internal_room_anywhere (a : Inst) (p : Nat) (h : a.external = false) (hinv : a.bufLen = (a.mem.length : Int)) (hp : p < 2 ^ 31) :
    ∃ a', checkLenOrResize a p = .ok a' ∧ a'.external = false ∧ (p : Int) + 20 ≤ a'.bufLen ∧
      a'.bufLen = (a'.mem.length : Int) ∧ a'.mem.take a.mem.length = a.mem := by
  unfold checkLenOrResize
  rw [toInt32_small hp]
  have h20 : (c_BUFFER_TOLERANCE : Int) = 20 := rfl
  by_cases hc : ((p : Int) + (c_BUFFER_TOLERANCE : Int) > a.bufLen)
  · simp only [hc, if_true, h, Bool.false_eq_true, if_false]
    refine ⟨_, rfl, rfl, ?_, ?_, ?_⟩
    · show (p : Int) + 20 ≤ a.bufLen + ((growBytes a p : Nat) : Int)
      unfold growBytes
      rw [toInt32_small hp, h20]
      have h6 : c_MEM_BUFFER = 6000 := rfl
      rw [h6]
      rw [h20] at hc
      omega
    · show a.bufLen + ((growBytes a p : Nat) : Int) = ((a.mem ++ List.replicate (growBytes a p) 0).length : Int)
      simp only [List.length_append, List.length_replicate, hinv]
      omega
    · simp
  · simp only [hc, if_false]
    refine ⟨a, rfl, h, ?_, hinv, by simp⟩
    rw [h20] at hc
    omega

example : growBytes { (createInternal) with bufLen := 6020 } 13000 = 12000 := by decide

end AL.Properties.C08
