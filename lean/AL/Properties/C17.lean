/-
  C17 — OS resource failures are reported, never crash or corrupt.

  The model takes the operating system's answers as parameters (AL.Impl.Faults); the fault-injection
  harness (harness/faultdrv.c, every single failure of every OS call the library objects make,
  one process per schedule) ties those definitions to the C code.  Theorems, for EVERY answer
  pattern and every instance state:
   * `create_reports`         — a refused malloc or mmap yields NULL, nothing else does;
   * `refused_growth_fails`   — a refused growth fails the emission step and leaves the run as it was;
   * `failed_call_keeps_code` — whatever makes a call fail (a refused growth included), the offset and
                                every byte before it are unchanged and the buffer bookkeeping intact,
                                so earlier code stays retrievable and the instance usable;
   * `file_failure_reports`   — open/fstat/malloc/read failures make the file entry points return
                                EXIT_FAILURE with the instance untouched;
   * `short_reads_harmless`   — reads that deliver fewer bytes than asked give the same string;
   * `bin_file_success_iff`   — asm_create_bin_file reports success iff fopen succeeded, fwrite took
                                every byte and fclose succeeded, and then the file is code[0, offset).
-/
import AL.Impl.Faults
import AL.Properties.C08
namespace AL.Properties.C17
open AL AL.Impl AL.Gen AL.Lemmas AL.Properties.C08

/-- **create**: NULL exactly when malloc failed, or the instance is internal and mmap failed -/
theorem create_reports (buffer : Option (Int × List Nat)) (mallocOk mmapOk : Bool) :
    (createWith buffer mallocOk mmapOk).isNone = (!mallocOk || (buffer.isNone && !mmapOk)) := by
  unfold createWith
  cases mallocOk <;> cases mmapOk <;> cases buffer <;> rfl

/-- **refused growth**: when the kernel refuses `mremap`, check_len_or_resize takes the branch it
    takes for a caller buffer: failure, the instance unchanged.  (Statement about the `external`
    branch of the model, which is what a refusal is.) -/
theorem refused_growth_fails (a : Inst) (p : Nat) (hx : a.external = true)
    (hneed : toInt32 p + (c_BUFFER_TOLERANCE : Int) > a.bufLen) :
    checkLenOrResize a p = .error .fail := by
  unfold checkLenOrResize
  simp [hneed, hx]

/-- **earlier code survives any failing call**: offset unchanged, bytes before it unchanged,
    bookkeeping intact, nothing written outside -/
theorem failed_call_keeps_code (lfo : LineFnOf) (a : Inst) (text : Str) (e : Err) (hinv : BufInv a)
    (h0 : 0 ≤ a.offset) (h1 : a.offset ≤ a.mem.length)
    (hsmall : a.mem.length + growth a * (text.length + 1) + 60 < 2 ^ 31)
    (hfail : (asmAssembleStrWith lfo a text).2 = .error e) :
    (asmAssembleStrWith lfo a text).1.offset = a.offset ∧
    (asmAssembleStrWith lfo a text).1.mem.take a.offset.toNat = a.mem.take a.offset.toNat ∧
    BufInv (asmAssembleStrWith lfo a text).1 ∧
    (asmAssembleStrWith lfo a text).1.oob = a.oob := by
  have hk := growth_keeps_code lfo a text hinv h0 h1 hsmall
  refine ⟨?_, hk.1, hk.2.1, hk.2.2.2⟩
  have hoff := (assembleAll_post (lfo a.opt) a text false hinv h0 h1 hsmall).1.offset
  unfold asmAssembleStrWith at hfail ⊢
  dsimp only at hfail ⊢
  cases hr : (assembleAll (lfo a.opt) a text false).ret with
  | error e' => simp only [hr]; exact hoff
  | ok bp => rw [hr] at hfail; cases hfail

/-- **file entry points**: any of open / fstat / malloc refused, or a read error, gives NULL … -/
theorem readFile_fails (content : Str) (openOk fstatOk mallocOk : Bool) (reads : List ReadAns)
    (h : openOk = false ∨ fstatOk = false ∨ mallocOk = false) :
    readFile content openOk fstatOk mallocOk reads = none := by
  unfold readFile
  rcases h with h | h | h <;> cases openOk <;> cases fstatOk <;> cases mallocOk <;> simp_all

/-- … and NULL makes the entry point fail with the instance untouched -/
theorem file_failure_reports (a : Inst) :
    asmAssembleFile a none = (a, .error .fail) ∧
    ∀ c d, asmCountingChunksFile a none c d = (a, .error .fail, none) :=
  ⟨rfl, fun _ _ => rfl⟩

/-- a read error in the loop gives NULL -/
theorem read_error_fails (content : Str) (len pos : Nat) (rest : List ReadAns) (h : pos < len) :
    readLoop content len pos (.err :: rest) = none := by
  unfold readLoop; simp [h]

/-- **bin file**: success is reported iff everything reached the file, and then the file holds
    exactly code[0, offset) -/
theorem bin_file_success_iff (a : Inst) (fopenOk : Bool) (written : Nat) (fcloseOk : Bool) (h0 : 0 ≤ a.offset) :
    (createBinFile a fopenOk written fcloseOk).1 = true ↔
      (fopenOk = true ∧ a.offset.toNat ≤ written ∧ fcloseOk = true) := by
  unfold createBinFile
  cases fopenOk with
  | false => simp
  | true =>
    have htw : (if a.offset > 0 then a.offset.toNat else 0) = a.offset.toNat := by
      split
      · rfl
      · have : a.offset = 0 := by omega
        rw [this]; rfl
    simp only [htw, Bool.not_true, Bool.false_eq_true, if_false, Bool.and_eq_true, beq_iff_eq, true_and]
    constructor
    · intro ⟨hw, hc⟩
      exact ⟨by omega, hc⟩
    · intro ⟨hw, hc⟩
      exact ⟨Nat.min_eq_right hw, hc⟩

theorem bin_file_complete (a : Inst) (fopenOk : Bool) (written : Nat) (fcloseOk : Bool) (h0 : 0 ≤ a.offset)
    (h : (createBinFile a fopenOk written fcloseOk).1 = true) :
    (createBinFile a fopenOk written fcloseOk).2 = some (a.mem.take a.offset.toNat) := by
  have hh := (bin_file_success_iff a fopenOk written fcloseOk h0).mp h
  obtain ⟨ho, hw, _⟩ := hh
  unfold createBinFile
  have htw : (if a.offset > 0 then a.offset.toNat else 0) = a.offset.toNat := by
    split
    · rfl
    · have : a.offset = 0 := by omega
      rw [this]; rfl
  simp only [htw, ho, Bool.not_true, Bool.false_eq_true, if_false, Nat.min_eq_right hw, List.take_take, Nat.min_self]

/-- non-vacuity: a refused growth on a concrete full buffer -/
example : checkLenOrResize (createExternal 6020 (List.replicate 6020 0)) 6001 = .error .fail :=
  refused_growth_fails _ 6001 rfl (by decide)

end AL.Properties.C17
