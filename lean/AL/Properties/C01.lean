/-
  C01 — integer instructions on registers encode exactly the instruction written.

  Statement (AL.Spec.X86*): for every instance d of the family — every integer entry of the reference
  opcode table whose operands are registers, over ALL register tuples x86-64 can encode (every width,
  r8–r15, ah/ch/dh/bh without REX), every synonym mnemonic, the no-operand instructions —
      decode (assemble (render d)) = d,  one instruction, length = number of bytes emitted.
   * `Sweep.c01_sweep`        — the whole family (≈ 51 000 instances x 2 option bytes) on the model,
                                decided by evaluation (native_decide, see AL/Properties/Sweep/C01.lean);
                                option bytes beyond {14, 0}: C11 `other_lines_identical` (these lines have
                                neither immediate nor memory operand);
   * `nop_table_decodes`      — kernel-checked: each entry n of the regenerated NOP table (nop, nop2 … nop11,
                                also the padding of C13) is ONE instruction that the decoder reads as a nop of
                                exactly n bytes;
   * `no_operand_lines`       — kernel-checked, text level: the no-operand instructions;
   * `letter_case_irrelevant` — kernel-checked, for EVERY line and option byte: writing any of its letters in the other case
                                gives the same per-line result, so the sweep over lower-case spellings covers upper and mixed case.
-/
import AL.Properties.Sweep.C01
import AL.Impl.Parser
import AL.Lemmas.FilterLemmas
namespace AL.Properties.C01
open AL AL.Impl AL.Gen AL.Spec.X86

def isNopOfLen (bs : List Nat) (n : Nat) : Bool :=
  match decode bs with
  | some d => d.mn == "nop" && d.len == n && bs.length == n
  | none => false

/-- **the NOP table**: entry n is one nop instruction of n bytes (n = 1..11) -/
theorem nop_table_decodes : nopTable.length = 11 ∧
    ((List.range 11).all fun i => isNopOfLen (nopTable.getD i []) (i + 1)) = true := by decide +kernel

def lineDecodes (opt : Nat) (text : String) (mn : String) : Bool :=
  match (assembleLine opt (toStr text)).1 with
  | .ok (.code bs) => (match decode bs with
      | some d => d.mn == mn && d.ops.isEmpty && d.len == bs.length
      | none => false)
  | _ => false

set_option maxRecDepth 100000 in
/-- **no-operand instructions**, whole per-line pipeline, kernel evaluation -/
theorem no_operand_lines :
    (["clc", "cpuid", "lfence", "mfence", "sfence", "rdpmc", "rdtsc", "rdtscp", "ret", "xend", "nop"].all
      fun t => lineDecodes 14 t t) = true := by decide +kernel

/-- **letter case**: two texts that agree after folding A–Z to a–z give the same per-line result (bytes or rejection) -/
theorem letter_case_irrelevant (opt : Nat) (t1 t2 : Str) (h : t1.map tolower = t2.map tolower) :
    (assembleLine opt t1).1 = (assembleLine opt t2).1 :=
  AL.Lemmas.assembleLine_of_filter opt t1 t2 (by rw [AL.Lemmas.filterLine_case t1 t2 h])

example : (toStr "MOVZX EAX, BL").map tolower = (toStr "movzx eax, bl").map tolower := by decide

end AL.Properties.C01
