/-
  AL.Impl.Faults — the parts of src/assemblyline.c that talk to the operating system, with the
  OS's answers as explicit parameters (C17, C19): asm_create_instance, asm_read_file and the two
  file entry points, asm_create_bin_file.  A refused growth of the internal buffer (mremap) needs
  no new definition: `check_len_or_resize` then fails exactly as it does on a caller buffer of the
  size reached so far (`AL.Impl.checkLenOrResize`, branch `external`).
-/
import AL.Impl.Api
namespace AL.Impl
open AL AL.Gen

/-- `asm_create_instance`: NULL when malloc fails, or when the internal mapping is refused -/
def createWith (buffer : Option (Int × List Nat)) (mallocOk mmapOk : Bool) : Option Inst :=
  if !mallocOk then none
  else match buffer with
    | some (len, fill) => some (createExternal len fill)
    | none => if mmapOk then some createInternal else none

/-- what one `read(fd, buf, n)` call answers: an error, or how many bytes it delivers
    (at most what was asked for; 0 = end of file) -/
inductive ReadAns | err | bytes (k : Nat)
deriving Repr, DecidableEq

/-- the read loop of asm_read_file: `pos` bytes so far, `len` = st_size; the answers of the
    successive read calls; when the list is used up the OS delivers everything that is left -/
def readLoop (content : Str) (len : Nat) : Nat → List ReadAns → Option Nat
  | pos, [] => some (if pos < len then min len content.length else pos)
  | pos, a :: as =>
    if pos < len then
      match a with
      | .err => none
      | .bytes k =>
        let got := min k (min (len - pos) (content.length - pos))
        if got == 0 then some pos else readLoop content len (pos + got) as
    else some pos

/-- `asm_read_file`: the NUL-terminated copy of the file, or NULL -/
def readFile (content : Str) (openOk fstatOk mallocOk : Bool) (reads : List ReadAns) : Option Str :=
  if !openOk then none
  else if !fstatOk || !mallocOk then none
  else match readLoop content content.length 0 reads with
    | none => none
    | some pos => some ((content.take pos).takeWhile (· != 0))

/-- `asm_assemble_file` -/
def asmAssembleFile (a : Inst) (file : Option Str) : Inst × Except Err Unit :=
  match file with
  | none => (a, .error .fail)
  | some text => asmAssembleStr a text

/-- `asm_assemble_file_counting_chunks` -/
def asmCountingChunksFile (a : Inst) (file : Option Str) (c : Int) (hasDest : Bool) :
    Inst × Except Err Unit × Option Int :=
  match file with
  | none => (a, .error .fail, none)
  | some text => asmCountingChunks a text c hasDest

/-- `asm_create_bin_file`: `written` = what fwrite reports for the `offset` bytes it was given.
    Result: the return value is EXIT_SUCCESS, and the bytes that reached the file (none: no file). -/
def createBinFile (a : Inst) (fopenOk : Bool) (written : Nat) (fcloseOk : Bool) : Bool × Option Bytes :=
  let toWrite := if a.offset > 0 then a.offset.toNat else 0
  if !fopenOk then (false, none)
  else
    let w := min written toWrite
    (w == toWrite && fcloseOk, some ((a.mem.take toWrite).take w))

end AL.Impl
