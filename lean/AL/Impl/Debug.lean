/-
  AL.Impl.Debug — what the library and asmline PRINT: src/parser.c debug_without_chunksize / debug_with_chunksize (asm_set_debug,
  asmline -p), tools/asmline.c print_chunk_brks and the stdin branch that prints the buffer once at the end.
  Text is a list of character codes; `parseHexOut` is the reader a user (or a test script) applies to that output.
-/
import AL.Impl.Cli
namespace AL.Impl
open AL AL.Gen

/-- `%x` digit -/
def hexDigitL (n : Nat) : Nat := if n < 10 then 48 + n else 87 + n

/-- `printf("%02x ", b)` for a byte (`uint8_t`: the value modulo 256) -/
def hex2 (b : Nat) : Str := [hexDigitL (b % 256 / 16), hexDigitL (b % 16), 32]

/-- debug_without_chunksize: one instruction per line, a line break in front of the eighth byte (objdump's row length) -/
def printInstrGo : Nat → Bytes → Str
  | _, [] => [10]
  | i, b :: bs => (if i == 7 then [10] else []) ++ hex2 b ++ printInstrGo (i + 1) bs

def printInstr (bs : Bytes) : Str := printInstrGo 0 bs

/-- debug_with_chunksize: the whole buffer, `|` and a line break at every chunk boundary -/
def printChunksGo (c : Nat) : Nat → Bytes → Str
  | _, [] => [10]
  | i, b :: bs => (if i % c == 0 && decide (c > 1) && i != 0 then [124, 10] else []) ++ hex2 b ++ printChunksGo c (i + 1) bs

def printChunks (c : Nat) (bs : Bytes) : Str := printChunksGo c 0 bs

/-- decimal digits of a natural number -/
def decDigits (n : Nat) : Str := (toString n).toList.map Char.toNat

def decInt (v : Int) : Str := if v < 0 then 45 :: decDigits v.natAbs else decDigits v.toNat

/-- print_chunk_brks -/
def printCount (total : Int) (debug : Bool) (boundary : Int) : Str :=
  decInt total ++ (if debug then str! " instructions break a chunk boundary of " ++ decInt boundary ++ str! " bytes" else []) ++ [10]

def hexValL (c : Nat) : Option Nat :=
  if 48 ≤ c ∧ c ≤ 57 then some (c - 48) else if 97 ≤ c ∧ c ≤ 102 then some (c - 87) else none

/-- reading the printed code back: every pair of hexadecimal digits is a byte; blanks, line breaks and chunk bars separate -/
def parseHexOut : Str → Bytes
  | [] => []
  | [_] => []
  | a :: b :: rest =>
    match hexValL a, hexValL b with
    | some x, some y => (16 * x + y) :: parseHexOut rest
    | _, _ => parseHexOut (b :: rest)
termination_by l => l.length

/-- the codes a call emits in order, up to the first rejected line (the loop of `assemble_all`), and whether every line was accepted -/
def listingGo (lf : Str → R LineOut × Nat) : Nat → Str → List Bytes × Bool
  | 0, _ => ([], true)
  | fuel + 1, text =>
    match text with
    | [] => ([], true)
    | _ =>
      match lf text with
      | (.error _, _) => ([], false)
      | (.ok .skip, n) => listingGo lf fuel (text.drop n)
      | (.ok (.code bs), n) => let r := listingGo lf fuel (text.drop n); (bs :: r.1, r.2)

/-- what ONE library call prints with `asm_set_debug(al, true)` in plain or counting mode: every emitted instruction on its own line(s) -/
def debugListing (opt : Nat) (text : Str) : Str × Bool :=
  let r := listingGo (assembleLine opt) (text.length + 1) text
  ((r.1.map printInstr).flatten, r.2)

/-- the listing of a sequence of calls (asmline reading stdin: one call per line), up to the first failing call -/
def debugListingCalls (opt : Nat) : List Str → Str
  | [] => []
  | l :: ls => let r := debugListing opt l; if r.2 then r.1 ++ debugListingCalls opt ls else r.1

/-- **stdout of asmline** (without `-r`) for a parsed command line: the `-p` listing — per instruction without chunk fitting, the whole
    buffer with `|` at the chunk boundaries with it (once at the end of a successful run; a failed fitting call prints nothing) — and
    the `-b` report line of a successful run -/
def cliStdout (flags : List Flag) (stdin : Bool) (prog : Option Str) : Str :=
  let st := parseFlags { a := createInternal } flags
  if st.usage then [] else
  let a0 := applyLong st
  let r := assemblePhase st stdin prog
  let fitting := a0.mode == .fitting
  let listing : Str :=
    if !st.debug then []
    else if fitting && st.boundary ≤ 0 then
      (if r.2.1 then printChunks r.1.chunkSize (r.1.mem.take r.1.offset.toNat) else [])
    else if fitting then
      -- counting from a chunk-fitting instance: the counting call runs in counting mode and lists per instruction
      (match prog with
       | none => []
       | some t => if stdin then debugListingCalls a0.opt (getlines t) else (debugListing a0.opt t).1)
    else
      (match prog with
       | none => []
       | some t => if stdin then debugListingCalls a0.opt (getlines t) else (debugListing a0.opt t).1)
  let report : Str :=
    match r.2.1, r.2.2 with
    | true, some n => printCount n st.debug st.boundary
    | _, _ => []
  listing ++ report

end AL.Impl
