/-
  AL.Spec.X86Compare — when a decoded instruction IS the written one (C01–C05):
  same mnemonic class, same operands; a memory operand may be encoded differently as long as it has
  the same width and address size and denotes the same address for every register valuation (C02's
  "NASM-style rewriting only where it denotes the same address"); xchg is symmetric and
  `xchg ax, ax` / `xchg rax, rax` may be the nop they are; `mov r64, imm` with imm ≤ 0xffffffff may be
  written to the 32-bit register (the zero extension gives the same value; C11 says in which mode);
  a branch displacement may use either field width unless `short` / `long` asks for one.
-/
import AL.Spec.X86Families
import AL.Spec.Supported
namespace AL.Spec.X86

/-- coefficient of register `r` in the address -/
def Mem.coeff (m : Mem) (r : Nat) : Nat :=
  (if m.base == some r then 1 else 0) + (if m.index == some r then m.scale else 0)

def sameMem (a b : Mem) : Bool :=
  a.size == b.size && a.addr32 == b.addr32 && a.rip == b.rip && a.disp == b.disp &&
  (List.range 16).all fun r => a.coeff r == b.coeff r

def sameOpnd (relFree : Bool) : Opnd → Opnd → Bool
  | .reg a, .reg b => a == b
  | .mem a, .mem b => sameMem a b
  | .imm ba va, .imm bb vb => ba == bb && va == vb
  | .rel ba da, .rel bb db => da == db && (relFree || ba == bb)
  | _, _ => false

def sameOps (relFree : Bool) : List Opnd → List Opnd → Bool
  | [], [] => true
  | a :: as, b :: bs => sameOpnd relFree a b && sameOps relFree as bs
  | _, _ => false

/-- the written instruction `it` and the decoded `got` (one instruction covering all emitted bytes) -/
def sameInstr (it : Item) (got : Dec) : Bool :=
  let w := it.want
  let kwApplies := it.relKw != 0 && !([(mn! "call"), (mn! "xbegin"), (mn! "jrcxz")].contains w.mn)
  let wops := if kwApplies then w.ops.map (fun o => match o with
      | .rel _ d => .rel (if it.relKw == 1 then 8 else 32) d
      | o => o) else w.ops
  (w.mn == got.mn && sameOps (!kwApplies) wops got.ops) ||
  -- xchg is symmetric
  (w.mn == (mn! "xchg") && got.mn == (mn! "xchg") && sameOps true w.ops got.ops.reverse) ||
  -- xchg ax, ax / xchg rax, rax change nothing (xchg eax, eax does)
  (w.mn == (mn! "xchg") && got.mn == (mn! "nop") && got.ops.isEmpty &&
    (w.ops == [.reg ⟨.gpr16, 0⟩, .reg ⟨.gpr16, 0⟩] || w.ops == [.reg ⟨.gpr64, 0⟩, .reg ⟨.gpr64, 0⟩])) ||
  -- mov r64, imm ≤ 0xffffffff written to the 32-bit register
  (w.mn == (mn! "mov") && got.mn == (mn! "mov") &&
    match w.ops, got.ops with
    | [.reg ⟨.gpr64, n⟩, .imm 64 v], [.reg ⟨.gpr32, n'⟩, .imm 32 v'] => n == n' && v == v' && v < 2 ^ 32
    | _, _ => false)

/-- a stack pointer is written as the index register (second register, no scale) -/
def stackIndex (it : Item) : Bool :=
  it.want.ops.any fun o => match o with
    | .mem m => m.index == some 4
    | _ => false

/-- AssemblyLine's operand-kind letter of an operand -/
def kindOf : Opnd → Nat
  | .reg r => (match r.file with | .xmm => 118 | .ymm => 121 | _ => 114)
  | .mem _ => 109
  | _ => 105

def toStr (s : String) : List Nat := s.toList.map Char.toNat

/-- is (mnemonic as written, operand kinds) in the frozen list of supported forms? -/
def supportedForm (it : Item) : Bool :=
  match AL.Spec.supported.find? (fun p => p.1 == it.wmn) with
  | some p => p.2.contains (it.want.ops.map kindOf)
  | none => false

/-- lines whose rejection is what C05 asks for: `short` with a displacement outside rel8, a rel8-only
    instruction out of range -/
def mustReject (it : Item) : Bool :=
  match it.want.ops with
  | [.rel _ d] =>
    let out := d < -128 || d > 127
    (it.relKw == 1 && out && it.want.mn != (mn! "call") && it.want.mn != (mn! "xbegin")) || (it.want.mn == (mn! "jrcxz") && out)
  | _ => false

/-- `short` on call / xbegin (they have no rel8 form): accepting with rel32 or rejecting are both fine -/
def mayReject (it : Item) : Bool :=
  match it.want.ops with
  | [.rel _ _] => it.relKw == 1 && (it.want.mn == (mn! "call") || it.want.mn == (mn! "xbegin"))
  | _ => false

end AL.Spec.X86
