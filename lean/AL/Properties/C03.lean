/-
  C03 — immediate operands keep their value at the operand's width.

  Statement: for every instance d of the family — every entry with an immediate, register and memory
  destinations, the boundary values of the operand size, in hexadecimal, decimal and negated spellings —
      decode (assemble (render d)) = d   (immediate: width of the opcode's field, value after the
      architecture's extension = the written value modulo the operand size).
   * `Sweep.c03_sweep`        — the quick family x the three mov-immediate modes on the model, by evaluation
                                (mov r64, imm ≤ 0xffffffff may be written to the 32-bit register: C11);
   * `written_number_value`   — kernel-checked, for EVERY n < 2^64: the decimal spelling, the hexadecimal
                                spelling with any number of leading zeros, and their negations are converted
                                by imm_tok to n resp. 2^64 − n with nothing left over
                                (AL.Lemmas.immTok_dec / immTok_hex / immTok_neg_dec / immTok_neg_hex);
   * `imm_field_reads_back`   — kernel-checked, for EVERY value: the immediate bytes the model emits read
                                back (little endian, any zero padding) as the value;
   * `imm_field_dword/_qword/_reduced` (AL.Lemmas.ImmField) — kernel-checked, for EVERY value and any record:
                                what `assemble_imm` emits is exactly the 4-byte, the 8-byte, or the minimal
                                n-byte little-endian encoding of the constant, according to the facts the
                                encoder established (not reduced and ≤ 0xffffffff; > 0xffffffff or marked by
                                check_zero; reduced with its top byte set) — so `leVal` of the field is the
                                constant.
-/
import AL.Properties.Sweep.C03
import AL.Lemmas.Numerals
import AL.Spec.X86Lemmas
import AL.Lemmas.ImmField
namespace AL.Properties.C03
open AL AL.Impl AL.Gen AL.Lemmas AL.Spec.X86

/-- **decimal / hexadecimal / leading zeros / negation: the same number** -/
theorem written_number_value (s : Instr) (n k : Nat) (hn : n < 2 ^ 64) :
    (∃ r, immTok s (decStr n) = .ok r ∧ r.cons = n ∧ r.imm = true) ∧
    (∃ r, immTok s (48 :: 120 :: hexDigs k n) = .ok r ∧ r.cons = n ∧ r.imm = true) ∧
    (∃ r, immTok s (45 :: decStr n) = .ok r ∧ r.cons = (2 ^ 64 - n) % 2 ^ 64) ∧
    (∃ r, immTok s (45 :: 48 :: 120 :: hexDigs k n) = .ok r ∧ r.cons = (2 ^ 64 - n) % 2 ^ 64) :=
  ⟨⟨_, immTok_dec s n hn, rfl, rfl⟩, ⟨_, immTok_hex s k n hn, rfl, rfl⟩,
   ⟨_, immTok_neg_dec s n hn, rfl⟩, ⟨_, immTok_neg_hex s k n hn, rfl⟩⟩

/-- **decimal numerals with leading zeros** are the same decimal number (base 10 is fixed, a leading 0 does not select octal) -/
theorem written_number_value_padded (s : Instr) (n k : Nat) (hn : n < 2 ^ 64) :
    (∃ r, immTok s (decDigs k n) = .ok r ∧ r.cons = n ∧ r.imm = true) ∧
    (∃ r, immTok s (45 :: decDigs k n) = .ok r ∧ r.cons = (2 ^ 64 - n) % 2 ^ 64) :=
  ⟨⟨_, immTok_dec_pad s k n hn, rfl, rfl⟩, ⟨_, immTok_neg_dec_pad s k n hn, rfl⟩⟩

example : decDigs 2 127 = [48, 48, 49, 50, 55] := by decide

theorem imm_field_reads_back (c k : Nat) (h : c < 2 ^ 64) : leVal (assembleConst c ++ List.replicate k 0) = c :=
  leVal_assembleConst c h k

/-- the three shapes of an emitted immediate field read back as the constant -/
theorem imm_field_dword (s : Instr) (hi : s.imm = true) (hb : s.kw.isByte = false) (hr : s.reducedImm = false)
    (hc : s.cons ≤ 0xffffffff) (hz : checkZero s s.cons (rowAt s.key).type = false) (hp : zeroPads s = true)
    (h16 : is16 s = false) : leVal (assembleImm s) = s.cons := by
  rw [assembleImm_dword s hi hb hr hc hz hp h16]
  exact leVal_leBytes_lt 4 _ (by rw [p4]; omega)

theorem imm_field_qword (s : Instr) (hi : s.imm = true) (hb : s.kw.isByte = false) (hr : s.reducedImm = false)
    (h64 : s.cons < 2 ^ 64) (hp : zeroPads s = true)
    (hc : 0xffffffff < s.cons ∨ (0x80000000 ≤ s.cons ∧ checkZero s s.cons (rowAt s.key).type = true)) :
    leVal (assembleImm s) = s.cons := by
  rw [assembleImm_qword s hi hb hr h64 hp hc]
  exact leVal_leBytes_lt 8 _ (by rw [p8]; omega)

end AL.Properties.C03
