/-
  AL.Lemmas.MovText — the first half of the per-line pipeline (line filter, tokenizer, operand-kind and mnemonic lookup)
  on the text `mov <r64>, <number>` for a SYMBOLIC number token: `filter_mov`, `lex_mov`, `not_skipped`, and their
  composition with AL.Lemmas.MovImm.mov_bytes into `mov_line` — the whole of `assembleLine` on that text, for each of the
  16 registers, every value, every option byte.
-/
import AL.Impl.Line
import AL.Lemmas.Numerals
import AL.Lemmas.FilterLemmas
import AL.Lemmas.MovImm
namespace AL.Lemmas.MovText
open AL AL.Impl AL.Gen AL.Lemmas

/-- characters of a written number: digits, a..f, `x`, `-` -/
def numCh (c : Nat) : Bool := (48 ≤ c && c ≤ 57) || (97 ≤ c && c ≤ 102) || c == 120 || c == 45

/-- first character of a written number: a digit or `-` -/
def numHead (c : Nat) : Bool := (48 ≤ c && c ≤ 57) || c == 45

theorem numCh_facts (c : Nat) (h : numCh c = true) :
    c ≠ 44 ∧ c ≠ 32 ∧ c ≠ 9 ∧ c ≠ 58 ∧ c ≠ 59 ∧ c ≠ 37 ∧ c ≠ 13 ∧ c ≠ 10 ∧ c ≠ 115 ∧ c ≠ 103 ∧ 33 < c ∧ c < 127 ∧ tolower c = c := by
  unfold numCh at h
  simp only [Bool.or_eq_true, Bool.and_eq_true, decide_eq_true_eq, beq_iff_eq] at h
  have ht : tolower c = c := tolower_other c (by omega)
  refine ⟨?_, ?_, ?_, ?_, ?_, ?_, ?_, ?_, ?_, ?_, ?_, ?_, ht⟩ <;> omega

theorem strtok_comma_whole (t : Str) (hne : t ≠ []) (hsp : ∀ c ∈ t, c ≠ 44) : strtok t [44] = some (t, []) := by
  have hd : ∀ c ∈ t, isDelim [44] c = false := by
    intro c hc
    have := hsp c hc
    simp [isDelim, this]
  unfold strtok
  have h1 : t.dropWhile (isDelim [44]) = t := by
    cases t with
    | nil => exact absurd rfl hne
    | cons a b => simp [List.dropWhile, hd a List.mem_cons_self]
  rw [h1]
  cases t with
  | nil => exact absurd rfl hne
  | cons a b =>
    have h2 : (a :: b).takeWhile (fun c => !isDelim [44] c) = a :: b :=
      takeWhile_all _ _ (fun c hc => by simp [hd c hc])
    have h3 : (a :: b).dropWhile (fun c => !isDelim [44] c) = [] :=
      dropWhile_all _ _ (fun c hc => by simp [hd c hc])
    simp only [h2, h3, List.drop_nil]

theorem kw_none (fuel : Nat) (k : Keywords) (c : Nat) (t : Str) (hc : numHead c = true) :
    checkForKeyword fuel k (c :: t) = (k, c :: t) := by
  unfold numHead at hc
  simp only [Bool.or_eq_true, Bool.and_eq_true, decide_eq_true_eq, beq_iff_eq] at hc
  have h32 : (c == 32) = false := by rw [beq_eq_false_iff_ne]; omega
  unfold checkForKeyword
  simp only [List.dropWhile, h32]
  have hp : ∀ (p0 : Nat) (p : Str), p0 ≠ c → isPrefix (p0 :: p) (c :: t) = false := by
    intro p0 p hne
    unfold isPrefix
    simp only [List.length_cons, List.take_succ_cons]
    rw [beq_eq_false_iff_ne]
    intro h
    injection h with h1 _
    exact hne h1.symm
  rw [hp 98 _ (by omega), hp 119 _ (by omega), hp 100 _ (by omega), hp 113 _ (by omega), hp 115 _ (by omega), hp 108 _ (by omega),
    hp 102 _ (by omega)]
  simp

theorem opType_i (c : Nat) (t : Str) (hc : numHead c = true) : getOperandType (c :: t) = 105 := by
  unfold numHead at hc
  simp only [Bool.or_eq_true, Bool.and_eq_true, decide_eq_true_eq, beq_iff_eq] at hc
  have h32 : (c == 32) = false := by rw [beq_eq_false_iff_ne]; omega
  unfold getOperandType
  simp only [List.dropWhile, h32]
  rcases hc with hd | rfl
  · have e1 : (c == 91) = false := by rw [beq_eq_false_iff_ne]; omega
    have e2 : (decide (97 ≤ c) && decide (c ≤ 115)) = false := by simp; omega
    have e3 : (c == 120) = false := by rw [beq_eq_false_iff_ne]; omega
    have e4 : (c == 121) = false := by rw [beq_eq_false_iff_ne]; omega
    have e5 : isDigit c = true := by simp [isDigit]; omega
    simp [e1, e2, e3, e4, e5]
  · decide


theorem fmt_ri : getOpdFormat opdIndex [114, 105] = 7 := by decide +kernel
theorem key_mov : strToInstrKey instrIndex [109, 111, 118] 7 = 109 := by decide +kernel
theorem reg_none : strToReg [] = 32 := by decide +kernel

theorem chAt_last_append (pre tok : Str) (hne : tok ≠ []) :
    chAt (pre ++ tok) ((pre ++ tok).length - 1) = chAt tok (tok.length - 1) := by
  unfold chAt
  have hl : 0 < tok.length := List.length_pos_iff.mpr hne
  rw [List.length_append]
  have : pre.length + tok.length - 1 = pre.length + (tok.length - 1) := by omega
  rw [this, List.getD_eq_getElem?_getD, List.getD_eq_getElem?_getD, List.getElem?_append_right (by omega)]
  congr 2
  omega

/-- `operand_tok` on a last operand that is a written number -/
theorem opTok_imm (fuel : Nat) (s : Instr) (c : Nat) (t : Str) (pos : Nat) (v : Nat) (b : Bool)
    (hc : numHead c = true) (hall : ∀ x ∈ c :: t, numCh x = true)
    (himm : ∀ s : Instr, immTok s (c :: t) = .ok { s with imm := true, narrowOk := b, cons := v }) :
    operandTok (fuel + 1) s (c :: t) pos =
      .ok { (s.setOpd pos { s.opd pos with type := 105 }) with imm := true, narrowOk := b, cons := v } := by
  have hcomma : ∀ x ∈ c :: t, x ≠ 44 := fun x hx => (numCh_facts x (hall x hx)).1
  have hlast : (chAt (c :: t) ((c :: t).length - 1) == 44) = false := by
    rw [beq_eq_false_iff_ne]; exact chAt_ne _ _ 44 (by decide) hcomma
  have hc44 : (chAt (c :: t) 0 == 44) = false := by
    rw [beq_eq_false_iff_ne]; exact chAt_ne _ _ 44 (by decide) hcomma
  unfold operandTok
  simp only [hlast, hc44, Bool.or_self, Bool.false_eq_true, if_false]
  rw [strtok_comma_whole (c :: t) (by simp) hcomma]
  simp only [kw_none _ _ c t hc, opType_i c t hc]
  have hs : ({ s with kw := s.kw } : Instr) = s := rfl
  simp only [hs, beq_self_eq_true, if_true, himm, List.isEmpty_nil, strtokRest]

theorem strtok_split (a b : Str) (d : Nat) (ds : List Nat) (ha : a ≠ []) (hnd : ∀ x ∈ a, isDelim ds x = false)
    (hd : isDelim ds d = true) : strtok (a ++ d :: b) ds = some (a, b) := by
  unfold strtok
  cases a with
  | nil => exact absurd rfl ha
  | cons a0 a1 =>
    have h0 : isDelim ds a0 = false := hnd a0 List.mem_cons_self
    have h1 : ((a0 :: a1) ++ d :: b).dropWhile (isDelim ds) = (a0 :: a1) ++ d :: b := by
      simp [List.dropWhile, h0]
    rw [h1]
    have h2 : ((a0 :: a1) ++ d :: b).takeWhile (fun c => !isDelim ds c) = a0 :: a1 := by
      rw [List.takeWhile_append_of_pos (fun x hx => by simp [hnd x hx])]
      simp [List.takeWhile, hd]
    have h3 : ((a0 :: a1) ++ d :: b).dropWhile (fun c => !isDelim ds c) = d :: b := by
      rw [List.dropWhile_append_of_pos (fun x hx => by simp [hnd x hx])]
      simp [List.dropWhile, hd]
    simp only [List.cons_append] at h2 h3 ⊢
    simp only [h2, h3, List.drop_one, List.tail_cons]

/-- what the lexer needs to know about a register name (all decidable; checked for the 16 names below) -/
def regNameOk (name : Str) (g : Nat) : Bool :=
  !name.isEmpty && name.all (fun x => x != 44 && x != 32 && x != 9) && chAt name 0 != 44 &&
  checkForKeyword name.length {} name == ({}, name) && getOperandType name == 114 && getRegStr name == name && strToReg name == g

theorem regs_ok : AL.Lemmas.MovImm.regs64.all (fun p => regNameOk p.2.1 p.2.2) = true := by decide +kernel

set_option maxHeartbeats 2000000 in
/-- **the lexing half on `mov <r64>,<number>`**: the record is `movRec` with the number's value and spelling class -/
theorem lex_mov (name : Str) (g : Nat) (hreg : regNameOk name g = true) (c : Nat) (t : Str) (v : Nat) (b : Bool)
    (hc : numHead c = true) (hall : ∀ x ∈ c :: t, numCh x = true)
    (himm : ∀ s : Instr, immTok s (c :: t) = .ok { s with imm := true, narrowOk := b, cons := v }) :
    lexLine (str! "mov " ++ name ++ 44 :: c :: t) = .ok (AL.Lemmas.MovImm.movRec name g v b) := by
  unfold regNameOk at hreg
  simp only [Bool.and_eq_true, Bool.not_eq_true', bne_iff_ne, ne_eq, beq_iff_eq, List.all_eq_true] at hreg
  obtain ⟨⟨⟨⟨⟨⟨hne, hch⟩, h0⟩, hkw⟩, hty⟩, hrs⟩, hrg⟩ := hreg
  have hne' : name ≠ [] := by intro h; rw [h] at hne; simp at hne
  have hcomma : ∀ x ∈ c :: t, x ≠ 44 := fun x hx => (numCh_facts x (hall x hx)).1
  have hlast : (chAt (c :: t) ((c :: t).length - 1) == 44) = false := by
    rw [beq_eq_false_iff_ne]; exact chAt_ne _ _ 44 (by decide) hcomma
  have hl : chAt (name ++ 44 :: c :: t) ((name ++ 44 :: c :: t).length - 1) = chAt (c :: t) ((c :: t).length - 1) := by
    have := chAt_last_append (name ++ [44]) (c :: t) (by simp)
    simpa using this
  have hfirst : chAt (name ++ 44 :: c :: t) 0 = chAt name 0 := by
    cases name with
    | nil => exact absurd rfl hne'
    | cons a r => rfl
  have hs1 : strtok (str! "mov " ++ name ++ 44 :: c :: t) [32, 9] = some (str! "mov", name ++ 44 :: c :: t) := by
    have := strtok_split (str! "mov") (name ++ 44 :: c :: t) 32 [32, 9] (by simp) (by decide) (by decide)
    simpa using this
  have hs2 : strtok (name ++ 44 :: c :: t) [44] = some (name, c :: t) :=
    strtok_split name (c :: t) 44 [44] hne' (fun x hx => by have := (hch x hx).1.1; simp [isDelim, this]) (by decide)
  have hrest : strtokRest (name ++ 44 :: c :: t) = some (name ++ 44 :: c :: t) := by
    cases name with
    | nil => exact absurd rfl hne'
    | cons a r => rfl
  unfold lexLine instrTok
  rw [hs1]
  simp only [hrest]
  unfold operandTok
  have h044 : (chAt name 0 == 44) = false := by rw [beq_eq_false_iff_ne]; exact h0
  simp only [hl, hlast, hfirst, h044, Bool.or_self, Bool.false_eq_true, if_false, hs2]
  have hkw' : checkForKeyword (List.length name) initInstr.kw name = ({}, name) := hkw
  simp only [hkw', hty, hrs, show ((114 : Nat) == 105) = false by decide, show ((114 : Nat) == 114) = true by decide,
    show ((114 : Nat) == 109) = false by decide, Bool.true_or, Bool.false_eq_true, if_false, if_true]
  simp only [strtokRest, show (0 : Nat) < c_FOURTH_OPERAND by decide, if_true]
  rw [opTok_imm 3 _ c t 1 v b hc hall himm]
  simp only [lexAfterTok, opdTypeString, Instr.setOpd, Instr.opd, initInstr]
  have htw : List.takeWhile (fun x => x != 0) [114, 105, 0, 0] = [114, 105] := by decide
  simp [htw, fmt_ri, allOpdStrToReg, memNoReg, Instr.opd, Instr.setOpd, strncpy, c_MAX_INSTR_LEN, key_mov, hrg, reg_none,
    c_opd_error, c_INSTR_ERROR, c_MOD24, AL.Lemmas.MovImm.movRec, AL.Lemmas.MovImm.kw0, AL.Lemmas.MovImm.hex0]


open AL.Lemmas.MovImm

theorem contains_no_head (h0 : Nat) (needle : Str) : ∀ (l : Str), (∀ x ∈ l, x ≠ h0) → contains l (h0 :: needle) = false := by
  intro l
  induction l with
  | nil => intro _; rfl
  | cons a r ih =>
    intro h
    unfold contains
    have ha : a ≠ h0 := h a List.mem_cons_self
    have : isPrefix (h0 :: needle) (a :: r) = false := by
      unfold isPrefix
      simp only [List.length_cons, List.take_succ_cons]
      rw [beq_eq_false_iff_ne]
      intro he
      injection he with h1 _
      exact ha h1
    rw [this, ih (fun x hx => h x (List.mem_cons_of_mem _ hx))]
    rfl

theorem contains_cons (a : Nat) (r needle : Str) : contains (a :: r) needle = (isPrefix needle (a :: r) || contains r needle) := rfl

set_option maxHeartbeats 2000000 in
theorem not_skipped (n : Nat) (name : Str) (g : Nat) (hp : (n, name, g) ∈ regs64) (l : Str)
    (h : ∀ x ∈ l, x ≠ 115 ∧ x ≠ 103 ∧ x ≠ 58) : isSkipped (str! "mov " ++ name ++ 44 :: l) = false := by
  have h1 := contains_no_head 115 (str! "ection") l (fun x hx => (h x hx).1)
  have h2 := contains_no_head 103 (str! "lobal") l (fun x hx => (h x hx).2.1)
  have h3 : ¬ 58 ∈ l := fun hc => (h 58 hc).2.2 rfl
  simp only [regs64, List.mem_cons, Prod.mk.injEq, List.not_mem_nil, or_false] at hp
  rcases hp with ⟨rfl, rfl, rfl⟩ | ⟨rfl, rfl, rfl⟩ | ⟨rfl, rfl, rfl⟩ | ⟨rfl, rfl, rfl⟩ | ⟨rfl, rfl, rfl⟩ | ⟨rfl, rfl, rfl⟩ | ⟨rfl, rfl, rfl⟩ | ⟨rfl, rfl, rfl⟩ | ⟨rfl, rfl, rfl⟩ | ⟨rfl, rfl, rfl⟩ | ⟨rfl, rfl, rfl⟩ | ⟨rfl, rfl, rfl⟩ | ⟨rfl, rfl, rfl⟩ | ⟨rfl, rfl, rfl⟩ | ⟨rfl, rfl, rfl⟩ | ⟨rfl, rfl, rfl⟩
  all_goals (unfold isSkipped; simp only [List.cons_append, List.nil_append]; repeat rw [contains_cons]); 
  all_goals (rw [h1, h2]; simp [isPrefix, List.contains_cons, h3])

/-- a character the filter copies unchanged in the states after the first letter -/
def plainCh (c : Nat) : Bool := decide (33 < c) && decide (c < 127) && !stopCh c && tolower c == c

theorem filterGo_plain (st : FState) (hst : st = .firstCh ∨ st = .spaceFound) :
    ∀ (l : Str) (acc : Str) (j i : Nat) (rest : Str), (∀ c ∈ l, plainCh c = true) → j + l.length ≤ maxFiltered →
      filterGo st acc j i (l ++ rest) = filterGo st (l.reverse ++ acc) (j + l.length) (i + l.length) rest := by
  intro l
  induction l with
  | nil => intro acc j i rest _ _; rfl
  | cons c cs ih =>
    intro acc j i rest h hlen
    have hc := h c List.mem_cons_self
    unfold plainCh at hc
    simp only [Bool.and_eq_true, decide_eq_true_eq, Bool.not_eq_true', beq_iff_eq] at hc
    obtain ⟨⟨⟨h33, h127⟩, hstop⟩, hlow⟩ := hc
    have h128 : c < 128 := Nat.lt_trans h127 (by decide)
    have hstep : filterStep st c = (st, some c) := by
      rcases hst with rfl | rfl <;> (unfold filterStep; simp [h33, h128, hlow])
    simp only [List.cons_append, List.length_cons] at hlen ⊢
    conv => lhs; unfold filterGo
    simp only [hstop, Bool.false_eq_true, if_false, hstep]
    have hj : ¬ j ≥ maxFiltered := by omega
    have h126 : ¬ c > 126 := Nat.not_lt.mpr (Nat.le_of_lt_succ h127)
    simp only [hj, h126, if_false]
    rw [ih (c :: acc) (j + 1) (i + 1) rest (fun x hx => h x (List.mem_cons_of_mem _ hx)) (by omega)]
    have e1 : j + 1 + cs.length = j + (cs.length + 1) := by omega
    have e2 : i + 1 + cs.length = i + (cs.length + 1) := by omega
    rw [e1, e2]
    simp only [List.reverse_cons, List.append_assoc, List.singleton_append]

theorem numCh_plain (c : Nat) (h : numCh c = true) : plainCh c = true := by
  have f := numCh_facts c h
  unfold plainCh stopCh
  simp [f.2.2.2.2.1, f.2.2.2.2.2.1, f.2.2.2.2.2.2.1, f.2.2.2.2.2.2.2.1, f.2.2.2.2.2.2.2.2.2.2.1, f.2.2.2.2.2.2.2.2.2.2.2.1, f.2.2.2.2.2.2.2.2.2.2.2.2]

/-- register names are lower-case letters and digits -/
def regNamePlain (name : Str) : Bool := name.all (fun x => plainCh x) && decide (name.length ≤ 3)
theorem regs_plain : regs64.all (fun p => regNamePlain p.2.1) = true := by decide +kernel

set_option maxHeartbeats 2000000 in
/-- **the line filter on `mov <reg>, <number>`**: the blank after the comma disappears, everything else is kept -/
theorem filter_mov (name : Str) (hname : regNamePlain name = true) (tok : Str) (htok : ∀ c ∈ tok, numCh c = true) (hlen : tok.length ≤ 80) :
    filterLine (str! "mov " ++ name ++ 44 :: 32 :: tok) = some (str! "mov " ++ name ++ 44 :: tok, (str! "mov " ++ name ++ 44 :: 32 :: tok).length) := by
  unfold regNamePlain at hname
  simp only [Bool.and_eq_true, List.all_eq_true, decide_eq_true_eq] at hname
  obtain ⟨hn, hnl⟩ := hname
  have htp : ∀ c ∈ tok, plainCh c = true := fun c hc => numCh_plain c (htok c hc)
  unfold filterLine
  simp only [List.cons_append, List.nil_append]
  -- 'm', 'o', 'v', ' '
  have e1 : filterGo .begin [] 0 0 (109 :: 111 :: 118 :: 32 :: (name ++ 44 :: 32 :: tok)) =
      filterGo .spaceFound [32, 118, 111, 109] 4 4 (name ++ 44 :: 32 :: tok) := by
    simp [filterGo, filterStep, stopCh, tolower, maxFiltered]
  rw [e1, filterGo_plain .spaceFound (Or.inr rfl) name _ 4 4 _ hn (by unfold maxFiltered; omega)]
  -- ',' and the blank
  have e2 : ∀ acc j i, j < 90 → filterGo .spaceFound acc j i (44 :: 32 :: tok) = filterGo .spaceFound (44 :: acc) (j + 1) (i + 2) tok := by
    intro acc j i hj
    have hj' : ¬ j ≥ maxFiltered := by unfold maxFiltered; omega
    simp [filterGo, filterStep, stopCh, tolower, hj']
  rw [e2 _ _ _ (by omega)]
  have e3 := filterGo_plain .spaceFound (Or.inr rfl) tok (44 :: (name.reverse ++ [32, 118, 111, 109])) (4 + name.length + 1) (4 + name.length + 2) []
    htp (by unfold maxFiltered; omega)
  rw [List.append_nil] at e3
  rw [e3]
  unfold filterGo
  simp only [List.reverse_append, List.reverse_cons, List.reverse_reverse, List.reverse_nil, List.nil_append, List.append_assoc,
    List.cons_append, List.length_cons, List.length_append, Option.some.injEq, Prod.mk.injEq]
  constructor
  · simp
  · omega

theorem lineBytes_some (opt : Nat) (s : Instr) (bs : Bytes) (h : lineBytes opt s = some bs) :
    ∃ s', resolveLine opt s = .ok s' ∧ assembleAsm s' = bs := by
  unfold lineBytes at h
  cases hr : resolveLine opt s with
  | error e => rw [hr] at h; simp at h
  | ok s' => rw [hr] at h; simp at h; exact ⟨s', rfl, h⟩

/-- **`mov <r64>, <number>` as a line of text**: for each of the 16 registers, EVERY value v < 2^64 written as any number token
    the tokenizer reads as v (`himm`; the four spellings are instantiated in AL.Properties.C03), every option byte:
    the whole per-line pipeline — filter, lexer, table lookup, encoder, byte emission — yields exactly `movBytes` -/
theorem mov_line (n : Nat) (name : Str) (g : Nat) (hp : (n, name, g) ∈ regs64) (c : Nat) (t : Str) (v : Nat) (b : Bool)
    (hc : numHead c = true) (hall : ∀ x ∈ c :: t, numCh x = true) (hlen : (c :: t).length ≤ 80)
    (himm : ∀ s : Instr, immTok s (c :: t) = .ok { s with imm := true, narrowOk := b, cons := v })
    (hv : v < 2 ^ 64) (opt : Nat) :
    (assembleLine opt (str! "mov " ++ name ++ 44 :: 32 :: c :: t)).1 = .ok (.code (movBytes n v (narrows opt b))) := by
  have hok : regNameOk name g = true := by
    have := regs_ok
    rw [List.all_eq_true] at this
    exact this (n, name, g) hp
  have hpl : regNamePlain name = true := by
    have := regs_plain
    rw [List.all_eq_true] at this
    exact this (n, name, g) hp
  have hskip := not_skipped n name g hp (c :: t) (fun x hx => by
    have f := numCh_facts x (hall x hx); exact ⟨f.2.2.2.2.2.2.2.2.1, f.2.2.2.2.2.2.2.2.2.1, f.2.2.2.1⟩)
  obtain ⟨s', hres, hbytes⟩ := lineBytes_some opt _ _ (mov_bytes n name g hp v b opt hv)
  unfold assembleLine
  rw [filter_mov name hpl (c :: t) hall hlen]
  simp only [hskip, Bool.false_eq_true, if_false, lex_mov name g hok c t v b hc hall himm, hres, hbytes]

end AL.Lemmas.MovText
