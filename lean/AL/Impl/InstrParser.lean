/-
  AL.Impl.InstrParser — src/instr_parser.c and asm_build_index_tables (src/assemblyline.c).
-/
import AL.Impl.Tokenizer
namespace AL.Impl
open AL AL.Gen

def rowAt (k : Int) : Row :=
  if k < 0 then default else instrTable.getD k.toNat default

def setIdx (l : List Nat) (i v : Nat) : List Nat := l.set i v

/-- `asm_build_index_tables`, first loop (INSTR_TABLE), starting at row 3. -/
def buildInstrIndexGo : List Row → Nat → Ch → List Nat → List Nat
  | [], _, _, idx => idx
  | r :: rs, i, prev, idx =>
    if r.id == c_NA then idx
    else match r.name with
      | [] => buildInstrIndexGo rs (i + 1) prev idx
      | c :: _ =>
        let idx := if prev != c then setIdx idx (c - ch! 'a') i else idx
        buildInstrIndexGo rs (i + 1) c idx

def buildInstrIndex (t : List Row) : List Nat :=
  buildInstrIndexGo (t.drop 3) 3 (ch! 'a' - 1) (List.replicate 26 0)

/-- second loop (OPD_FORMAT_TABLE), starting at entry 1. -/
def buildOpdIndexGo : List (Int × Str) → Nat → Ch → List Nat → List Nat
  | [], _, _, idx => idx
  | (v, s) :: rs, i, prev, idx =>
    if v == c_opd_error then idx
    else
      let c := chAt s 0
      if prev != c then buildOpdIndexGo rs (i + 1) c (setIdx idx (c - ch! 'a') i)
      else buildOpdIndexGo rs (i + 1) prev idx

def buildOpdIndex (t : List (Int × Str)) : List Nat :=
  buildOpdIndexGo (t.drop 1) 1 0 (List.replicate 26 0)

/-- `get_opd_format`: scan from the indexed entry to the `opd_error` sentinel. -/
def getOpdFormatGo (en : Str) : List (Int × Str) → Int
  | [] => c_opd_error
  | (v, s) :: rs =>
    if v == c_opd_error then c_opd_error
    else if s == en then v
    else getOpdFormatGo en rs

def getOpdFormat (idx : List Nat) (en : Str) : Int :=
  let start : Int :=
    match en with
    | [] => -1
    | c :: _ => (idx.getD (c - ch! 'a') 0 : Int) - 1
  -- `while (OPD_FORMAT_TABLE[++i] ...)`: first entry looked at is start + 1
  getOpdFormatGo en (opdFormatTable.drop (start + 1).toNat)

/-- inner loop of `str_to_instr_key`: rows of the found mnemonic, compare formats -/
def keyFormatGo (found : Int) (layout : Int) : List Row → Nat → Int
  | [], _ => c_INSTR_ERROR
  | r :: rs, i =>
    if r.id != found then c_INSTR_ERROR
    else if r.fmt0 == layout || r.fmt1 == layout then (i : Int)
    else keyFormatGo found layout rs (i + 1)

/-- outer loop of `str_to_instr_key` -/
def keyNameGo (name : Str) (layout : Int) : List Row → Nat → Int
  | [], _ => c_INSTR_ERROR
  | r :: rs, i =>
    if r.id == c_NA then c_INSTR_ERROR
    else if !r.name.isEmpty && r.name == name then keyFormatGo r.id layout (r :: rs) i
    else keyNameGo name layout rs (i + 1)

def strToInstrKey (idx : List Nat) (name : Str) (layout : Int) : Int :=
  match name with
  | [] => c_INSTR_ERROR
  | c :: _ =>
    if inRange c (ch! 'a') (ch! 'z') then
      let start : Int := (idx.getD (c - ch! 'a') 0 : Int) - 1
      let first := (start + 1).toNat
      keyNameGo name layout (instrTable.drop first) first
    else c_INSTR_ERROR

end AL.Impl
