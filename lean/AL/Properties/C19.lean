/-
  C19 — file entry points equal their in-memory counterparts.

  `asm_read_file` (AL.Impl.Faults.readFile, with the OS answers as parameters) copies the file into a
  NUL-terminated allocation; the entry points then call the string entry points on it.  Theorems, for
  EVERY file content (every size, empty, any multiple of the page size — the model has no page
  arithmetic because the code has none since the file is read, not mapped) and every instance state:
   * `read_all`                — when the OS delivers the file in arbitrary positive pieces (short reads
                                 included) the copy is the whole content, cut at its first NUL byte as a C
                                 string is;
   * `file_equals_str`         — asm_assemble_file = asm_assemble_str on that text: same return value,
                                 same instance (buffer bytes, offset, settings);
   * `file_counting_equals_str`— the same for the chunk-counting entry point, including `*dest`;
   * `missing_file_fails`      — a file that cannot be opened yields EXIT_FAILURE and leaves the instance
                                 untouched;
   * C17 `bin_file_complete`   — asm_create_bin_file creates exactly code[0, asm_get_offset).
-/
import AL.Properties.C17
import AL.Lemmas.Numerals
namespace AL.Properties.C19
open AL AL.Impl AL.Gen

def positive : ReadAns → Bool
  | .bytes k => k > 0
  | .err => false

/-- the read loop delivers everything when every read makes progress -/
theorem readLoop_all (content : Str) (rs : List ReadAns) (h : ∀ r ∈ rs, positive r = true) :
    ∀ pos, pos ≤ content.length → readLoop content content.length pos rs = some content.length := by
  induction rs with
  | nil =>
    intro pos hp
    unfold readLoop
    split
    · simp
    · simp; omega
  | cons r rs ih =>
    intro pos hp
    unfold readLoop
    split
    · rename_i hlt
      have hr := h r List.mem_cons_self
      cases r with
      | err => simp [positive] at hr
      | bytes k =>
        simp only [positive, decide_eq_true_eq] at hr
        dsimp only
        have hgot : min k (min (content.length - pos) (content.length - pos)) ≠ 0 := by
          simp only [Nat.min_self]; omega
        simp only [beq_iff_eq, hgot, if_false]
        apply ih (fun r hr => h r (List.mem_cons_of_mem _ hr))
        simp only [Nat.min_self]
        omega
    · have : pos = content.length := by omega
      rw [this]

/-- **the copy is the file**, as a C string, however the reads are cut up -/
theorem read_all (content : Str) (rs : List ReadAns) (h : ∀ r ∈ rs, positive r = true) :
    readFile content true true true rs = some (content.takeWhile (· != 0)) := by
  unfold readFile
  simp only [Bool.not_true, Bool.false_eq_true, if_false, Bool.or_self]
  rw [readLoop_all content rs h 0 (Nat.zero_le _)]
  simp

/-- **asm_assemble_file = asm_assemble_str on the file's text** -/
theorem file_equals_str (a : Inst) (content : Str) (rs : List ReadAns) (h : ∀ r ∈ rs, positive r = true) :
    asmAssembleFile a (readFile content true true true rs) = asmAssembleStr a (content.takeWhile (· != 0)) := by
  rw [read_all content rs h]; rfl

/-- for a file without NUL bytes the text is the content itself -/
theorem file_equals_str_text (a : Inst) (content : Str) (h0 : ∀ c ∈ content, c ≠ 0) :
    asmAssembleFile a (readFile content true true true []) = asmAssembleStr a content := by
  rw [file_equals_str a content [] (by simp)]
  congr 1
  exact AL.Lemmas.takeWhile_all _ _ (fun c hc => by simp [h0 c hc])

theorem file_counting_equals_str (a : Inst) (content : Str) (rs : List ReadAns) (h : ∀ r ∈ rs, positive r = true)
    (c : Int) (d : Bool) :
    asmCountingChunksFile a (readFile content true true true rs) c d =
      asmCountingChunks a (content.takeWhile (· != 0)) c d := by
  rw [read_all content rs h]; rfl

/-- **a missing or unreadable file**: EXIT_FAILURE, instance untouched -/
theorem missing_file_fails (a : Inst) (content : Str) (fstatOk mallocOk : Bool) (rs : List ReadAns) :
    asmAssembleFile a (readFile content false fstatOk mallocOk rs) = (a, .error .fail) := by
  unfold readFile; rfl

/-- the empty file assembles like the empty string -/
example (a : Inst) : asmAssembleFile a (readFile [] true true true []) = asmAssembleStr a [] := by
  rw [file_equals_str_text a [] (by simp)]

end AL.Properties.C19
