/-
  AL.Lemmas.Numerals — what the C library's `strtoul` (model `strtoulEnd`) makes of a written number:
  for EVERY n < 2^64, the decimal spelling, the hexadecimal spelling with any number of leading
  zeros, in either letter case of the prefix, and the negated spellings all convert to n (resp.
  2^64 - n), with nothing left over.  These are the number-base statements of C16 and the
  "written in decimal or hexadecimal, optionally negated" part of C03.
-/
import AL.Impl.Tokenizer
namespace AL.Lemmas
open AL AL.Impl AL.Gen

/-- digits of `n` in base `b`, most significant first (`fuel` ≥ number of digits) -/
def digs (b : Nat) : Nat → Nat → List Nat
  | 0, _ => []
  | f + 1, n => if n < b then [n] else digs b f (n / b) ++ [n % b]

def digVal (b : Nat) (ds : List Nat) : Nat := ds.foldl (fun a d => a * b + d) 0

/-- the character of a digit value (lower case) -/
def digitCh (d : Nat) : Ch := if d < 10 then 48 + d else 87 + d

theorem foldl_digit_append (b : Nat) (a : Nat) (xs ys : List Nat) :
    (xs ++ ys).foldl (fun a d => a * b + d) a = ys.foldl (fun a d => a * b + d) (xs.foldl (fun a d => a * b + d) a) :=
  List.foldl_append

theorem digVal_digs (b : Nat) (hb : 2 ≤ b) : ∀ (f n : Nat), n < b ^ f → digVal b (digs b f n) = n := by
  intro f
  induction f with
  | zero => intro n h; simp at h; subst h; rfl
  | succ f ih =>
    intro n h
    unfold digs
    split
    · simp [digVal]
    · rename_i hnb
      have hq : n / b < b ^ f := by
        rw [Nat.div_lt_iff_lt_mul (by omega)]
        rw [Nat.pow_succ] at h
        exact h
      unfold digVal
      rw [foldl_digit_append]
      have := ih (n / b) hq
      unfold digVal at this
      rw [this]
      simp only [List.foldl_cons, List.foldl_nil]
      have := Nat.div_add_mod n b
      rw [Nat.mul_comm] at this
      exact this

theorem digs_lt (b : Nat) (hb : 2 ≤ b) : ∀ (f n : Nat), ∀ d ∈ digs b f n, d < b := by
  intro f
  induction f with
  | zero => intro n d hd; simp [digs] at hd
  | succ f ih =>
    intro n d hd
    unfold digs at hd
    split at hd
    · simp at hd; omega
    · rw [List.mem_append] at hd
      rcases hd with hd | hd
      · exact ih _ d hd
      · simp at hd; rw [hd]; exact Nat.mod_lt _ (by omega)

theorem digs_ne_nil (b f n : Nat) : digs b (f + 1) n ≠ [] := by
  unfold digs
  split
  · simp
  · simp

theorem digitVal_digitCh : ∀ d, d < 16 → digitVal (digitCh d) = some d := by decide

theorem digitCh_not_space : ∀ d, d < 16 → isSpaceC (digitCh d) = false ∧ digitCh d ≠ 45 ∧ digitCh d ≠ 43 ∧ digitCh d ≠ 32 ∧
    digitCh d ≠ 120 ∧ digitCh d ≠ 88 := by decide

/-- `digitsVal` over a string of valid digits consumes all of them -/
theorem digitsVal_digits (b : Nat) (hb : b ≤ 16) (ds : List Nat) (hds : ∀ d ∈ ds, d < b) (acc : Nat) (seen : Bool) :
    digitsVal b acc seen (ds.map digitCh) =
      (ds.foldl (fun a d => a * b + d) acc, [], seen || !ds.isEmpty) := by
  induction ds generalizing acc seen with
  | nil => simp [digitsVal]
  | cons d ds ih =>
    have hd : d < b := hds d List.mem_cons_self
    simp only [List.map_cons, digitsVal]
    rw [digitVal_digitCh d (by omega)]
    simp only [hd, if_true]
    rw [ih (fun x hx => hds x (List.mem_cons_of_mem _ hx))]
    simp

/-- value of zeros in front -/
theorem foldl_zeros (b k : Nat) (ds : List Nat) :
    (List.replicate k 0 ++ ds).foldl (fun a d => a * b + d) 0 = ds.foldl (fun a d => a * b + d) 0 := by
  induction k with
  | zero => rfl
  | succ k ih =>
    rw [List.replicate_succ, List.cons_append, List.foldl_cons]
    simpa using ih

/-- the decimal spelling of `n` -/
def decStr (n : Nat) : Str := (digs 10 20 n).map digitCh

/-- the hexadecimal digits of `n` with `k` extra leading zeros -/
def hexDigs (k n : Nat) : Str := (List.replicate k 0 ++ digs 16 16 n).map digitCh

theorem two64_lt_10_20 : (2 : Nat) ^ 64 < 10 ^ 20 := by decide
theorem two64_eq_16_16 : (2 : Nat) ^ 64 = 16 ^ 16 := by decide

theorem dropWhile_space_digit (d : Nat) (hd : d < 16) (rest : Str) :
    (digitCh d :: rest).dropWhile isSpaceC = digitCh d :: rest := by
  simp [List.dropWhile, (digitCh_not_space d hd).1]

theorem stripSign_digit (d : Nat) (hd : d < 16) (rest : Str) :
    stripSign (digitCh d :: rest) = (false, digitCh d :: rest) := by
  have hsp := digitCh_not_space d hd
  unfold stripSign
  split
  · rename_i heq; injection heq with h1 _; exact absurd h1 hsp.2.1
  · rename_i heq; injection heq with h1 _; exact absurd h1 hsp.2.2.1
  · rfl

theorem strtoulResult_small (neg : Bool) (v : Nat) (h : v < 2 ^ 64) :
    strtoulResult neg v = if neg then (2 ^ 64 - v) % 2 ^ 64 else v := by
  unfold strtoulResult
  have : ¬ v ≥ 2 ^ 64 := by omega
  simp [this]

/-- **decimal**: `strtoul(decimal spelling of n, &end, 10) = n`, everything consumed -/
theorem strtoul_dec (n : Nat) (hn : n < 2 ^ 64) : strtoulEnd (decStr n) 10 = (n, [], true) := by
  have h20 : n < 10 ^ 20 := Nat.lt_trans hn two64_lt_10_20
  have hlt := digs_lt 10 (by decide) 20 n
  have hval := digVal_digs 10 (by decide) 20 n h20
  have hne := digs_ne_nil 10 19 n
  unfold decStr
  generalize hds : digs 10 20 n = ds at *
  match ds, hne with
  | d :: ds', _ =>
    have hd : d < 10 := hlt d List.mem_cons_self
    unfold strtoulEnd
    simp only [List.map_cons]
    rw [dropWhile_space_digit d (by omega), stripSign_digit d (by omega)]
    have := digitsVal_digits 10 (by decide) (d :: ds') hlt 0 false
    simp only [List.map_cons] at this
    simp only [show ((10 : Nat) == 16) = false by decide, Bool.false_eq_true, if_false, this]
    unfold digVal at hval
    rw [hval, strtoulResult_small false n hn]
    simp


theorem hexDigs_props (k n : Nat) (hn : n < 2 ^ 64) :
    (∀ d ∈ List.replicate k 0 ++ digs 16 16 n, d < 16) ∧
    (List.replicate k 0 ++ digs 16 16 n).foldl (fun a d => a * 16 + d) 0 = n ∧
    List.replicate k 0 ++ digs 16 16 n ≠ [] := by
  refine ⟨?_, ?_, ?_⟩
  · intro d hd
    rw [List.mem_append] at hd
    rcases hd with hd | hd
    · rw [List.mem_replicate] at hd; omega
    · exact digs_lt 16 (by decide) 16 n d hd
  · rw [foldl_zeros]
    have := digVal_digs 16 (by decide) 16 n (by rw [← two64_eq_16_16]; exact hn)
    exact this
  · intro h
    have := digs_ne_nil 16 15 n
    rw [List.append_eq_nil_iff] at h
    exact this h.2

/-- the body of a hexadecimal literal (digits only), any number of leading zeros -/
theorem digitsVal_hex (k n : Nat) (hn : n < 2 ^ 64) : digitsVal 16 0 false (hexDigs k n) = (n, [], true) := by
  obtain ⟨hlt, hval, hne⟩ := hexDigs_props k n hn
  unfold hexDigs
  rw [digitsVal_digits 16 (by decide) _ hlt 0 false, hval]
  cases hl : List.replicate k 0 ++ digs 16 16 n with
  | nil => exact absurd hl hne
  | cons a b => simp

/-- **hexadecimal**: "0x"/"0X", any number of leading zeros, then the digits of n -/
theorem strtoul_hex (x : Ch) (hx : x = 120 ∨ x = 88) (k n : Nat) (hn : n < 2 ^ 64) :
    strtoulEnd (48 :: x :: hexDigs k n) 16 = (n, [], true) := by
  obtain ⟨hlt, _, hne⟩ := hexDigs_props k n hn
  have hbody := digitsVal_hex k n hn
  unfold strtoulEnd
  have h0 : (48 :: x :: hexDigs k n).dropWhile isSpaceC = 48 :: x :: hexDigs k n := by
    simp [List.dropWhile, isSpaceC]
  have hs : stripSign (48 :: x :: hexDigs k n) = (false, 48 :: x :: hexDigs k n) := by
    unfold stripSign; rfl
  rw [h0, hs]
  simp only [beq_self_eq_true, if_true]
  have hp : stripHexPrefix (48 :: x :: hexDigs k n) = hexDigs k n := by
    unfold stripHexPrefix
    have hxx : (x == 120 || x == 88) = true := by rcases hx with rfl | rfl <;> rfl
    simp only [hxx, Bool.true_and]
    unfold hexDigs at *
    cases hl : List.replicate k 0 ++ digs 16 16 n with
    | nil => exact absurd hl hne
    | cons a b =>
      have ha : a < 16 := hlt a (by rw [hl]; exact List.mem_cons_self)
      simp only [List.map_cons, digitVal_digitCh a ha, decide_eq_true_eq, ha, if_true]
  rw [hp, hbody, strtoulResult_small false n hn]
  simp

theorem digitsVal_dec (n : Nat) (hn : n < 2 ^ 64) : digitsVal 10 0 false (decStr n) = (n, [], true) := by
  have h20 : n < 10 ^ 20 := Nat.lt_trans hn two64_lt_10_20
  have hlt := digs_lt 10 (by decide) 20 n
  have hval := digVal_digs 10 (by decide) 20 n h20
  have hne := digs_ne_nil 10 19 n
  unfold decStr
  rw [digitsVal_digits 10 (by decide) _ hlt 0 false]
  unfold digVal at hval
  rw [hval]
  cases hl : digs 10 20 n with
  | nil => exact absurd hl hne
  | cons a b => simp

theorem decStr_head (n : Nat) : ∃ d rest, d < 10 ∧ decStr n = digitCh d :: rest := by
  have hne := digs_ne_nil 10 19 n
  unfold decStr
  cases hl : digs 10 20 n with
  | nil => exact absurd hl hne
  | cons a b =>
    exact ⟨a, b.map digitCh, digs_lt 10 (by decide) 20 n a (by rw [hl]; exact List.mem_cons_self), rfl⟩

/-- **negation**: a '-' in front of either spelling gives the two's complement -/
theorem strtoul_neg_dec (n : Nat) (hn : n < 2 ^ 64) :
    strtoulEnd (45 :: decStr n) 10 = ((2 ^ 64 - n) % 2 ^ 64, [], true) := by
  unfold strtoulEnd
  have h0 : (45 :: decStr n).dropWhile isSpaceC = 45 :: decStr n := by simp [List.dropWhile, isSpaceC]
  have hs : stripSign (45 :: decStr n) = (true, decStr n) := by unfold stripSign; rfl
  rw [h0, hs]
  simp only [show ((10 : Nat) == 16) = false by decide, Bool.false_eq_true, if_false]
  rw [digitsVal_dec n hn, strtoulResult_small true n hn]
  simp

theorem stripHexPrefix_hex (x : Ch) (hx : x = 120 ∨ x = 88) (k n : Nat) (hn : n < 2 ^ 64) :
    stripHexPrefix (48 :: x :: hexDigs k n) = hexDigs k n := by
  obtain ⟨hlt, _, hne⟩ := hexDigs_props k n hn
  unfold stripHexPrefix
  have hxx : (x == 120 || x == 88) = true := by rcases hx with rfl | rfl <;> rfl
  simp only [hxx, Bool.true_and]
  unfold hexDigs at *
  cases hl : List.replicate k 0 ++ digs 16 16 n with
  | nil => exact absurd hl hne
  | cons a b =>
    have ha : a < 16 := hlt a (by rw [hl]; exact List.mem_cons_self)
    simp only [List.map_cons, digitVal_digitCh a ha, decide_eq_true_eq, ha, if_true]

theorem strtoul_neg_hex (x : Ch) (hx : x = 120 ∨ x = 88) (k n : Nat) (hn : n < 2 ^ 64) :
    strtoulEnd (45 :: 48 :: x :: hexDigs k n) 16 = ((2 ^ 64 - n) % 2 ^ 64, [], true) := by
  unfold strtoulEnd
  have h0 : (45 :: 48 :: x :: hexDigs k n).dropWhile isSpaceC = 45 :: 48 :: x :: hexDigs k n := by
    simp [List.dropWhile, isSpaceC]
  have hs : stripSign (45 :: 48 :: x :: hexDigs k n) = (true, 48 :: x :: hexDigs k n) := by unfold stripSign; rfl
  rw [h0, hs]
  simp only [beq_self_eq_true, if_true]
  rw [stripHexPrefix_hex x hx k n hn, digitsVal_hex k n hn, strtoulResult_small true n hn]
  simp


/-! ### imm_tok on a written number -/

theorem takeWhile_all {α} (p : α → Bool) (l : List α) (h : ∀ c ∈ l, p c = true) : l.takeWhile p = l := by
  induction l with
  | nil => rfl
  | cons a b ih => simp [List.takeWhile, h a List.mem_cons_self, ih (fun c hc => h c (List.mem_cons_of_mem _ hc))]

theorem dropWhile_all {α} (p : α → Bool) (l : List α) (h : ∀ c ∈ l, p c = true) : l.dropWhile p = [] := by
  induction l with
  | nil => rfl
  | cons a b ih => simp [List.dropWhile, h a List.mem_cons_self, ih (fun c hc => h c (List.mem_cons_of_mem _ hc))]

theorem strtok_whole (t : Str) (hne : t ≠ []) (hsp : ∀ c ∈ t, c ≠ 32) : strtok t [32] = some (t, []) := by
  have hd : ∀ c ∈ t, isDelim [32] c = false := by
    intro c hc
    have := hsp c hc
    simp [isDelim, this]
  unfold strtok
  have h1 : t.dropWhile (isDelim [32]) = t := by
    cases t with
    | nil => exact absurd rfl hne
    | cons a b => simp [List.dropWhile, hd a List.mem_cons_self]
  rw [h1]
  cases t with
  | nil => exact absurd rfl hne
  | cons a b =>
    have h2 : (a :: b).takeWhile (fun c => !isDelim [32] c) = a :: b :=
      takeWhile_all _ _ (fun c hc => by simp [hd c hc])
    have h3 : (a :: b).dropWhile (fun c => !isDelim [32] c) = [] :=
      dropWhile_all _ _ (fun c hc => by simp [hd c hc])
    simp only [h2, h3, List.drop_nil]

/-- imm_tok on a token without blanks whose conversion consumes everything -/
theorem immTok_of_strtoul (s : Instr) (t : Str) (hne : t ≠ []) (hsp : ∀ c ∈ t, c ≠ 32) (v : Nat)
    (hv : strtoulEnd t (if (chAt t 1 == 120 || (chAt t 1 != 0 && chAt t 2 == 120)) then 16 else 10) = (v, [], true)) :
    immTok s t = .ok { s with imm := true,
                              narrowOk := !((chAt t 1 == 120 || (chAt t 1 != 0 && chAt t 2 == 120)) && decide (t.length ≥ c_STR_HEX_64)),
                              cons := v } := by
  unfold immTok
  simp only [strtok_whole t hne hsp]
  simp only [hv]
  simp


theorem digitCh_bounds : ∀ d, d < 16 → digitCh d ≠ 120 ∧ digitCh d ≠ 32 ∧ digitCh d ≠ 0 := by decide

theorem chAt_ne (l : Str) (i : Nat) (x : Ch) (hx : x ≠ 0) (h : ∀ c ∈ l, c ≠ x) : chAt l i ≠ x := by
  unfold chAt
  rw [List.getD_eq_getElem?_getD]
  cases hi : l[i]? with
  | none => simp; exact fun e => hx e.symm
  | some c => simp; exact h c (List.mem_of_getElem? hi)

theorem decStr_chars (n : Nat) : ∀ c ∈ decStr n, c ≠ 120 ∧ c ≠ 32 := by
  intro c hc
  unfold decStr at hc
  rw [List.mem_map] at hc
  obtain ⟨d, hd, rfl⟩ := hc
  have := digitCh_bounds d (Nat.lt_trans (digs_lt 10 (by decide) 20 n d hd) (by decide))
  exact ⟨this.1, this.2.1⟩

theorem hexDigs_chars (k n : Nat) (hn : n < 2 ^ 64) : ∀ c ∈ hexDigs k n, c ≠ 32 := by
  intro c hc
  unfold hexDigs at hc
  rw [List.mem_map] at hc
  obtain ⟨d, hd, rfl⟩ := hc
  exact (digitCh_bounds d ((hexDigs_props k n hn).1 d hd)).2.1

/-- **a decimal immediate**: imm_tok yields the number -/
theorem immTok_dec (s : Instr) (n : Nat) (hn : n < 2 ^ 64) :
    immTok s (decStr n) = .ok { s with imm := true, narrowOk := true, cons := n } := by
  obtain ⟨d, rest, hd, hds⟩ := decStr_head n
  have hch := decStr_chars n
  have h1 : (chAt (decStr n) 1 == 120) = false := by
    rw [beq_eq_false_iff_ne]; exact chAt_ne _ 1 120 (by decide) (fun c hc => (hch c hc).1)
  have h2 : (chAt (decStr n) 2 == 120) = false := by
    rw [beq_eq_false_iff_ne]; exact chAt_ne _ 2 120 (by decide) (fun c hc => (hch c hc).1)
  have := immTok_of_strtoul s (decStr n) (by rw [hds]; simp) (fun c hc => (hch c hc).2) n
    (by simp only [h1, h2, Bool.and_false, Bool.or_false, Bool.false_eq_true, if_false]; exact strtoul_dec n hn)
  rw [this]
  simp [h1, h2]

/-- **a negated decimal immediate** -/
theorem immTok_neg_dec (s : Instr) (n : Nat) (hn : n < 2 ^ 64) :
    immTok s (45 :: decStr n) = .ok { s with imm := true, narrowOk := true, cons := (2 ^ 64 - n) % 2 ^ 64 } := by
  have hch := decStr_chars n
  have hall : ∀ c ∈ (45 :: decStr n), c ≠ 120 ∧ c ≠ 32 := by
    intro c hc
    rw [List.mem_cons] at hc
    rcases hc with rfl | hc
    · decide
    · exact hch c hc
  have h1 : (chAt (45 :: decStr n) 1 == 120) = false := by
    rw [beq_eq_false_iff_ne]; exact chAt_ne _ 1 120 (by decide) (fun c hc => (hall c hc).1)
  have h2 : (chAt (45 :: decStr n) 2 == 120) = false := by
    rw [beq_eq_false_iff_ne]; exact chAt_ne _ 2 120 (by decide) (fun c hc => (hall c hc).1)
  have := immTok_of_strtoul s (45 :: decStr n) (by simp) (fun c hc => (hall c hc).2) ((2 ^ 64 - n) % 2 ^ 64)
    (by simp only [h1, h2, Bool.and_false, Bool.or_false, Bool.false_eq_true, if_false]; exact strtoul_neg_dec n hn)
  rw [this]
  simp [h1, h2]

/-- **a hexadecimal immediate** with `k` leading zeros: the number; narrowing stays allowed unless
    the literal is at least 18 characters long -/
theorem immTok_hex (s : Instr) (k n : Nat) (hn : n < 2 ^ 64) :
    immTok s (48 :: 120 :: hexDigs k n) =
      .ok { s with imm := true, narrowOk := !decide ((hexDigs k n).length + 2 ≥ c_STR_HEX_64), cons := n } := by
  have hall : ∀ c ∈ (48 :: 120 :: hexDigs k n), c ≠ 32 := by
    intro c hc
    simp only [List.mem_cons] at hc
    rcases hc with rfl | rfl | hc
    · decide
    · decide
    · exact hexDigs_chars k n hn c hc
  have h1 : (chAt (48 :: 120 :: hexDigs k n) 1 == 120) = true := rfl
  have := immTok_of_strtoul s (48 :: 120 :: hexDigs k n) (by simp) hall n
    (by simp only [h1, Bool.true_or, if_true]; exact strtoul_hex 120 (Or.inl rfl) k n hn)
  rw [this]
  simp [h1]

/-- **a negated hexadecimal immediate** -/
theorem immTok_neg_hex (s : Instr) (k n : Nat) (hn : n < 2 ^ 64) :
    immTok s (45 :: 48 :: 120 :: hexDigs k n) =
      .ok { s with imm := true, narrowOk := !decide ((hexDigs k n).length + 3 ≥ c_STR_HEX_64),
                   cons := (2 ^ 64 - n) % 2 ^ 64 } := by
  have hall : ∀ c ∈ (45 :: 48 :: 120 :: hexDigs k n), c ≠ 32 := by
    intro c hc
    simp only [List.mem_cons] at hc
    rcases hc with rfl | rfl | rfl | hc
    · decide
    · decide
    · decide
    · exact hexDigs_chars k n hn c hc
  have h1 : (chAt (45 :: 48 :: 120 :: hexDigs k n) 1 == 120) = false := rfl
  have h1' : (chAt (45 :: 48 :: 120 :: hexDigs k n) 1 != 0) = true := rfl
  have h2 : (chAt (45 :: 48 :: 120 :: hexDigs k n) 2 == 120) = true := rfl
  have := immTok_of_strtoul s (45 :: 48 :: 120 :: hexDigs k n) (by simp) hall ((2 ^ 64 - n) % 2 ^ 64)
    (by simp only [h1, h1', h2, Bool.and_true, Bool.or_true, if_true]; exact strtoul_neg_hex 120 (Or.inl rfl) k n hn)
  rw [this]
  simp [h1, h1', h2]

/-! ### decimal numerals with leading zeros (base 10 is chosen by `imm_tok`, never octal) -/

/-- the decimal digits of `n` with `k` extra leading zeros -/
def decDigs (k n : Nat) : Str := (List.replicate k 0 ++ digs 10 20 n).map digitCh

theorem decDigs_zero (n : Nat) : decDigs 0 n = decStr n := by simp [decDigs, decStr]

theorem decDigs_props (k n : Nat) (hn : n < 2 ^ 64) :
    (∀ d ∈ List.replicate k 0 ++ digs 10 20 n, d < 10) ∧
    (List.replicate k 0 ++ digs 10 20 n).foldl (fun a d => a * 10 + d) 0 = n ∧
    List.replicate k 0 ++ digs 10 20 n ≠ [] := by
  refine ⟨?_, ?_, ?_⟩
  · intro d hd
    rw [List.mem_append] at hd
    rcases hd with hd | hd
    · rw [List.mem_replicate] at hd; omega
    · exact digs_lt 10 (by decide) 20 n d hd
  · rw [foldl_zeros]
    exact digVal_digs 10 (by decide) 20 n (Nat.lt_trans hn two64_lt_10_20)
  · intro h
    have := digs_ne_nil 10 19 n
    rw [List.append_eq_nil_iff] at h
    exact this h.2

theorem digitsVal_decDigs (k n : Nat) (hn : n < 2 ^ 64) : digitsVal 10 0 false (decDigs k n) = (n, [], true) := by
  obtain ⟨hlt, hval, hne⟩ := decDigs_props k n hn
  unfold decDigs
  rw [digitsVal_digits 10 (by decide) _ hlt 0 false, hval]
  cases hl : List.replicate k 0 ++ digs 10 20 n with
  | nil => exact absurd hl hne
  | cons a b => simp

theorem decDigs_head (k n : Nat) (hn : n < 2 ^ 64) : ∃ d rest, d < 10 ∧ decDigs k n = digitCh d :: rest := by
  obtain ⟨hlt, _, hne⟩ := decDigs_props k n hn
  unfold decDigs
  cases hl : List.replicate k 0 ++ digs 10 20 n with
  | nil => exact absurd hl hne
  | cons a b => exact ⟨a, b.map digitCh, hlt a (by rw [hl]; exact List.mem_cons_self), rfl⟩

/-- **decimal with leading zeros**: still the decimal value (never octal), everything consumed -/
theorem strtoul_dec_pad (k n : Nat) (hn : n < 2 ^ 64) : strtoulEnd (decDigs k n) 10 = (n, [], true) := by
  obtain ⟨d, rest, hd, hds⟩ := decDigs_head k n hn
  have hbody := digitsVal_decDigs k n hn
  unfold strtoulEnd
  rw [hds, dropWhile_space_digit d (by omega), stripSign_digit d (by omega), ← hds]
  simp only [show ((10 : Nat) == 16) = false by decide, Bool.false_eq_true, if_false]
  rw [hbody, strtoulResult_small false n hn]
  simp

theorem strtoul_neg_dec_pad (k n : Nat) (hn : n < 2 ^ 64) :
    strtoulEnd (45 :: decDigs k n) 10 = ((2 ^ 64 - n) % 2 ^ 64, [], true) := by
  unfold strtoulEnd
  have h0 : (45 :: decDigs k n).dropWhile isSpaceC = 45 :: decDigs k n := by simp [List.dropWhile, isSpaceC]
  have hs : stripSign (45 :: decDigs k n) = (true, decDigs k n) := by unfold stripSign; rfl
  rw [h0, hs]
  simp only [show ((10 : Nat) == 16) = false by decide, Bool.false_eq_true, if_false]
  rw [digitsVal_decDigs k n hn, strtoulResult_small true n hn]
  simp

theorem decDigs_chars (k n : Nat) (hn : n < 2 ^ 64) : ∀ c ∈ decDigs k n, c ≠ 120 ∧ c ≠ 32 := by
  intro c hc
  unfold decDigs at hc
  rw [List.mem_map] at hc
  obtain ⟨d, hd, rfl⟩ := hc
  have := digitCh_bounds d (Nat.lt_trans ((decDigs_props k n hn).1 d hd) (by decide))
  exact ⟨this.1, this.2.1⟩

/-- **a decimal immediate written with `k` leading zeros**: imm_tok yields the decimal number -/
theorem immTok_dec_pad (s : Instr) (k n : Nat) (hn : n < 2 ^ 64) :
    immTok s (decDigs k n) = .ok { s with imm := true, narrowOk := true, cons := n } := by
  obtain ⟨d, rest, hd, hds⟩ := decDigs_head k n hn
  have hch := decDigs_chars k n hn
  have h1 : (chAt (decDigs k n) 1 == 120) = false := by
    rw [beq_eq_false_iff_ne]; exact chAt_ne _ 1 120 (by decide) (fun c hc => (hch c hc).1)
  have h2 : (chAt (decDigs k n) 2 == 120) = false := by
    rw [beq_eq_false_iff_ne]; exact chAt_ne _ 2 120 (by decide) (fun c hc => (hch c hc).1)
  have := immTok_of_strtoul s (decDigs k n) (by rw [hds]; simp) (fun c hc => (hch c hc).2) n
    (by simp only [h1, h2, Bool.and_false, Bool.or_false, Bool.false_eq_true, if_false]; exact strtoul_dec_pad k n hn)
  rw [this]
  simp [h1, h2]

theorem immTok_neg_dec_pad (s : Instr) (k n : Nat) (hn : n < 2 ^ 64) :
    immTok s (45 :: decDigs k n) = .ok { s with imm := true, narrowOk := true, cons := (2 ^ 64 - n) % 2 ^ 64 } := by
  have hch := decDigs_chars k n hn
  have hall : ∀ c ∈ (45 :: decDigs k n), c ≠ 120 ∧ c ≠ 32 := by
    intro c hc
    rw [List.mem_cons] at hc
    rcases hc with rfl | hc
    · decide
    · exact hch c hc
  have h1 : (chAt (45 :: decDigs k n) 1 == 120) = false := by
    rw [beq_eq_false_iff_ne]; exact chAt_ne _ 1 120 (by decide) (fun c hc => (hall c hc).1)
  have h2 : (chAt (45 :: decDigs k n) 2 == 120) = false := by
    rw [beq_eq_false_iff_ne]; exact chAt_ne _ 2 120 (by decide) (fun c hc => (hall c hc).1)
  have := immTok_of_strtoul s (45 :: decDigs k n) (by simp) (fun c hc => (hall c hc).2) ((2 ^ 64 - n) % 2 ^ 64)
    (by simp only [h1, h2, Bool.and_false, Bool.or_false, Bool.false_eq_true, if_false]; exact strtoul_neg_dec_pad k n hn)
  rw [this]
  simp [h1, h2]

end AL.Lemmas
