/-
  C03 — immediate operands keep their value at the operand's width.

  Statement: for every instance d of the family — every entry with an immediate, register and memory
  destinations, the boundary values of the operand size, in hexadecimal, decimal and negated spellings —
      decode (assemble (render d)) = d   (immediate: width of the opcode's field, value after the
      architecture's extension = the written value modulo the operand size).
   * `Sweep.c03_sweep`        — the quick family x the three mov-immediate modes on the model, by evaluation
                                (mov r64, imm ≤ 0xffffffff may be written to the 32-bit register: C11);
   * `written_number_value`   — kernel-checked, for EVERY n < 2^64: the decimal spelling, the hexadecimal
                                spelling with any number of leading zeros, and their negations are converted
                                by imm_tok to n resp. 2^64 − n with nothing left over
                                (AL.Lemmas.immTok_dec / immTok_hex / immTok_neg_dec / immTok_neg_hex);
   * `imm_field_reads_back`   — kernel-checked, for EVERY value: the immediate bytes the model emits read
                                back (little endian, any zero padding) as the value;
   * `imm_field_dword/_qword/_reduced` (AL.Lemmas.ImmField) — kernel-checked, for EVERY value and any record:
                                what `assemble_imm` emits is exactly the 4-byte, the 8-byte, or the minimal
                                n-byte little-endian encoding of the constant, according to the facts the
                                encoder established (not reduced and ≤ 0xffffffff; > 0xffffffff or marked by
                                check_zero; reduced with its top byte set) — so `leVal` of the field is the
                                constant;
   * `mov_r64_hex / mov_r64_neg_hex / mov_r64_dec / mov_r64_neg_dec` — THE FLAGSHIP, kernel-checked: for each of the 16
                                64-bit registers, EVERY v < 2^64, every option byte (all three mov-immediate modes) and the four
                                spellings (hexadecimal and decimal with leading zeros, negated), the TEXT `mov <reg>, <number>` goes
                                through the whole per-line pipeline of the model (line filter, tokenizer, table lookups, encode_imm,
                                encode_operands, assemble_asm) symbolically and comes out as one of three encodings
                                (`B8+r imm32` narrowed, `REX.W C7 /0 simm32`, `REX.W B8+r imm64`: AL.Lemmas.MovImm.mov_bytes,
                                AL.Lemmas.MovText.mov_line) which, read as the CPU reads them (AL.Spec.MovImm.movResult, a reader of
                                its own written from the SDM; it agrees with the reference decoder on an instance of each shape),
                                leave exactly v (resp. 2^64 − v) in that register.
   * `alu_r64_hex / alu_r64_neg_hex / alu_r64_dec / alu_r64_neg_dec` — kernel-checked, the cascade of range tests on the immediate: for each
                                of the eight operations add, or, adc, sbb, and, sub, xor, cmp, each of the 16 64-bit registers, EVERY v
                                representable at the destination (sign-extends from 32 bits), every option byte and the four spellings,
                                the TEXT `<op> <reg>, <number>` goes through the whole per-line pipeline of the model symbolically
                                (AL.Lemmas.Alu.alu_bytes over abstract table rows, aluKeys_classified on the regenerated table,
                                AL.Lemmas.AluText.alu_line) and comes out as `REX.W 83 /n ib` exactly when v sign-extends from 8 bits,
                                else `REX.W 81 /n id` (`REX.W 8n+5 id` for rax), which AL.Spec.AluImm.aluRead (a reader of its own written
                                from the SDM; it agrees with the reference decoder on an instance of each shape) maps back to
                                (operation, register, v).
-/
import AL.Properties.Sweep.C03
import AL.Lemmas.Numerals
import AL.Spec.X86Lemmas
import AL.Lemmas.ImmField
import AL.Lemmas.MovText
import AL.Spec.MovImm
import AL.Lemmas.AluText
import AL.Spec.AluImm
namespace AL.Properties.C03
open AL AL.Impl AL.Gen AL.Lemmas AL.Spec.X86 AL.Lemmas.MovImm AL.Lemmas.MovText AL.Lemmas.Branch AL.Lemmas.Alu AL.Lemmas.AluText AL.Spec.AluImm

/-- **decimal / hexadecimal / leading zeros / negation: the same number** -/
theorem written_number_value (s : Instr) (n k : Nat) (hn : n < 2 ^ 64) :
    (∃ r, immTok s (decStr n) = .ok r ∧ r.cons = n ∧ r.imm = true) ∧
    (∃ r, immTok s (48 :: 120 :: hexDigs k n) = .ok r ∧ r.cons = n ∧ r.imm = true) ∧
    (∃ r, immTok s (45 :: decStr n) = .ok r ∧ r.cons = (2 ^ 64 - n) % 2 ^ 64) ∧
    (∃ r, immTok s (45 :: 48 :: 120 :: hexDigs k n) = .ok r ∧ r.cons = (2 ^ 64 - n) % 2 ^ 64) :=
  ⟨⟨_, immTok_dec s n hn, rfl, rfl⟩, ⟨_, immTok_hex s k n hn, rfl, rfl⟩,
   ⟨_, immTok_neg_dec s n hn, rfl⟩, ⟨_, immTok_neg_hex s k n hn, rfl⟩⟩

/-- **decimal numerals with leading zeros** are the same decimal number (base 10 is fixed, a leading 0 does not select octal) -/
theorem written_number_value_padded (s : Instr) (n k : Nat) (hn : n < 2 ^ 64) :
    (∃ r, immTok s (decDigs k n) = .ok r ∧ r.cons = n ∧ r.imm = true) ∧
    (∃ r, immTok s (45 :: decDigs k n) = .ok r ∧ r.cons = (2 ^ 64 - n) % 2 ^ 64) :=
  ⟨⟨_, immTok_dec_pad s k n hn, rfl, rfl⟩, ⟨_, immTok_neg_dec_pad s k n hn, rfl⟩⟩

example : decDigs 2 127 = [48, 48, 49, 50, 55] := by decide

theorem imm_field_reads_back (c k : Nat) (h : c < 2 ^ 64) : leVal (assembleConst c ++ List.replicate k 0) = c :=
  leVal_assembleConst c h k

/-- the three shapes of an emitted immediate field read back as the constant -/
theorem imm_field_dword (s : Instr) (hi : s.imm = true) (hb : s.kw.isByte = false) (hr : s.reducedImm = false)
    (hc : s.cons ≤ 0xffffffff) (hz : checkZero s s.cons (rowAt s.key).type = false) (hp : zeroPads s = true)
    (h16 : is16 s = false) : leVal (assembleImm s) = s.cons := by
  rw [assembleImm_dword s hi hb hr hc hz hp h16]
  exact leVal_leBytes_lt 4 _ (by rw [p4]; omega)

theorem imm_field_qword (s : Instr) (hi : s.imm = true) (hb : s.kw.isByte = false) (hr : s.reducedImm = false)
    (h64 : s.cons < 2 ^ 64) (hp : zeroPads s = true)
    (hc : 0xffffffff < s.cons ∨ (0x80000000 ≤ s.cons ∧ checkZero s s.cons (rowAt s.key).type = true)) :
    leVal (assembleImm s) = s.cons := by
  rw [assembleImm_qword s hi hb hr h64 hp hc]
  exact leVal_leBytes_lt 8 _ (by rw [p8]; omega)

/-! ### the flagship: `mov r64, v` yields v, for EVERY v, in every mode — the whole per-line pipeline on symbolic text -/

theorem movBytes_same (n v : Nat) (nar : Bool) : AL.Lemmas.MovImm.movBytes n v nar = AL.Spec.MovImm.movBytes n v nar := rfl

theorem regs64_lt (n : Nat) (name : Str) (g : Nat) (hp : (n, name, g) ∈ regs64) : n < 16 := by
  simp only [regs64, List.mem_cons, Prod.mk.injEq, List.not_mem_nil, or_false] at hp
  omega

theorem digitCh_num (d : Nat) (h : d < 16) : numCh (digitCh d) = true := by
  have : d = 0 ∨ d = 1 ∨ d = 2 ∨ d = 3 ∨ d = 4 ∨ d = 5 ∨ d = 6 ∨ d = 7 ∨ d = 8 ∨ d = 9 ∨ d = 10 ∨ d = 11 ∨ d = 12 ∨ d = 13 ∨ d = 14 ∨ d = 15 := by omega
  rcases this with rfl | rfl | rfl | rfl | rfl | rfl | rfl | rfl | rfl | rfl | rfl | rfl | rfl | rfl | rfl | rfl <;> decide

theorem digitCh_head (d : Nat) (h : d < 10) : numHead (digitCh d) = true := by
  have : d = 0 ∨ d = 1 ∨ d = 2 ∨ d = 3 ∨ d = 4 ∨ d = 5 ∨ d = 6 ∨ d = 7 ∨ d = 8 ∨ d = 9 := by omega
  rcases this with rfl | rfl | rfl | rfl | rfl | rfl | rfl | rfl | rfl | rfl <;> decide

theorem hexDigs_num (k n : Nat) (hn : n < 2 ^ 64) : ∀ c ∈ hexDigs k n, numCh c = true := by
  intro c hc
  unfold hexDigs at hc
  rw [List.mem_map] at hc
  obtain ⟨d, hd, rfl⟩ := hc
  exact digitCh_num d ((hexDigs_props k n hn).1 d hd)

theorem decDigs_num (k n : Nat) (hn : n < 2 ^ 64) : ∀ c ∈ decDigs k n, numCh c = true := by
  intro c hc
  unfold decDigs at hc
  rw [List.mem_map] at hc
  obtain ⟨d, hd, rfl⟩ := hc
  exact digitCh_num d (Nat.lt_trans ((decDigs_props k n hn).1 d hd) (by decide))

theorem digs_length (b : Nat) : ∀ (f n : Nat), (digs b f n).length ≤ f := by
  intro f
  induction f with
  | zero => intro n; simp [digs]
  | succ f ih =>
    intro n
    unfold digs
    split
    · simp
    · simp only [List.length_append, List.length_singleton]
      have := ih (n / b)
      omega

theorem hexDigs_length (k n : Nat) : (hexDigs k n).length ≤ k + 16 := by
  unfold hexDigs
  simp only [List.length_map, List.length_append, List.length_replicate]
  have := digs_length 16 16 n
  omega

theorem decDigs_length (k n : Nat) : (decDigs k n).length ≤ k + 20 := by
  unfold decDigs
  simp only [List.length_map, List.length_append, List.length_replicate]
  have := digs_length 10 20 n
  omega

/-- the statement for one spelling: the line assembles to code that leaves `value` in register n -/
def MovYields (opt : Nat) (line : Str) (n value : Nat) : Prop :=
  ∃ bs, (assembleLine opt line).1 = .ok (.code bs) ∧ AL.Spec.MovImm.movResult bs = some (n, value)

theorem mov_yields_of_tok (n : Nat) (name : Str) (g : Nat) (hp : (n, name, g) ∈ regs64) (c : Nat) (t : Str) (v : Nat) (b : Bool)
    (hc : numHead c = true) (hall : ∀ x ∈ c :: t, numCh x = true) (hlen : (c :: t).length ≤ 80)
    (himm : ∀ s : Instr, immTok s (c :: t) = .ok { s with imm := true, narrowOk := b, cons := v })
    (hv : v < 2 ^ 64) (opt : Nat) : MovYields opt (str! "mov " ++ name ++ 44 :: 32 :: c :: t) n v :=
  ⟨_, mov_line n name g hp c t v b hc hall hlen himm hv opt, by
    rw [movBytes_same]; exact AL.Spec.MovImm.movResult_movBytes n v _ (regs64_lt n name g hp) hv⟩

/-- **`mov r64, v`, hexadecimal with any number k ≤ 60 of leading zeros**: for each of the 16 registers, EVERY v < 2^64 and
    every option byte (all three mov-immediate modes, both SIB options) the line is accepted and the emitted code, read as
    the CPU reads it, leaves exactly v in that register -/
theorem mov_r64_hex (n : Nat) (name : Str) (g : Nat) (hp : (n, name, g) ∈ regs64) (k v : Nat) (hk : k ≤ 60) (hv : v < 2 ^ 64) (opt : Nat) :
    MovYields opt (str! "mov " ++ name ++ str! ", 0x" ++ hexDigs k v) n v := by
  have hall : ∀ x ∈ 48 :: 120 :: hexDigs k v, numCh x = true := by
    intro x hx
    simp only [List.mem_cons] at hx
    rcases hx with rfl | rfl | hx
    · decide
    · decide
    · exact hexDigs_num k v hv x hx
  have hl := hexDigs_length k v
  have := mov_yields_of_tok n name g hp 48 (120 :: hexDigs k v) v _ (by decide) hall (by simp only [List.length_cons]; omega)
    (fun s => immTok_hex s k v hv) hv opt
  simpa using this

/-- negated hexadecimal: the register holds 2^64 − v (two's complement) -/
theorem mov_r64_neg_hex (n : Nat) (name : Str) (g : Nat) (hp : (n, name, g) ∈ regs64) (k v : Nat) (hk : k ≤ 60) (hv : v < 2 ^ 64) (opt : Nat) :
    MovYields opt (str! "mov " ++ name ++ str! ", -0x" ++ hexDigs k v) n ((2 ^ 64 - v) % 2 ^ 64) := by
  have hall : ∀ x ∈ 45 :: 48 :: 120 :: hexDigs k v, numCh x = true := by
    intro x hx
    simp only [List.mem_cons] at hx
    rcases hx with rfl | rfl | rfl | hx
    · decide
    · decide
    · decide
    · exact hexDigs_num k v hv x hx
  have hl := hexDigs_length k v
  have := mov_yields_of_tok n name g hp 45 (48 :: 120 :: hexDigs k v) ((2 ^ 64 - v) % 2 ^ 64) _ (by decide) hall
    (by simp only [List.length_cons]; omega) (fun s => immTok_neg_hex s k v hv) (Nat.mod_lt _ (by decide)) opt
  simpa using this

/-- decimal, any number k ≤ 50 of leading zeros -/
theorem mov_r64_dec (n : Nat) (name : Str) (g : Nat) (hp : (n, name, g) ∈ regs64) (k v : Nat) (hk : k ≤ 50) (hv : v < 2 ^ 64) (opt : Nat) :
    MovYields opt (str! "mov " ++ name ++ str! ", " ++ decDigs k v) n v := by
  obtain ⟨d, rest, hd, hds⟩ := decDigs_head k v hv
  have hall : ∀ x ∈ digitCh d :: rest, numCh x = true := by rw [← hds]; exact decDigs_num k v hv
  have hl := decDigs_length k v
  have := mov_yields_of_tok n name g hp (digitCh d) rest v true (digitCh_head d hd) hall (by rw [← hds]; omega)
    (fun s => by rw [← hds]; exact immTok_dec_pad s k v hv) hv opt
  rw [← hds] at this
  simpa using this

/-- negated decimal -/
theorem mov_r64_neg_dec (n : Nat) (name : Str) (g : Nat) (hp : (n, name, g) ∈ regs64) (k v : Nat) (hk : k ≤ 50) (hv : v < 2 ^ 64) (opt : Nat) :
    MovYields opt (str! "mov " ++ name ++ str! ", -" ++ decDigs k v) n ((2 ^ 64 - v) % 2 ^ 64) := by
  have hall : ∀ x ∈ 45 :: decDigs k v, numCh x = true := by
    intro x hx
    simp only [List.mem_cons] at hx
    rcases hx with rfl | hx
    · decide
    · exact decDigs_num k v hv x hx
  have hl := decDigs_length k v
  have := mov_yields_of_tok n name g hp 45 (decDigs k v) ((2 ^ 64 - v) % 2 ^ 64) true (by decide) hall
    (by simp only [List.length_cons]; omega) (fun s => immTok_neg_dec_pad s k v hv) (Nat.mod_lt _ (by decide)) opt
  simpa using this

/-- not vacuous, and the mini-reader agrees with the reference decoder on an instance of each shape -/
example : (1, str! "rcx", 1025) ∈ regs64 := by decide
example : hexDigs 0 0x1122334455667788 = str! "1122334455667788" := by decide
example : decDigs 1 42 = str! "042" := by decide
example : (decode [0x49, 0xc7, 0xc1, 0, 0, 0, 0x80]).map Dec.render = some "mov q9 i64:18446744071562067968 #7" ∧
    AL.Spec.MovImm.movResult [0x49, 0xc7, 0xc1, 0, 0, 0, 0x80] = some (9, 18446744071562067968) := by decide +kernel
example : (decode [0x41, 0xb9, 5, 0, 0, 0]).map Dec.render = some "mov d9 i32:5 #6" ∧
    AL.Spec.MovImm.movResult [0x41, 0xb9, 5, 0, 0, 0] = some (9, 5) := by decide +kernel
example : (decode [0x49, 0xbf, 1, 2, 3, 4, 5, 6, 7, 8]).map Dec.render = some "mov q15 i64:578437695752307201 #10" ∧
    AL.Spec.MovImm.movResult [0x49, 0xbf, 1, 2, 3, 4, 5, 6, 7, 8] = some (15, 578437695752307201) := by decide +kernel

/-- the statement for one spelling: the line assembles to code that a CPU reads as operation `/n` on register m with the
    immediate operand `value` (after the sign extension of the field that the chosen opcode has) -/
def AluYields (opt : Nat) (line : Str) (n m value : Nat) : Prop :=
  ∃ bs, (assembleLine opt line).1 = .ok (.code bs) ∧ aluRead bs = some (n, m, value)

/-- the table rows behind the eight mnemonics carry the architecture's `/digit` -/
theorem aluOps_digits : aluOps.all (fun p => aluNames.any (fun q => q.2 == p.1 && digitOf q.1 == p.2)) = true := by decide +kernel

theorem aluBytes_same (n m v : Nat) (hn : n < 8) (hm : m < 16) : AL.Lemmas.Alu.aluBytes n (8 * n + 4) m v = AL.Spec.AluImm.aluBytes n m v := by
  unfold AL.Lemmas.Alu.aluBytes AL.Spec.AluImm.aluBytes
  rw [modrm_eq n hn m hm]

theorem alu_yields_of_tok (mn : Str) (n : Nat) (hop : (mn, n) ∈ aluOps) (m : Nat) (name : Str) (g : Nat) (hp : (m, name, g) ∈ regs64)
    (c : Nat) (t : Str) (v : Nat) (b : Bool)
    (hc : numHead c = true) (hall : ∀ x ∈ c :: t, numCh x = true) (hlen : (c :: t).length ≤ 70)
    (himm : ∀ s : Instr, immTok s (c :: t) = .ok { s with imm := true, narrowOk := b, cons := v })
    (hd : disp32 v) (opt : Nat) : AluYields opt (mn ++ 32 :: (name ++ 44 :: 32 :: c :: t)) n m v := by
  have h := aluOps_digits
  rw [List.all_eq_true] at h
  have h1 := h (mn, n) hop
  rw [List.any_eq_true] at h1
  obtain ⟨⟨key, mn'⟩, hq, hq2⟩ := h1
  simp only [Bool.and_eq_true, beq_iff_eq] at hq2
  obtain ⟨rfl, rfl⟩ := hq2
  obtain ⟨hline, hdig⟩ := alu_line key mn' hq m name g hp c t v b hc hall hlen himm hd opt
  refine ⟨_, hline, ?_⟩
  rw [aluBytes_same _ m v hdig (regs64_lt m name g hp)]
  exact aluRead_aluBytes _ m v hdig (regs64_lt m name g hp) hd

/-- **`<op> r64, v`, hexadecimal with any number k ≤ 50 of leading zeros**: for each of the eight operations
    (add, or, adc, sbb, and, sub, xor, cmp), each of the 16 registers, EVERY v representable at the destination (a value that
    sign-extends from 32 bits) and every option byte, the line is accepted and the emitted code, read as the CPU reads it,
    is that operation on that register with exactly v as its operand: `83 /n ib` when v sign-extends from 8 bits, else
    `81 /n id` (`<8n+5> id` for rax) -/
theorem alu_r64_hex (mn : Str) (n : Nat) (hop : (mn, n) ∈ aluOps) (m : Nat) (name : Str) (g : Nat) (hp : (m, name, g) ∈ regs64)
    (k v : Nat) (hk : k ≤ 50) (hd : disp32 v) (opt : Nat) :
    AluYields opt (mn ++ str! " " ++ name ++ str! ", 0x" ++ hexDigs k v) n m v := by
  have hv : v < 2 ^ 64 := by unfold disp32 at hd; omega
  have hall : ∀ x ∈ 48 :: 120 :: hexDigs k v, numCh x = true := by
    intro x hx
    simp only [List.mem_cons] at hx
    rcases hx with rfl | rfl | hx
    · decide
    · decide
    · exact hexDigs_num k v hv x hx
  have hl := hexDigs_length k v
  have := alu_yields_of_tok mn n hop m name g hp 48 (120 :: hexDigs k v) v _ (by decide) hall (by simp only [List.length_cons]; omega)
    (fun s => immTok_hex s k v hv) hd opt
  simpa using this

/-- negated hexadecimal: `-0x…` of w is the value 2^64 − w -/
theorem alu_r64_neg_hex (mn : Str) (n : Nat) (hop : (mn, n) ∈ aluOps) (m : Nat) (name : Str) (g : Nat) (hp : (m, name, g) ∈ regs64)
    (k w : Nat) (hk : k ≤ 50) (hw : w < 2 ^ 64) (hd : disp32 ((2 ^ 64 - w) % 2 ^ 64)) (opt : Nat) :
    AluYields opt (mn ++ str! " " ++ name ++ str! ", -0x" ++ hexDigs k w) n m ((2 ^ 64 - w) % 2 ^ 64) := by
  have hall : ∀ x ∈ 45 :: 48 :: 120 :: hexDigs k w, numCh x = true := by
    intro x hx
    simp only [List.mem_cons] at hx
    rcases hx with rfl | rfl | rfl | hx
    · decide
    · decide
    · decide
    · exact hexDigs_num k w hw x hx
  have hl := hexDigs_length k w
  have := alu_yields_of_tok mn n hop m name g hp 45 (48 :: 120 :: hexDigs k w) ((2 ^ 64 - w) % 2 ^ 64) _ (by decide) hall
    (by simp only [List.length_cons]; omega) (fun s => immTok_neg_hex s k w hw) hd opt
  simpa using this

/-- decimal with any number k ≤ 45 of leading zeros -/
theorem alu_r64_dec (mn : Str) (n : Nat) (hop : (mn, n) ∈ aluOps) (m : Nat) (name : Str) (g : Nat) (hp : (m, name, g) ∈ regs64)
    (k v : Nat) (hk : k ≤ 45) (hd : disp32 v) (opt : Nat) :
    AluYields opt (mn ++ str! " " ++ name ++ str! ", " ++ decDigs k v) n m v := by
  have hv : v < 2 ^ 64 := by unfold disp32 at hd; omega
  obtain ⟨d, rest, hdd, hds⟩ := decDigs_head k v hv
  have hall : ∀ x ∈ digitCh d :: rest, numCh x = true := by rw [← hds]; exact decDigs_num k v hv
  have hl := decDigs_length k v
  have := alu_yields_of_tok mn n hop m name g hp (digitCh d) rest v true (digitCh_head d hdd) hall (by rw [← hds]; omega)
    (fun s => by rw [← hds]; exact immTok_dec_pad s k v hv) hd opt
  rw [← hds] at this
  simpa using this

/-- negated decimal -/
theorem alu_r64_neg_dec (mn : Str) (n : Nat) (hop : (mn, n) ∈ aluOps) (m : Nat) (name : Str) (g : Nat) (hp : (m, name, g) ∈ regs64)
    (k w : Nat) (hk : k ≤ 45) (hw : w < 2 ^ 64) (hd : disp32 ((2 ^ 64 - w) % 2 ^ 64)) (opt : Nat) :
    AluYields opt (mn ++ str! " " ++ name ++ str! ", -" ++ decDigs k w) n m ((2 ^ 64 - w) % 2 ^ 64) := by
  have hall : ∀ x ∈ 45 :: decDigs k w, numCh x = true := by
    intro x hx
    simp only [List.mem_cons] at hx
    rcases hx with rfl | hx
    · decide
    · exact decDigs_num k w hw x hx
  have hl := decDigs_length k w
  have := alu_yields_of_tok mn n hop m name g hp 45 (decDigs k w) ((2 ^ 64 - w) % 2 ^ 64) true (by decide) hall
    (by simp only [List.length_cons]; omega) (fun s => immTok_neg_dec_pad s k w hw) hd opt
  simpa using this

/-- the code of a line, if it is accepted -/
def codeOf (opt : Nat) (t : Str) : Option Bytes :=
  match (assembleLine opt t).1 with
  | .ok (.code bs) => some bs
  | _ => none

/-- not vacuous: `sub r9, -0x80` is `49 83 e9 80`, `cmp rax, 300` is `48 3d 2c 01 00 00`; the mini-reader agrees with the
    reference decoder on an instance of each shape -/
example : (str! "sub", 5) ∈ aluOps ∧ (9, str! "r9", 1161) ∈ regs64 := by decide
example : disp32 ((2 ^ 64 - 0x80) % 2 ^ 64) := by unfold disp32; decide
example : codeOf 14 (str! "sub r9, -0x80") = some [0x49, 0x83, 0xe9, 0x80] ∧
    codeOf 14 (str! "cmp rax, 300") = some [0x48, 0x3d, 0x2c, 1, 0, 0] := by decide +kernel
example : (decode [0x49, 0x83, 0xe9, 0x80]).map Dec.render = some "sub q9 i64:18446744073709551488 #4" ∧
    aluRead [0x49, 0x83, 0xe9, 0x80] = some (5, 9, 18446744073709551488) := by decide +kernel
example : (decode [0x48, 0x3d, 0x2c, 1, 0, 0]).map Dec.render = some "cmp q0 i64:300 #6" ∧
    aluRead [0x48, 0x3d, 0x2c, 1, 0, 0] = some (7, 0, 300) := by decide +kernel
example : (decode [0x49, 0x81, 0xe9, 0, 0, 0, 0x80]).map Dec.render = some "sub q9 i64:18446744071562067968 #7" ∧
    aluRead [0x49, 0x81, 0xe9, 0, 0, 0, 0x80] = some (5, 9, 18446744071562067968) := by decide +kernel

end AL.Properties.C03
