/-
  AL.Spec.X86Enum — the WRITTEN side of C01–C05: instructions as abstract syntax (`Dec` without a
  length), their rendering as assembly text in the syntax AssemblyLine documents, and enumerators
  that list, for an entry of the reference opcode table, every operand assignment x86-64 can
  encode.  A property then reads  decode (assemble (render d)) = d  for every enumerated d.
-/
import AL.Spec.X86
namespace AL.Spec.X86

def names64 : List String := ["rax","rcx","rdx","rbx","rsp","rbp","rsi","rdi","r8","r9","r10","r11","r12","r13","r14","r15"]
def names32 : List String := ["eax","ecx","edx","ebx","esp","ebp","esi","edi","r8d","r9d","r10d","r11d","r12d","r13d","r14d","r15d"]
def names16 : List String := ["ax","cx","dx","bx","sp","bp","si","di","r8w","r9w","r10w","r11w","r12w","r13w","r14w","r15w"]
def names8  : List String := ["al","cl","dl","bl","spl","bpl","sil","dil","r8b","r9b","r10b","r11b","r12b","r13b","r14b","r15b"]
def names8h : List String := ["?","?","?","?","ah","ch","dh","bh"]

def Reg.name (r : Reg) : String :=
  match r.file with
  | .gpr64 => names64.getD r.num "?" | .gpr32 => names32.getD r.num "?" | .gpr16 => names16.getD r.num "?"
  | .gpr8 => names8.getD r.num "?" | .gpr8h => names8h.getD r.num "?"
  | .mm => "mm" ++ toString r.num | .xmm => "xmm" ++ toString r.num | .ymm => "ymm" ++ toString r.num

def regBits (r : Reg) : Nat :=
  match r.file with
  | .gpr8 | .gpr8h => 8 | .gpr16 => 16 | .gpr32 => 32 | .gpr64 => 64 | .mm => 64 | .xmm => 128 | .ymm => 256

/-- how a number is written -/
inductive NumStyle | dec | hex | hexPad (digits : Nat)
deriving DecidableEq, Repr

def hexDigit (n : Nat) : Char := if n < 10 then Char.ofNat (48 + n) else Char.ofNat (87 + n)

def hexDigits : Nat → Nat → List Char
  | 0, _ => []
  | fuel + 1, n => if n < 16 then [hexDigit n] else hexDigits fuel (n / 16) ++ [hexDigit (n % 16)]

def hexStr (n : Nat) : String := String.ofList (hexDigits 32 n)

def padLeft (s : String) (k : Nat) : String := String.ofList (List.replicate (k - s.length) '0') ++ s

def renderNat (st : NumStyle) (n : Nat) : String :=
  match st with
  | .dec => toString n
  | .hex => "0x" ++ hexStr n
  | .hexPad k => "0x" ++ padLeft (hexStr n) k

/-- a value of `bits` bits written as a (possibly negative) number: values with the top bit set are
    written negative when `neg` is set -/
def renderImm (st : NumStyle) (neg : Bool) (bits v : Nat) : String :=
  if neg && bits > 0 && v ≥ 2 ^ (bits - 1) then "-" ++ renderNat st (2 ^ bits - v) else renderNat st v

structure Style where
  num      : NumStyle := .hex
  negImm   : Bool := true       -- write immediates with the top bit set as negative numbers
  kwAlways : Bool := false      -- size keyword on every memory operand that has a width ≤ 64
  scaleFirst : Bool := false    -- [base+scale*index] instead of [base+index*scale]
  relKw    : String := ""       -- "short " / "long " in front of a branch displacement
deriving Repr

def kwOf (bits : Nat) : String :=
  if bits == 8 then "byte " else if bits == 16 then "word " else if bits == 32 then "dword " else if bits == 64 then "qword " else ""

def Mem.render (st : Style) (kw : Bool) (m : Mem) : String :=
  let nm (n : Nat) : String := if m.addr32 then names32.getD n "?" else names64.getD n "?"
  let b := match m.base with | some n => [nm n] | none => []
  let i := match m.index with
    | some n => if m.scale == 1 && m.base.isSome then [nm n]
                else if st.scaleFirst then [toString m.scale ++ "*" ++ nm n] else
                  (if m.base.isSome then [nm n ++ "*" ++ toString m.scale] else [toString m.scale ++ "*" ++ nm n])
    | none => []
  let regs := String.intercalate "+" (b ++ i)
  let d : String :=
    if m.disp == 0 && regs != "" then ""
    else if m.disp < 0 then "-" ++ renderNat st.num m.disp.natAbs
    else (if regs == "" then "" else "+") ++ renderNat st.num m.disp.toNat
  (if kw || st.kwAlways then kwOf m.size else "") ++ "[" ++ regs ++ d ++ "]"

def Opnd.asm (st : Style) (kw : Bool) : Opnd → String
  | .reg r => r.name
  | .mem m => m.render st kw
  | .imm bits v => renderImm st.num st.negImm bits v
  | .rel _ d => st.relKw ++ (if d < 0 then "-" ++ renderNat st.num d.natAbs else renderNat st.num d.toNat)

/-- the assembly line for an instruction; a size keyword is written when no register operand
    fixes the width of the memory operand -/
def Dec.asm (st : Style) (d : Dec) : String :=
  -- the count register of a shift does not say how wide the shifted operand is
  let shift := [(mn! "ror"), (mn! "rcr"), (mn! "shl"), (mn! "shr"), (mn! "sar"), (mn! "sal"), (mn! "shld"), (mn! "shrd")].contains d.mn
  let sized := if shift && d.ops.getLast? == some (.reg ⟨.gpr8, 1⟩) then d.ops.dropLast else d.ops
  let memBits := (d.ops.filterMap fun o => match o with | .mem m => some m.size | _ => none).headD 0
  -- a register operand of the memory operand's width fixes that width
  -- (movzx: the destination never fixes the width of the source)
  let hasReg := d.mn != (mn! "movzx") && sized.any fun o => match o with | .reg r => regBits r == memBits | _ => false
  let far := d.mn == (mn! "callf") || d.mn == (mn! "jmpf")
  let mn := if d.mn == (mn! "callf") then "call" else if d.mn == (mn! "jmpf") then "jmp" else Mn.str d.mn
  let ops := d.ops.filter fun o => match o with
    | .imm 8 1 => !(d.ops.length == 2 && [(mn! "ror"), (mn! "rcr"), (mn! "shl"), (mn! "shr"), (mn! "sar")].contains d.mn && false)
    | _ => true
  mn ++ (if ops.isEmpty then "" else " " ++ (if far then "far " else "") ++
    String.intercalate ", " (ops.map (Opnd.asm st (!hasReg))))

/-! ### enumeration -/

def regsOf (c : Cls) (bits : Nat) : List Reg :=
  match c with
  | .mm => (List.range 8).map fun n => ⟨.mm, n⟩
  | .xmm => (List.range 16).map fun n => ⟨.xmm, n⟩
  | .ymm => (List.range 16).map fun n => ⟨.ymm, n⟩
  | .gpr =>
    if bits == 8 then ((List.range 16).map fun n => (⟨.gpr8, n⟩ : Reg)) ++ ((List.range 4).map fun n => (⟨.gpr8h, n + 4⟩ : Reg))
    else if bits == 16 then (List.range 16).map fun n => ⟨.gpr16, n⟩
    else if bits == 32 then (List.range 16).map fun n => ⟨.gpr32, n⟩
    else (List.range 16).map fun n => ⟨.gpr64, n⟩

/-- does this operand force a REX prefix (or need a bit only REX/VEX carries)? -/
def Opnd.needsRex : Opnd → Bool
  | .reg r => (match r.file with
      | .gpr8 => r.num ≥ 4
      | .gpr8h => false
      | .gpr64 => r.num ≥ 8      -- the W bit is accounted for separately
      | .mm => false
      | _ => r.num ≥ 8)
  | .mem m => (match m.base with | some n => n ≥ 8 | none => false) || (match m.index with | some n => n ≥ 8 | none => false)
  | _ => false

def Opnd.isHigh : Opnd → Bool
  | .reg r => r.file == .gpr8h
  | _ => false

/-- x86-64 can encode the tuple: ah/ch/dh/bh cannot appear in an instruction with a REX prefix -/
def encodable (ops : List Opnd) (w64 : Bool) : Bool :=
  if ops.any Opnd.isHigh then !w64 && !ops.any Opnd.needsRex else true

/-- what the enumerator puts into memory / immediate / displacement slots -/
structure Fill where
  mems  : Nat → List Mem           -- by access width
  imms  : Nat → List Nat           -- by operand size: values (already reduced to that size)
  rels8 : List Int
  rels32 : List Int
  regForm : Bool := true           -- include register forms of r/m operands
  memForm : Bool := false          -- include memory forms of r/m operands

/-- all operand lists for a template list (cartesian product, left to right) -/
def fillOps (f : Fill) (osz : Nat) (w : Bool) : List OpT → List (List Opnd)
  | [] => [[]]
  | t :: ts =>
    let rest := fillOps f osz w ts
    let here : List Opnd :=
      match t with
      | .rm c sz msz =>
        (if f.regForm then (regsOf c (sizeBits osz w sz)).map Opnd.reg else []) ++
        (if f.memForm then (f.mems (sizeBits osz w msz)).map Opnd.mem else [])
      | .rmReg c sz => if f.regForm then (regsOf c (sizeBits osz w sz)).map Opnd.reg else []
      | .rmMem msz => if f.memForm then (f.mems (sizeBits osz w msz)).map Opnd.mem else []
      | .reg c sz => (regsOf c (sizeBits osz w sz)).map Opnd.reg
      | .vvvv c sz => (regsOf c (sizeBits osz w sz)).map Opnd.reg
      | .opc sz => (regsOf .gpr (sizeBits osz w sz)).filter (fun r => r.file != .gpr8h || true) |>.map Opnd.reg
      | .acc sz => [Opnd.reg (mkReg .gpr (sizeBits osz w sz) true 0)]
      | .cl => [Opnd.reg ⟨.gpr8, 1⟩]
      | .one => [Opnd.imm 8 1]
      | .immS8 => ((f.imms osz).filter fun v => sext 8 osz (v % 256) == v).map (Opnd.imm osz)
      | .immZ => ((f.imms osz).filter fun v => osz < 64 || sext 32 64 (v % 2 ^ 32) == v).map (Opnd.imm osz)
      | .immFull => (f.imms osz).map (Opnd.imm osz)
      | .imm8 bits => (f.imms 8).map (Opnd.imm bits)
      | .imm32s64 => ((f.imms 64).filter fun v => sext 32 64 (v % 2 ^ 32) == v).map (Opnd.imm 64)
      | .imm8s64 => ((f.imms 64).filter fun v => sext 8 64 (v % 256) == v).map (Opnd.imm 64)
      | .rel8 => f.rels8.map (Opnd.rel 8)
      | .rel32 => f.rels32.map (Opnd.rel 32)
    here.flatMap fun o => rest.map fun os => o :: os

def usesSize (en : Enc) (s : Size) : Bool :=
  en.ops.any fun t => match t with
    | .rm _ a b => a == s || b == s
    | .rmReg _ a => a == s
    | .rmMem a => a == s
    | .reg _ a | .vvvv _ a | .opc a | .acc a => a == s
    | .immS8 | .immZ | .immFull => s == .osz
    | _ => false

/-- the operand-size / W settings an entry has -/
def oszChoices (en : Enc) : List (Nat × Bool) :=
  if usesSize en .osz then [(16, false), (32, false), (64, true)]
  else if usesSize en .osz64 then [(16, false), (64, false)]
  else if usesSize en .w3264 then [(32, false), (64, true)]
  else if en.dflt64 then [(64, false)]
  else [(32, false)]

/-- every instance of an entry (length 0: the length is what the assembler emits) -/
def enumEnc (f : Fill) (en : Enc) : List Dec :=
  (oszChoices en).flatMap fun (osz, w) =>
    ((fillOps f osz w en.ops).filter fun ops => encodable ops (w || osz == 64 && !en.dflt64)).map fun ops =>
      { mn := en.mn, ops, len := 0 }

end AL.Spec.X86
