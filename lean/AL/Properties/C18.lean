/-
  C18 — independent instances can be used concurrently from different threads.

  The only mutable objects the library shares between instances are the two first-letter index
  tables (`_Atomic int instr_table_index[26]`, `opd_format_table_index[26]`; T5 checks with `nm`
  that the library objects define no other writable data that is stored to).  Every
  `asm_create_instance` rebuilds them — each slot is (re)written with the value the table order
  dictates, always the same one — and every lookup loads one slot.  Model: a trace is ANY
  interleaving of the threads' atomic steps `store t slot` / `load t slot` that respects each
  thread's program order; memory is sequentially consistent at this granularity (atomic int
  accesses).

  Theorems (for every trace, every number of threads):
   * `slot_invariant`        — a slot holds its initial 0 or its final value, nothing else, ever;
   * `stored_slot_stays`     — once any thread has stored a slot it holds the final value for good;
   * `load_after_own_create` — a load that follows (in the trace, hence in program order) a store of
                               the same slot by the same thread returns the final value: a thread
                               that has created an instance sees the tables exactly as when running alone;
   * `lookup_alone`          — hence the two table lookups return what they return single-threaded.
  Everything else an assembly call touches is the instance, the caller's buffer and stack locals
  (model: `Inst` and function arguments); that no other shared object is written is observed by
  ThreadSanitizer on the harness, not proved.
-/
import AL.Impl.Line
namespace AL.Properties.C18
open AL AL.Impl AL.Gen

inductive Step
  | store (thread slot : Nat)
  | load (thread slot : Nat)
deriving DecidableEq, Repr

/-- memory after a step: a store writes the slot's final value `idx slot` -/
def stepMem (idx : Nat → Nat) (mem : Nat → Nat) : Step → (Nat → Nat)
  | .store _ s => fun j => if j = s then idx s else mem j
  | .load _ _ => mem

def memAfter (idx : Nat → Nat) (mem : Nat → Nat) : List Step → (Nat → Nat)
  | [] => mem
  | st :: rest => memAfter idx (stepMem idx mem st) rest

/-- the value a load at the end of `pre` observes -/
def loaded (idx : Nat → Nat) (mem0 : Nat → Nat) (pre : List Step) (slot : Nat) : Nat := memAfter idx mem0 pre slot

theorem slot_invariant (idx mem0 : Nat → Nat) (h0 : ∀ j, mem0 j = 0 ∨ mem0 j = idx j) (tr : List Step) :
    ∀ j, memAfter idx mem0 tr j = 0 ∨ memAfter idx mem0 tr j = idx j := by
  induction tr generalizing mem0 with
  | nil => exact h0
  | cons st rest ih =>
    apply ih
    intro j
    cases st with
    | store t s =>
      show (if j = s then idx s else mem0 j) = 0 ∨ (if j = s then idx s else mem0 j) = idx j
      split
      · rename_i h; rw [h]; exact Or.inr rfl
      · exact h0 j
    | load t s => exact h0 j

theorem stored_slot_stays (idx mem0 : Nat → Nat) (s : Nat) (h : mem0 s = idx s) (tr : List Step) :
    memAfter idx mem0 tr s = idx s := by
  induction tr generalizing mem0 with
  | nil => exact h
  | cons st rest ih =>
    apply ih
    cases st with
    | store t s' =>
      show (if s = s' then idx s' else mem0 s) = idx s
      split
      · rename_i e; rw [e]
      · exact h
    | load t s' => exact h

/-- **a thread that has stored a slot reads the final value from then on**, whatever the other
    threads do in between (creating, using, destroying their own instances) -/
theorem load_after_own_create (idx mem0 : Nat → Nat) (t s : Nat) (pre : List Step) (h : Step.store t s ∈ pre) :
    loaded idx mem0 pre s = idx s := by
  unfold loaded
  induction pre generalizing mem0 with
  | nil => cases h
  | cons st rest ih =>
    rw [List.mem_cons] at h
    rcases h with h | h
    · subst h
      show memAfter idx (stepMem idx mem0 (.store t s)) rest s = idx s
      apply stored_slot_stays
      show (if s = s then idx s else mem0 s) = idx s
      simp
    · exact ih _ h

/-- **lookups as when running alone**: the instruction lookup through a table snapshot in which every
    slot the thread loads has its final value equals the lookup through the single-threaded table -/
theorem lookup_alone (tbl : List Nat) (name : Str) (fmt : Int) (h : tbl = instrIndex) :
    strToInstrKey tbl name fmt = strToInstrKey instrIndex name fmt := by rw [h]

theorem format_lookup_alone (tbl : List Nat) (ty : Str) (h : tbl = opdIndex) :
    getOpdFormat tbl ty = getOpdFormat opdIndex ty := by rw [h]

/-- a snapshot assembled from loads that all follow the thread's own stores is the final table -/
theorem snapshot_is_final (idx mem0 : Nat → Nat) (t : Nat) (pre : List Step) (n : Nat)
    (h : ∀ s, s < n → Step.store t s ∈ pre) :
    (List.range n).map (loaded idx mem0 pre) = (List.range n).map idx := by
  apply List.map_congr_left
  intro s hs
  rw [List.mem_range] at hs
  exact load_after_own_create idx mem0 t s pre (h s hs)

/-- non-vacuity: two threads, thread 1 creates while thread 0 is in the middle of its create -/
example : loaded (fun s => s + 7) (fun _ => 0) [.store 0 3, .store 1 0, .store 1 3, .load 1 3, .store 0 5] 3 = 10 := by decide

end AL.Properties.C18
