/-
  C20 — asmline's outputs and exit status reflect the library result.

  Model: AL.Impl.Cli (tools/asmline.c from the parsed flag list on; getopt_long is assumed).
  Theorems, for EVERY flag list, source and program:
   * `usage_error_exits`    — a rejected -c, -b or -o argument ends the run with exit status 1 before
                              anything is assembled;
   * `exit_zero_iff`        — the exit status is 0 iff there was no usage error, the assembly succeeded
                              and the requested binary output (if any) succeeded;
   * `option_calls`         — the option byte the program is assembled under is the result of the
                              documented option calls: -n, -t, -s as asm_set_all in command line order,
                              then the long flags (last of each group) as asm_mov_imm, asm_sib (no-base
                              and swap), asm_sib_index_base_swap, asm_sib_no_base — read through C12's
                              refinement this is AL.Spec.apply folded over those calls;
   * `getlines_join`        — the pieces `getline` hands to the library concatenate to the input, each
                              piece but the last ends with its newline (the stdin loop feeds the same
                              text as the FILE call, cut at line ends: C06 `split_calls` and C14's
                              additivity say that such a cut changes neither code nor count);
   * `file_mode_is_library` — with a FILE argument the code and the count are exactly what the file
                              entry point of the library returns under those options.
   * `stdin_equals_file`    — stdin and FILE give the same result, for EVERY flag list and EVERY program text: the stdin loop (one
                              library call per `getline` piece, counts added up) ends with the same exit status as the one call on the
                              whole text, and on success with the same instance (buffer, offset, options) and the same count to print —
                              by induction over the lines from `stdinLoop_plain` / `stdinLoop_counting`, which rest on
                              AL.Lemmas.Split.call_split / count_split (one call or two, any mode, any buffer, no size hypotheses).
  Checked on the executable (not proved): what `-p` prints (the printers are in src/parser.c), the
  value `-r` prints.
-/
import AL.Impl.Cli
import AL.Properties.C12
import AL.Lemmas.CallSplit
import AL.Lemmas.DebugText
namespace AL.Properties.C20
open AL AL.Impl AL.Gen AL.Lemmas AL.Lemmas.Split

theorem parseFlags_usage (st : Parsed) (fs : List Flag) (h : st.usage = true) : parseFlags st fs = st := by
  cases fs with
  | nil => rfl
  | cons f fs => simp [parseFlags, h]

/-- **usage errors**: exit status 1 -/
theorem usage_error_exits (flags : List Flag) (stdin : Bool) (prog : Option Str) (binOk : Bool)
    (h : (parseFlags { a := createInternal } flags).usage = true) :
    (cliRun flags stdin prog binOk).exit = 1 := by
  unfold cliRun
  simp [h]

/-- did the assembly phase succeed -/
def assemblyOk (flags : List Flag) (stdin : Bool) (prog : Option Str) : Bool :=
  (assemblePhase (parseFlags { a := createInternal } flags) stdin prog).2.1

/-- **exit status**: zero iff assembly and the requested output succeeded -/
theorem exit_zero_iff (flags : List Flag) (stdin : Bool) (prog : Option Str) (binOk : Bool) :
    (cliRun flags stdin prog binOk).exit = 0 ↔
      ((parseFlags { a := createInternal } flags).usage = false ∧ assemblyOk flags stdin prog = true ∧
       ((parseFlags { a := createInternal } flags).bin = true → binOk = true)) := by
  unfold cliRun assemblyOk
  generalize parseFlags { a := createInternal } flags = st
  cases hu : st.usage with
  | true => simp [hu]
  | false =>
    simp only [hu, Bool.false_eq_true, if_false, true_and]
    generalize assemblePhase st stdin prog = r
    obtain ⟨a, ok, cnt⟩ := r
    cases ok <;> cases hb : st.bin <;> cases binOk <;> simp [hb]

/-! ### the option calls the flags denote -/

/-- asm_set_all calls made while parsing, in command line order -/
def shortCalls : List Flag → List (Setter × Nat)
  | [] => []
  | .n :: fs => (.all, 1) :: shortCalls fs
  | .t :: fs => (.all, 0) :: shortCalls fs
  | .s :: fs => (.all, 2) :: shortCalls fs
  | _ :: fs => shortCalls fs

/-- the calls made after parsing, from what the long flags left behind -/
def longCalls (st : Parsed) : List (Setter × Nat) :=
  (if st.movImm != 0 then [(Setter.mov, optVal st.movImm)] else []) ++
  (if st.sibAll != 0 then [(Setter.nobase, optVal st.sibAll), (Setter.swap, optVal st.sibAll)] else []) ++
  (if st.sibSwap != 0 then [(Setter.swap, optVal st.sibSwap)] else []) ++
  (if st.sibNoBase != 0 then [(Setter.nobase, optVal st.sibNoBase)] else [])

def foldCalls (o : Nat) (cs : List (Setter × Nat)) : Nat := cs.foldl (fun b c => c.1.bits b c.2) o

theorem applyLong_opt (st : Parsed) : (applyLong st).opt = foldCalls st.a.opt (longCalls st) := by
  unfold applyLong longCalls foldCalls
  cases h1 : (st.movImm != 0) <;> cases h2 : (st.sibAll != 0) <;> cases h3 : (st.sibSwap != 0) <;>
    cases h4 : (st.sibNoBase != 0) <;> simp [applySetter]

theorem parseFlag_opt (st : Parsed) (f : Flag) :
    (parseFlag st f).a.opt = foldCalls st.a.opt (shortCalls [f]) := by
  cases f <;> simp [parseFlag, shortCalls, foldCalls, applySetter]
  · split <;> simp [setChunkSize]; split <;> rfl
  · split <;> rfl
  · split <;> rfl

theorem parseFlags_opt (st : Parsed) (fs : List Flag) (hok : (parseFlags st fs).usage = false) :
    (parseFlags st fs).a.opt = foldCalls st.a.opt (shortCalls fs) := by
  induction fs generalizing st with
  | nil => rfl
  | cons f fs ih =>
    unfold parseFlags at hok ⊢
    by_cases hu : st.usage = true
    · simp only [hu, if_true] at hok; cases hok
    · simp only [hu, Bool.false_eq_true, if_false] at hok ⊢
      rw [ih _ hok, parseFlag_opt]
      cases f <;> simp [shortCalls, foldCalls]

/-- **the option byte of the run = the documented calls, in the documented order** -/
theorem option_calls (flags : List Flag) (hok : (parseFlags { a := createInternal } flags).usage = false) :
    (applyLong (parseFlags { a := createInternal } flags)).opt =
      foldCalls c_DEFAULT (shortCalls flags ++ longCalls (parseFlags { a := createInternal } flags)) := by
  rw [applyLong_opt, parseFlags_opt _ _ hok]
  unfold foldCalls
  rw [List.foldl_append]
  rfl

/-- … read through C12's refinement: the abstract option triple is `Spec.apply` folded over them -/
theorem option_calls_spec (flags : List Flag) (hok : (parseFlags { a := createInternal } flags).usage = false) :
    C12.abs (applyLong (parseFlags { a := createInternal } flags)).opt =
      (shortCalls flags ++ longCalls (parseFlags { a := createInternal } flags)).foldl
        (fun s c => Spec.apply s (C12.callOf c.1 c.2)) Spec.Opts.default := by
  rw [option_calls flags hok]
  exact C12.refines_abs _

/-! ### stdin pieces -/

theorem getlines_join (s : Str) : (getlines s).flatten = s := by
  induction s with
  | nil => rfl
  | cons c cs ih =>
    unfold getlines
    cases h : getlines cs with
    | nil =>
      rw [h] at ih
      simp only [List.flatten_nil] at ih
      simp [← ih]
    | cons l ls =>
      rw [h] at ih
      simp only
      split
      · simp only [List.flatten_cons, List.cons_append, List.nil_append]
        rw [← ih]; simp
      · simp only [List.flatten_cons, List.cons_append]
        rw [← ih]; simp

/-- **FILE mode is the library's file entry point** under the options of `option_calls` -/
theorem file_mode_is_library (st : Parsed) (prog : Option Str) (hnc : ¬ st.boundary > 0) :
    (assemblePhase st false prog).1 = (asmAssembleFile (applyLong st) prog).1 ∧
    ((assemblePhase st false prog).2.1 = true ↔ (asmAssembleFile (applyLong st) prog).2 = .ok ()) := by
  unfold assemblePhase
  simp only [Bool.false_eq_true, if_false, hnc, decide_false]
  generalize asmAssembleFile (applyLong st) prog = r
  obtain ⟨a, rr⟩ := r
  cases rr with
  | error e => simp
  | ok u => simp

/-- non-vacuity: `-t --nasm-mov-imm` is STRICT SIB handling with NASM mov-immediate handling -/
example : C12.abs (applyLong (parseFlags { a := createInternal } [.t, .nasmMovImm])).opt = ⟨.nasm, false, false⟩ := by decide

/-- the stored offset is a C `int` -/
def Norm (a : Inst) : Prop := toInt32 (toU32 a.offset) = a.offset

theorem toInt32_mod (x : Nat) : toInt32 (x % 2 ^ 32) = toInt32 x := by
  unfold toInt32
  simp only [Nat.mod_mod]

theorem norm_toInt32 (x : Nat) : toInt32 (toU32 (toInt32 x)) = toInt32 x := by
  rw [← toInt32_mod x, toU32_toInt32 _ (Nat.mod_lt _ (by decide))]

theorem plain_ok_norm (lfo : LineFnOf) (a : Inst) (t : Str) (h : (asmAssembleStrWith lfo a t).2 = .ok ()) :
    Norm (asmAssembleStrWith lfo a t).1 := by
  rw [plain_eq] at h ⊢
  simp only at h ⊢
  split at h
  · cases h
  · rename_i heq
    simp only [heq]
    exact norm_toInt32 _

theorem plain_nil (lfo : LineFnOf) (a : Inst) (hn : Norm a) : asmAssembleStrWith lfo a [] = (a, .ok ()) := by
  rw [plain_eq]
  unfold codesOf
  simp only [List.length_nil, Nat.zero_add]
  have : items (lfo a.opt) 1 [] = ⟨[], none⟩ := rfl
  rw [this]
  simp only [runCodes, outcome]
  unfold Norm at hn
  rw [hn]

theorem counting_ok_norm (lfo : LineFnOf) (a : Inst) (t : Str) (c : Int) (h : (asmCountingChunksWith lfo a t c true).2.1 = .ok ()) :
    Norm (asmCountingChunksWith lfo a t c true).1 := by
  rw [counting_eq] at h ⊢
  simp only at h ⊢
  split at h
  · cases h
  · rename_i heq
    simp only [heq]
    exact norm_toInt32 _

theorem counting_nil (lfo : LineFnOf) (a : Inst) (c : Int) (hn : Norm a) : asmCountingChunksWith lfo a [] c true = (a, .ok (), some 0) := by
  rw [counting_eq]
  unfold codesOf
  simp only [List.length_nil, Nat.zero_add]
  have : items (lfo a.opt) 1 [] = ⟨[], none⟩ := rfl
  rw [this]
  simp only [runCodes, outcome, countSetup]
  unfold Norm at hn
  rw [hn]

theorem counting_some (lfo : LineFnOf) (a : Inst) (t : Str) (c : Int) : (asmCountingChunksWith lfo a t c true).2.2 ≠ none := by
  rw [counting_eq]
  simp only
  have hk := runCodes_keeps (codesOf lfo a.opt t) { a := countSetup a c, bufPos := toU32 a.offset, brks := some 0 }
  have := hk.brksSome (by simp)
  split <;> exact this

/-! ### `getline` pieces -/

theorem getlines_line (l rest : Str) (h : ∀ c ∈ l, c ≠ 10) : getlines (l ++ 10 :: rest) = (l ++ [10]) :: getlines rest := by
  induction l with
  | nil =>
    simp only [List.nil_append]
    rw [getlines]
    cases getlines rest <;> simp
  | cons c l ih =>
    have hc : c ≠ 10 := h c List.mem_cons_self
    have ih' := ih (fun x hx => h x (List.mem_cons_of_mem _ hx))
    simp only [List.cons_append]
    rw [getlines, ih']
    simp [hc]

theorem getlines_last (l : Str) (h : ∀ c ∈ l, c ≠ 10) (hne : l ≠ []) : getlines l = [l] := by
  induction l with
  | nil => exact absurd rfl hne
  | cons c l ih =>
    have hc : c ≠ 10 := h c List.mem_cons_self
    cases l with
    | nil => rfl
    | cons d l' =>
      have ih' := ih (fun x hx => h x (List.mem_cons_of_mem _ hx)) (by simp)
      rw [getlines, ih']
      simp [hc]

theorem lf_split (t : Str) : (∀ c ∈ t, c ≠ 10) ∨ ∃ l rest, t = l ++ 10 :: rest ∧ (∀ c ∈ l, c ≠ 10) := by
  induction t with
  | nil => left; simp
  | cons c t ih =>
    by_cases hc : c = 10
    · right; exact ⟨[], t, by simp [hc], by simp⟩
    · rcases ih with h | ⟨l, rest, h1, h2⟩
      · left; intro x hx; rcases List.mem_cons.mp hx with rfl | hx; exact hc; exact h x hx
      · right; refine ⟨c :: l, rest, by simp [h1], ?_⟩
        intro x hx; rcases List.mem_cons.mp hx with rfl | hx; exact hc; exact h2 x hx

theorem eol10 : eolCh 10 = true := by decide

/-- **the stdin loop is the one call, plain and chunk-fitting mode**: feeding the `getline` pieces of ANY text one library call
    each succeeds exactly when one call on the whole text does, and then leaves the same instance -/
theorem stdinLoop_plain (b : Int) : ∀ (n : Nat) (t : Str) (a : Inst) (tot : Int), t.length ≤ n → Norm a →
    ((stdinLoop false b a tot (getlines t)).2.1 = true ↔ (asmAssembleStr a t).2 = .ok ()) ∧
    ((asmAssembleStr a t).2 = .ok () → (stdinLoop false b a tot (getlines t)).1 = (asmAssembleStr a t).1) ∧
    (stdinLoop false b a tot (getlines t)).2.2 = tot := by
  intro n
  induction n with
  | zero =>
    intro t a tot hl hn
    have : t = [] := List.eq_nil_of_length_eq_zero (Nat.le_zero.mp hl)
    subst this
    have := plain_nil assembleLine a hn
    unfold asmAssembleStr
    simp [getlines, stdinLoop, this]
  | succ n ih =>
    intro t a tot hl hn
    rcases lf_split t with hno | ⟨l, rest, rfl, hno⟩
    · by_cases hne : t = []
      · subst hne
        have := plain_nil assembleLine a hn
        unfold asmAssembleStr
        simp [getlines, stdinLoop, this]
      · rw [getlines_last t hno hne]
        unfold stdinLoop
        simp only [Bool.false_eq_true, if_false]
        rcases hw : asmAssembleStr a t with ⟨a', res⟩
        cases res with
        | error e => simp
        | ok u => simp [stdinLoop]
    · rw [getlines_line l rest hno]
      have hlen : rest.length ≤ n := by simp only [List.length_append, List.length_cons] at hl; omega
      have hloc := assembleLine_local a.opt
      unfold stdinLoop
      simp only [Bool.false_eq_true, if_false]
      unfold asmAssembleStr at *
      rcases hp : asmAssembleStrWith assembleLine a l with ⟨a1, res1⟩
      cases res1 with
      | error er =>
        have h1 := call_split_err assembleLine a l [] 10 eol10 hloc er (by rw [hp])
        have h2 := call_split_err assembleLine a l rest 10 eol10 hloc er (by rw [hp])
        rw [h1, h2, hp]
        simp
      | ok u =>
        have hn1 : Norm a1 := by have := plain_ok_norm assembleLine a l (by rw [hp]); rw [hp] at this; exact this
        have h1 := call_split assembleLine a l [] 10 eol10 hloc (by rw [hp])
        have h2 := call_split assembleLine a l rest 10 eol10 hloc (by rw [hp])
        rw [hp] at h1 h2
        simp only [plain_nil assembleLine a1 hn1] at h1
        rw [h1]
        simp only
        obtain ⟨i1, i2, i3⟩ := ih rest a1 tot hlen hn1
        rw [h2]
        rcases hw2 : asmAssembleStrWith assembleLine a1 rest with ⟨a2, res2⟩
        rw [hw2] at i1 i2
        cases res2 with
        | error e => simp at i1 ⊢; exact ⟨i1, i3⟩
        | ok u => simp at i1 i2 ⊢; exact ⟨i1, i2, i3⟩


/-- **the stdin loop is the one call, counting mode**: same success, same instance, and the printed total is the count of the one call -/
theorem stdinLoop_counting (b : Int) : ∀ (n : Nat) (t : Str) (a : Inst) (tot : Int), t.length ≤ n → Norm a →
    ((stdinLoop true b a tot (getlines t)).2.1 = true ↔ (asmCountingChunks a t b true).2.1 = .ok ()) ∧
    ((asmCountingChunks a t b true).2.1 = .ok () →
      (stdinLoop true b a tot (getlines t)).1 = (asmCountingChunks a t b true).1 ∧
      (stdinLoop true b a tot (getlines t)).2.2 = tot + ((asmCountingChunks a t b true).2.2).getD 0) := by
  intro n
  induction n with
  | zero =>
    intro t a tot hl hn
    have : t = [] := List.eq_nil_of_length_eq_zero (Nat.le_zero.mp hl)
    subst this
    have := counting_nil assembleLine a b hn
    unfold asmCountingChunks
    simp [getlines, stdinLoop, this]
  | succ n ih =>
    intro t a tot hl hn
    rcases lf_split t with hno | ⟨l, rest, rfl, hno⟩
    · by_cases hne : t = []
      · subst hne
        have := counting_nil assembleLine a b hn
        unfold asmCountingChunks
        simp [getlines, stdinLoop, this]
      · rw [getlines_last t hno hne]
        unfold stdinLoop
        simp only [if_true]
        have hs := counting_some assembleLine a t b
        unfold asmCountingChunks at *
        rcases hw : asmCountingChunksWith assembleLine a t b true with ⟨a', res, cnt⟩
        rw [hw] at hs
        cases res with
        | error e => simp
        | ok u =>
          cases cnt with
          | none => exact absurd rfl hs
          | some k => simp [stdinLoop]
    · rw [getlines_line l rest hno]
      have hlen : rest.length ≤ n := by simp only [List.length_append, List.length_cons] at hl; omega
      have hloc := assembleLine_local a.opt
      unfold stdinLoop
      simp only [if_true]
      unfold asmCountingChunks at *
      have hs1 := counting_some assembleLine a l b
      rcases hp : asmCountingChunksWith assembleLine a l b true with ⟨a1, res1, c1⟩
      rw [hp] at hs1
      cases res1 with
      | error er =>
        have h1 := count_split_err assembleLine a b l [] 10 eol10 hloc er (by rw [hp])
        have h2 := count_split_err assembleLine a b l rest 10 eol10 hloc er (by rw [hp])
        rw [h1, h2, hp]
        simp
      | ok u =>
        cases c1 with
        | none => exact absurd rfl hs1
        | some k1 =>
          have hn1 : Norm a1 := by have := counting_ok_norm assembleLine a l b (by rw [hp]); rw [hp] at this; exact this
          have h1 := count_split assembleLine a b l [] 10 eol10 hloc (by rw [hp])
          have h2 := count_split assembleLine a b l rest 10 eol10 hloc (by rw [hp])
          rw [hp] at h1 h2
          simp only [counting_nil assembleLine a1 b hn1, Option.map_some, Option.getD_some, Int.zero_add] at h1
          rw [h1]
          simp only
          obtain ⟨i1, i2⟩ := ih rest a1 (tot + k1) hlen hn1
          rw [h2]
          have hs2 := counting_some assembleLine a1 rest b
          rcases hw2 : asmCountingChunksWith assembleLine a1 rest b true with ⟨a2, res2, c2⟩
          rw [hw2] at i1 i2 hs2
          cases res2 with
          | error e => simp at i1 ⊢; exact i1
          | ok u =>
            cases c2 with
            | none => exact absurd rfl hs2
            | some k2 =>
              simp at i1 i2 ⊢
              refine ⟨i1, i2.1, ?_⟩
              rw [i2.2]; omega


/-! ### asmline: stdin and FILE -/

theorem parseFlag_offset (st : Parsed) (f : Flag) : (parseFlag st f).a.offset = st.a.offset := by
  cases f <;> simp only [parseFlag, applySetter] <;> (try rfl)
  all_goals (split <;> (try rfl))
  all_goals (unfold setChunkSize; split <;> rfl)

theorem parseFlags_offset (fs : List Flag) (st : Parsed) : (parseFlags st fs).a.offset = st.a.offset := by
  induction fs generalizing st with
  | nil => rfl
  | cons f fs ih =>
    unfold parseFlags
    split
    · rfl
    · rw [ih, parseFlag_offset]

theorem applyLong_offset (st : Parsed) : (applyLong st).offset = st.a.offset := by
  unfold applyLong applySetter
  simp only
  split <;> split <;> split <;> split <;> rfl

/-- **stdin and FILE give the same result**: for EVERY flag list, EVERY program text and either answer of the output file, asmline
    reading the program from stdin (one library call per `getline` piece, totals added up) ends with the same exit status as asmline
    reading it from FILE (one library call), and when that status is 0 with the same instance — buffer, offset, options — and the same
    count to print -/
theorem stdin_equals_file (flags : List Flag) (t : Str) (binOk : Bool) :
    (cliRun flags true (some t) binOk).exit = (cliRun flags false (some t) binOk).exit ∧
    ((cliRun flags false (some t) binOk).exit = 0 →
      (cliRun flags true (some t) binOk).a = (cliRun flags false (some t) binOk).a ∧
      (cliRun flags true (some t) binOk).count = (cliRun flags false (some t) binOk).count) := by
  unfold cliRun
  generalize hst : parseFlags { a := createInternal } flags = st
  simp only
  cases hu : st.usage with
  | true => simp
  | false =>
    simp only [Bool.false_eq_true, if_false]
    have hn : Norm (applyLong st) := by
      unfold Norm
      rw [applyLong_offset, ← hst, parseFlags_offset]
      decide
    unfold assemblePhase
    simp only [if_true, Bool.false_eq_true, if_false, Option.getD_some]
    by_cases hc : st.boundary > 0
    · simp only [hc, decide_true, if_true]
      obtain ⟨i1, i2⟩ := stdinLoop_counting st.boundary t.length t (applyLong st) 0 (Nat.le_refl _) hn
      have hs := counting_some assembleLine (applyLong st) t st.boundary
      unfold asmCountingChunksFile
      unfold asmCountingChunks at *
      rcases hw : asmCountingChunksWith assembleLine (applyLong st) t st.boundary true with ⟨a2, res, cnt⟩
      rw [hw] at i1 i2 hs
      cases res with
      | error e =>
        simp at i1
        simp [i1, hw]
      | ok u =>
        cases cnt with
        | none => exact absurd rfl hs
        | some k =>
          simp at i1 i2
          simp [i1, i2.1, i2.2, hw]
    · simp only [hc, decide_false, Bool.false_eq_true, if_false]
      obtain ⟨i1, i2, i3⟩ := stdinLoop_plain st.boundary t.length t (applyLong st) 0 (Nat.le_refl _) hn
      unfold asmAssembleFile
      rcases hw : asmAssembleStr (applyLong st) t with ⟨a2, res⟩
      rw [hw] at i1 i2
      cases res with
      | error e =>
        simp at i1
        simp [i1, hw]
      | ok u =>
        simp at i1 i2
        simp [i1, i2, hw]


/-! ### what `-p` prints reads back as the code (the printers of src/parser.c and tools/asmline.c, model AL.Impl.Debug) -/

open AL.Lemmas.DebugText in
/-- **the per-instruction listing reads back**: for EVERY option byte and text, reading every pair of hexadecimal digits of what a plain or
    counting call prints gives the codes of the accepted lines in order, byte for byte (`% 256`: the printer takes a `uint8_t`) -/
theorem listing_reads_back (opt : Nat) (text : Str) :
    parseHexOut (debugListing opt text).1 =
      ((listingGo (assembleLine opt) (text.length + 1) text).1.flatten).map (· % 256) := by
  have h := parse_listing (listingGo (assembleLine opt) (text.length + 1) text).1 []
  rw [List.append_nil] at h
  unfold debugListing
  dsimp only
  rw [h]
  have : parseHexOut [] = [] := by rw [parseHexOut]
  rw [this, List.append_nil]

open AL.Lemmas.DebugText in
/-- **the chunked dump reads back**: for EVERY chunk size and buffer contents, what chunk fitting prints (`|` at every boundary) is the buffer -/
theorem chunk_dump_reads_back (c : Nat) (bs : Bytes) : parseHexOut (printChunks c bs) = bs.map (· % 256) := by
  have h := parse_printChunks c bs []
  rw [List.append_nil] at h
  rw [h]
  have : parseHexOut [] = [] := by rw [parseHexOut]
  rw [this, List.append_nil]

/-- **`-p -c N` prints the code the library produced**: for EVERY flag list with `-p`, chunk fitting and no `-b`, every source and program —
    when the run succeeds, reading back what asmline prints gives exactly the bytes `[0, offset)` of the instance's buffer -/
theorem p_with_fitting_prints_the_code (flags : List Flag) (stdin : Bool) (prog : Option Str)
    (hu : (parseFlags { a := createInternal } flags).usage = false)
    (hd : (parseFlags { a := createInternal } flags).debug = true)
    (hb : (parseFlags { a := createInternal } flags).boundary ≤ 0)
    (hf : (applyLong (parseFlags { a := createInternal } flags)).mode = .fitting)
    (hok : (assemblePhase (parseFlags { a := createInternal } flags) stdin prog).2.1 = true) :
    parseHexOut (cliStdout flags stdin prog) =
      (((assemblePhase (parseFlags { a := createInternal } flags) stdin prog).1.mem.take
        (assemblePhase (parseFlags { a := createInternal } flags) stdin prog).1.offset.toNat).map (· % 256)) := by
  have hnb : ¬ (parseFlags { a := createInternal } flags).boundary > 0 := by
    simp only [Int.not_lt]; exact hb
  have hcount : (assemblePhase (parseFlags { a := createInternal } flags) stdin prog).2.2 = none := by
    unfold assemblePhase
    dsimp only
    by_cases hs : stdin = true
    · simp only [hs, if_true, hnb, decide_false, Bool.false_eq_true, if_false]
    · simp only [hs, if_false, hnb, decide_false, Bool.false_eq_true]
      split <;> rfl
  unfold cliStdout
  simp only [hu, Bool.false_eq_true, if_false, hd, Bool.not_true, hf, beq_self_eq_true, Bool.true_and, decide_eq_true_eq, hb, if_true, hok,
    hcount, List.append_nil]
  exact chunk_dump_reads_back _ _

/-! ### `-p FILE` without chunk fitting: what is printed is the code in the buffer -/

/-- the three fields the layout theorem needs besides the offset: buffer contents, recorded length, ownership — no flag touches them -/
def Shape (a b : Inst) : Prop := a.mem = b.mem ∧ a.bufLen = b.bufLen ∧ a.external = b.external

theorem parseFlag_mem (st : Parsed) (f : Flag) : (parseFlag st f).a.mem = st.a.mem := by
  cases f <;> simp only [parseFlag, applySetter] <;> (try rfl)
  all_goals (split <;> (try rfl))
  all_goals (unfold setChunkSize; split <;> rfl)

theorem parseFlags_mem (fs : List Flag) (st : Parsed) : (parseFlags st fs).a.mem = st.a.mem := by
  induction fs generalizing st with
  | nil => rfl
  | cons f fs ih =>
    unfold parseFlags
    split
    · rfl
    · rw [ih, parseFlag_mem]

theorem applyLong_mem (st : Parsed) : (applyLong st).mem = st.a.mem := by
  unfold applyLong applySetter
  simp only
  split <;> split <;> split <;> split <;> rfl

theorem parseFlag_bufLen (st : Parsed) (f : Flag) : (parseFlag st f).a.bufLen = st.a.bufLen := by
  cases f <;> simp only [parseFlag, applySetter] <;> (try rfl)
  all_goals (split <;> (try rfl))
  all_goals (unfold setChunkSize; split <;> rfl)

theorem parseFlags_bufLen (fs : List Flag) (st : Parsed) : (parseFlags st fs).a.bufLen = st.a.bufLen := by
  induction fs generalizing st with
  | nil => rfl
  | cons f fs ih =>
    unfold parseFlags
    split
    · rfl
    · rw [ih, parseFlag_bufLen]

theorem applyLong_bufLen (st : Parsed) : (applyLong st).bufLen = st.a.bufLen := by
  unfold applyLong applySetter
  simp only
  split <;> split <;> split <;> split <;> rfl

theorem parseFlag_external (st : Parsed) (f : Flag) : (parseFlag st f).a.external = st.a.external := by
  cases f <;> simp only [parseFlag, applySetter] <;> (try rfl)
  all_goals (split <;> (try rfl))
  all_goals (unfold setChunkSize; split <;> rfl)

theorem parseFlags_external (fs : List Flag) (st : Parsed) : (parseFlags st fs).a.external = st.a.external := by
  induction fs generalizing st with
  | nil => rfl
  | cons f fs ih =>
    unfold parseFlags
    split
    · rfl
    · rw [ih, parseFlag_external]

theorem applyLong_external (st : Parsed) : (applyLong st).external = st.a.external := by
  unfold applyLong applySetter
  simp only
  split <;> split <;> split <;> split <;> rfl

open AL.Lemmas AL.Lemmas.DebugText in
/-- **`-p FILE` prints the code the library produced** (no chunk fitting, no `-b`): for EVERY flag list and program text (below 170 000
    characters: the int arithmetic of the C code), when the run succeeds, reading back the listing gives exactly the bytes `[0, offset)`
    of the instance's buffer — the listing's codes are the codes of the layout theorem (`listingGo_codes`, `asm_layout`) -/
theorem p_plain_file_prints_the_code (flags : List Flag) (text : Str)
    (hu : (parseFlags { a := createInternal } flags).usage = false)
    (hd : (parseFlags { a := createInternal } flags).debug = true)
    (hb : (parseFlags { a := createInternal } flags).boundary ≤ 0)
    (hm : (applyLong (parseFlags { a := createInternal } flags)).mode = .assemble)
    (hlen : text.length < 170000)
    (hok : (assemblePhase (parseFlags { a := createInternal } flags) false (some text)).2.1 = true) :
    parseHexOut (cliStdout flags false (some text)) =
      (((assemblePhase (parseFlags { a := createInternal } flags) false (some text)).1.mem.take
        (assemblePhase (parseFlags { a := createInternal } flags) false (some text)).1.offset.toNat).map (· % 256)) := by
  generalize hst : parseFlags { a := createInternal } flags = st at *
  have hnb : ¬ st.boundary > 0 := by simp only [Int.not_lt]; exact hb
  -- the instance the program is assembled on
  have hsh : Shape (applyLong st) createInternal := by
    refine ⟨?_, ?_, ?_⟩
    · rw [applyLong_mem, ← hst, parseFlags_mem]
    · rw [applyLong_bufLen, ← hst, parseFlags_bufLen]
    · rw [applyLong_external, ← hst, parseFlags_external]
  have hoff : (applyLong st).offset = 0 := by
    rw [applyLong_offset, ← hst, parseFlags_offset]; rfl
  have hmemlen : (applyLong st).mem.length = 6020 := by
    rw [hsh.1]
    show (List.replicate (AL.Gen.c_MEM_BUFFER + AL.Gen.c_BUFFER_TOLERANCE) 0).length = 6020
    rw [List.length_replicate]
    rfl
  have hinv : BufInv (applyLong st) := by unfold BufInv; rw [hsh.2.1, hmemlen]; decide
  have hext : (applyLong st).external = false := by rw [hsh.2.2]; rfl
  -- the phase is the one library call
  have hphase : assemblePhase st false (some text) =
      (match asmAssembleStr (applyLong st) text with
       | (a, .ok ()) => (a, true, none)
       | (a, .error _) => (a, false, none)) := by
    unfold assemblePhase asmAssembleFile
    simp only [Bool.false_eq_true, if_false, hnb, decide_false]
    rfl
  rw [hphase] at hok ⊢
  have hcall : (asmAssembleStr (applyLong st) text).2 = .ok () := by
    rcases hr : asmAssembleStr (applyLong st) text with ⟨a', r'⟩
    rw [hr] at hok
    cases r' with
    | ok u => rfl
    | error e => simp at hok
  have hlay := asm_layout assembleLine (applyLong st) text hinv (by rw [hoff]; exact Int.le_refl 0) (by rw [hoff]; exact Int.natCast_nonneg _)
    (by intro h; rw [hm] at h; exact absurd h (by decide))
    (by rw [hmemlen]; unfold growth; rw [hext]; simp only [Bool.false_eq_true, if_false]; omega) hcall
  -- stdout is the listing
  have hout : cliStdout flags false (some text) = (debugListing (applyLong st).opt text).1 := by
    unfold cliStdout
    rw [hst]
    simp only [hu, Bool.false_eq_true, if_false, hd, Bool.not_true, hm]
    have hne : ((Mode.assemble == Mode.fitting) = false) := by decide
    simp only [hne, Bool.false_and, Bool.false_eq_true, if_false]
    rw [hphase]
    rcases hr : asmAssembleStr (applyLong st) text with ⟨a', r'⟩
    cases r' <;> simp
  rw [hout, listing_reads_back]
  -- the codes of the listing are the codes of the layout, and the layout in plain mode is their concatenation
  have hcodes : (listingGo (assembleLine (applyLong st).opt) (text.length + 1) text).1 = codesOf assembleLine (applyLong st).opt text := by
    rw [listingGo_codes]; rfl
  have hflat : ∀ (cs : List Bytes) (p : Nat), layoutAll .assemble (applyLong st).chunkSize p cs = cs.flatten := by
    intro cs
    induction cs with
    | nil => intro p; rfl
    | cons c cs ih => intro p; simp only [layoutAll, layoutOne, List.flatten_cons, ih]
  rw [hcodes]
  rcases hr : asmAssembleStr (applyLong st) text with ⟨a', r'⟩
  have hr' : asmAssembleStrWith assembleLine (applyLong st) text = (a', r') := hr
  rw [hr'] at hlay
  rw [hm, hoff] at hlay
  simp only [hflat, Int.toNat_zero, List.drop_zero, Int.zero_add] at hlay
  obtain ⟨ho, hmem, _⟩ := hlay
  cases r' with
  | error e => rw [hr] at hcall; simp at hcall
  | ok u =>
    simp only
    rw [ho, Int.toNat_natCast, hmem]

/-- non-vacuity: `asmline -p -c 8 FILE` on a two-line program meets every hypothesis of `p_with_fitting_prints_the_code` -/
example :
    let st := parseFlags { a := createInternal } [.p, .c 8]
    st.usage = false ∧ st.debug = true ∧ st.boundary ≤ 0 ∧ (applyLong st).mode = .fitting ∧
      (assemblePhase st false (some (str! "mov rax, 0x1122334455667788\nret"))).2.1 = true := by decide +kernel

/-- non-vacuity: `asmline -p --nasm-mov-imm FILE` on a three-line program meets every hypothesis of `p_plain_file_prints_the_code` -/
example :
    let st := parseFlags { a := createInternal } [.p, .nasmMovImm]
    st.usage = false ∧ st.debug = true ∧ st.boundary ≤ 0 ∧ (applyLong st).mode = .assemble ∧
      (assemblePhase st false (some (str! "mov rax, 0x1\nadd rax, rcx ; c\nret"))).2.1 = true := by decide +kernel

end AL.Properties.C20
