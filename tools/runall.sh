#!/bin/bash
# run every registered quick check on the clean tree (rewrites all evidence files)
cd /verif
for p in $(python3 -c "import json; print(' '.join(c['property_id'] for c in json.load(open('MANIFEST.json'))['checks']))"); do
  python3 alv.py check $p --tier ${1:-quick} 2>/dev/null | tail -1
done
