/-
  C11 — assembly modes change only the documented forms, in the documented way.

  In the model the option byte is a parameter of exactly the functions that read it
  (`swapFires`, `noBaseAdjust`, `effNasm`), so the lexer — filter, tokenizer, register and table
  lookup — and the byte emission `assembleAsm` are option-free by construction and the tie (the
  differential check of all twelve option bytes) is what shows that the C code reads the option
  nowhere else.

  Theorems:
   * `other_lines_identical` — NON-INTERFERENCE: for every text and every two option bytes, if the
     record handed to the encoder is outside the three documented classes (`optPlainB`), the line
     assembles to the same result.  The three classes are exactly
       (A) an immediate ≤ 0xffffffff moved into a 64-bit register,
       (B) a memory operand whose index is a stack pointer without scale (`[rax+rsp]`),
       (C) a memory operand with an index register and no base (`[2*rax]`).
   * `strict_keeps_destination`, `smart_follows_spelling`, `narrowOk_spelling` — the mov-immediate dimension:
     STRICT never touches the destination register, SMART is NASM or STRICT depending only on how
     the literal was written.
   * `swap_only_when_nasm`, `nobase_only_when_nasm` — the SIB rewritings happen only with their bit;
   * `swap_same_address`, `nobase_scale2_same_address`, `nobase_scale1_same_address` — the rewritten operand denotes the
     same address for every register valuation.
-/
import AL.Lemmas.OptFrame
namespace AL.Properties.C11
open AL AL.Impl AL.Gen AL.Lemmas

/-! ### the record handed to the encoder, and the decidable guard -/

/-- what `line_to_instr` hands to encode_imm/encode_operands for a lexed record (none: the line
    was rejected by the branch-width rules, which do not read the option) -/
def encoderInput (s : Instr) : Option Instr :=
  match resolveBranch s with
  | .ok s' => some (encodeOffset (branch32 (selectShort s')))
  | .error _ => none

/-- the encoder input of a text line (none: filtered away, skipped or rejected before encoding) -/
def lineEncoderInput (text : Str) : Option Instr :=
  match filterLine text with
  | none => none
  | some (f, _) =>
    if isSkipped f then none else
    match lexLine f with
    | .error _ => none
    | .ok s => encoderInput s

/-- class (B)/(C) test for operand `i` -/
def memPlainB (s : Instr) (i : Nat) : Bool :=
  !((((s.opd i).index &&& c_REG_MASK) == c_spl) && s.sibDisp == 0) && !noBaseFires (s.opd i)

/-- class (A) test on the record after the accumulator short form was selected -/
def dtPlainB (s : Instr) : Bool :=
  s.memDisp ||
  ((decide ((s.opd0.reg &&& c_MODE_MASK) < c_reg64) || decide (c_MAX_UNSIGNED_32BIT < s.cons)) &&
   ((rowAt s.key).enc == c_I || decide ((s.opd0.reg &&& c_MODE_MASK) ≤ c_noext8)))

def immPlainB (s : Instr) : Bool :=
  !s.imm || !typeIs (immSelectAcc s).key c_DATA_TRANSFER || dtPlainB (immSelectAcc s)

/-- the line is outside the three documented classes -/
def optPlainB (e : Instr) : Bool :=
  immPlainB e && memPlainB e 0 && memPlainB e 1 && memPlainB e 2 && memPlainB e 3

theorem memPlainB_sound (s : Instr) (i : Nat) (h : memPlainB s i = true) : MemPlain s i := by
  unfold memPlainB at h
  simp only [Bool.and_eq_true, Bool.not_eq_true', Bool.and_eq_false_iff, beq_eq_false_iff_ne, ne_eq] at h
  refine ⟨?_, h.2⟩
  intro ⟨h1, h2⟩
  rcases h.1 with h' | h'
  · exact h' h1
  · exact h' h2

theorem optPlainB_sound (e : Instr) (h : optPlainB e = true) : ImmPlain e ∧ Plain e := by
  unfold optPlainB at h
  simp only [Bool.and_eq_true] at h
  obtain ⟨⟨⟨⟨hi, h0⟩, h1⟩, h2⟩, h3⟩ := h
  constructor
  · unfold immPlainB at hi
    simp only [Bool.or_eq_true, Bool.not_eq_true'] at hi
    rcases hi with (hi | hi) | hi
    · exact Or.inl hi
    · exact Or.inr (Or.inl hi)
    · refine Or.inr (Or.inr ?_)
      unfold dtPlainB at hi
      simp only [Bool.or_eq_true, Bool.and_eq_true, decide_eq_true_eq, beq_iff_eq] at hi
      exact hi
  · intro i hi
    match i, hi with
    | 0, _ => exact memPlainB_sound e 0 h0
    | 1, _ => exact memPlainB_sound e 1 h1
    | 2, _ => exact memPlainB_sound e 2 h2
    | 3, _ => exact memPlainB_sound e 3 h3

/-! ### non-interference -/

theorem encodeIfRegs_indep (o1 o2 : Nat) (s : Instr)
    (h : ImmPlain (encodeOffset s) ∧ Plain (encodeOffset s)) : encodeIfRegs o1 s = encodeIfRegs o2 s := by
  unfold encodeIfRegs
  split
  · rw [encodeImm_indep o1 o2 _ h.1]
    exact encodeOperands_indep o1 o2 _ (Plain.of_same (encodeImm_same o2 _ h.1) h.2)
  · rfl

theorem resolveLine_indep (o1 o2 : Nat) (s : Instr)
    (h : ∀ e, encoderInput s = some e → ImmPlain e ∧ Plain e) : resolveLine o1 s = resolveLine o2 s := by
  unfold resolveLine
  unfold encoderInput at h
  split
  · rfl
  · rename_i s' hs'
    rw [hs'] at h
    unfold resolveRest
    split
    · rfl
    · rw [encodeIfRegs_indep o1 o2 _ (h _ rfl)]

/-- **Every other line assembles to identical bytes under all option combinations**: result and
    consumed length of the per-line function agree for any two option bytes whenever the encoder
    input of the line is outside classes (A), (B), (C). -/
theorem other_lines_identical (o1 o2 : Nat) (text : Str)
    (h : ∀ e, lineEncoderInput text = some e → optPlainB e = true) :
    assembleLine o1 text = assembleLine o2 text := by
  unfold assembleLine
  unfold lineEncoderInput at h
  split
  · rfl
  · rename_i f i hf
    rw [hf] at h
    dsimp only at h ⊢
    split
    · rfl
    · rename_i hsk
      rw [if_neg hsk] at h
      split
      · rfl
      · rename_i s hs
        rw [hs] at h
        dsimp only at h
        rw [resolveLine_indep o1 o2 s (fun e he => optPlainB_sound e (h e he))]

/-- the same for whole programs: `assembleAll` and with it every API call only sees the per-line
    function, so two option bytes that agree on every line of a text agree on the text
    (stated for the line function; C06 `LineLocal` lifts it). -/
theorem lines_identical_fn (o1 o2 : Nat)
    (h : ∀ text e, lineEncoderInput text = some e → optPlainB e = true) :
    assembleLine o1 = assembleLine o2 :=
  funext fun text => other_lines_identical o1 o2 text (h text)

/-! ### the mov-immediate dimension -/

def strictImm (o : Nat) : Prop := band o c_SMART_MOV_IMM = false ∧ band o c_NASM_MOV_IMM = false
def nasmImm (o : Nat) : Prop := band o c_SMART_MOV_IMM = false ∧ band o c_NASM_MOV_IMM = true
def smartImm (o : Nat) : Prop := band o c_SMART_MOV_IMM = true

theorem effNasm_strict (o : Nat) (s : Instr) (h : strictImm o) : effNasm o s = false := by
  unfold effNasm; rw [h.1, h.2]; rfl

theorem effNasm_nasm (o : Nat) (s : Instr) (h : nasmImm o) : effNasm o s = true := by
  unfold effNasm; rw [h.1, h.2]; rfl

theorem effNasm_smart (o : Nat) (s : Instr) (h : smartImm o) : effNasm o s = s.narrowOk := by
  unfold effNasm; rw [h]; rfl

theorem dtSelect_false_opd0 (s : Instr) : (dtSelect false s).opd0 = s.opd0 := by
  unfold dtSelect
  simp only [Bool.false_and, Bool.false_eq_true, if_false]
  repeat' split
  all_goals rfl

theorem dtOpOffset_opd0 (b : Bool) (s : Instr) : (dtOpOffset b s).opd0 = s.opd0 := by
  unfold dtOpOffset; split <;> rfl

/-- **STRICT keeps the 64-bit destination**: encode_imm never changes an operand -/
theorem strict_keeps_destination (o : Nat) (s : Instr) (h : strictImm o) :
    AddrSame (encodeImm o s) s := by
  unfold encodeImm
  split
  · exact AddrSame.refl s
  · split
    · exact ⟨rfl, rfl, rfl, rfl, rfl, rfl⟩
    · split
      · exact ⟨rfl, rfl, rfl, rfl, rfl, rfl⟩
      · refine (immTruncate_same _).trans (AddrSame.trans ?_ (immSelectAcc_same s))
        generalize immSelectAcc s = x
        unfold immByClass
        dsimp only
        split
        · exact ⟨rfl, rfl, rfl, rfl, rfl, rfl⟩
        · split
          · split <;> split <;> exact ⟨rfl, rfl, rfl, rfl, rfl, rfl⟩
          · split
            · exact encodeImmNonDataTransfer_same x
            · split
              · unfold encodeImmDataTransfer
                dsimp only
                split
                · exact ⟨rfl, rfl, rfl, rfl, rfl, rfl⟩
                split
                · exact ⟨rfl, rfl, rfl, rfl, rfl, rfl⟩
                · rw [effNasm_strict o _ h]
                  generalize hx0 : ({ x with rdOffset := x.opd0.reg &&& c_VALUE_MASK } : Instr) = x0
                  have hxs : AddrSame x0 x := by rw [← hx0]; exact ⟨rfl, rfl, rfl, rfl, rfl, rfl⟩
                  refine (dtOpOffset_same _ _).trans (AddrSame.trans ?_ ((dtNeg32_facts x0).2.2.2.2.1.trans hxs))
                  generalize dtNeg32 x0 = y
                  unfold dtSelect
                  simp only [Bool.false_and, Bool.false_eq_true, if_false]
                  repeat' split
                  all_goals exact ⟨rfl, rfl, rfl, rfl, rfl, rfl⟩
              · exact AddrSame.refl x

/-- **SMART is NASM or STRICT by spelling**: with the SMART bit, the encoder behaves on a record
    exactly as with a NASM option byte if the literal may be narrowed, and exactly as with a STRICT
    one otherwise (same SIB bits assumed through `o'`). -/
theorem smart_follows_spelling (o o' : Nat) (s : Instr) (h : smartImm o)
    (h' : if s.narrowOk then nasmImm o' else strictImm o') :
    encodeImm o s = encodeImm o' s := by
  have heff : ∀ x : Instr, x.narrowOk = s.narrowOk → effNasm o x = effNasm o' x := by
    intro x hx
    rw [effNasm_smart o x h, hx]
    cases hn : s.narrowOk
    · rw [hn] at h'; exact (effNasm_strict o' x h').symm
    · rw [hn] at h'; exact (effNasm_nasm o' x h').symm
  have hacc : (immSelectAcc s).narrowOk = s.narrowOk := by
    unfold immSelectAcc encodeImmOperation
    dsimp only
    repeat' split
    all_goals rfl
  unfold encodeImm
  split
  · rfl
  · split
    · rfl
    · split
      · rfl
      · congr 1
        generalize immSelectAcc s = x at hacc
        unfold immByClass
        dsimp only
        split
        · rfl
        · split
          · rfl
          · split
            · rfl
            · split
              · unfold encodeImmDataTransfer
                dsimp only
                have hyn : (dtNeg32 ({ x with rdOffset := x.opd0.reg &&& c_VALUE_MASK } : Instr)).narrowOk = s.narrowOk :=
                  (dtNeg32_facts _).2.2.2.1.trans hacc
                split
                · rfl
                · rw [heff _ hyn]
              · rfl

/-- **the spelling rule**: the literal may be narrowed unless it is hexadecimal and written with
    at least 18 characters ("0x" and all 16 digits) -/
theorem narrowOk_spelling (s s' : Instr) (imme : Str) (h : immTok s imme = .ok s') :
    ∃ tok rest, strtok imme [32] = some (tok, rest) ∧
      s'.narrowOk = !((chAt tok 1 == ch! 'x' || (chAt tok 1 != 0 && chAt tok 2 == ch! 'x')) &&
                      decide (imme.length ≥ c_STR_HEX_64)) := by
  unfold immTok at h
  dsimp only at h
  split at h
  · exact nomatch h
  · rename_i tok rest htok
    refine ⟨tok, rest, htok, ?_⟩
    split at h <;> split at h <;> first | (cases h; done) | (cases h; rfl)

/-! ### the SIB dimension -/

/-- **the swap happens only with its bit** -/
theorem swap_only_when_nasm (o : Nat) (s : Instr) (mi : Nat) (h : band o c_NASM_SIB_INDEX_BASE_SWAP = false) :
    swapFires o s mi = false := by
  unfold swapFires; rw [h]; rfl

/-- **the no-base rewriting happens only with its bit**: without it the operand is encoded
    literally (`disp32` base, SIB with the written index and scale) -/
theorem nobase_only_when_nasm (o : Nat) (s : Instr) (m : Operand) (h : band o c_NASM_SIB_NO_BASE = false)
    (hf : noBaseFires m = true) :
    noBaseAdjust o s m = (noBaseDisp { s with noBase := true }, { m with reg := c_NO_BASE }) := by
  unfold noBaseAdjust
  rw [h]
  simp only [hf, if_true, Bool.false_eq_true, if_false]
  rfl

theorem baseFixups_sibDisp (s : Instr) (m : Operand) : (baseFixups s m).sibDisp = s.sibDisp := by
  unfold baseFixups
  dsimp only
  repeat' split
  all_goals rfl

theorem noBaseDisp_sibDisp (s : Instr) : (noBaseDisp s).sibDisp = s.sibDisp := rfl

/-- the address an operand denotes: base + index·2^scale for a register valuation (`none` register
    contributes nothing); `scale` is the two SIB scale bits -/
def addrOf (val : Nat → Int) (base index : Nat) (scale : Nat) : Int :=
  (if base == c_reg_none then 0 else val base) + (if index == c_reg_none then 0 else val index * 2 ^ scale)

/-- **the swap keeps the address**: it fires only with scale 1 -/
theorem swap_same_address (val : Nat → Int) (m : Operand) :
    addrOf val (swapOperand m true).reg (swapOperand m true).index 0 = addrOf val m.reg m.index 0 := by
  unfold swapOperand addrOf
  simp only [if_true, Int.pow_zero, Int.mul_one]
  exact Int.add_comm _ _

/-- **no base, scale 2** (`[2*rax]` → `[rax+1*rax]`): same address -/
theorem nobase_scale2_same_address (val : Nat → Int) (s : Instr) (m : Operand) (o : Nat)
    (hb : band o c_NASM_SIB_NO_BASE = true) (hf : noBaseFires m = true) (hs : s.sibDisp = c_SIB2) :
    let r := noBaseAdjust o s m
    addrOf val r.2.reg r.2.index (r.1.sibDisp / 64) = addrOf val m.reg m.index (s.sibDisp / 64) := by
  unfold noBaseAdjust
  have hne : (s.sibDisp == c_SIB) = false := by rw [hs]; decide
  have heq : (s.sibDisp == c_SIB2) = true := by rw [hs]; decide
  unfold noBaseFires at hf
  simp only [Bool.and_eq_true, beq_iff_eq, bne_iff_ne, ne_eq] at hf
  have hidx : (m.index == c_reg_none) = false := by rw [beq_eq_false_iff_ne]; exact hf.2
  have hnb : (m.index == c_NO_BASE) = false ∨ True := Or.inr trivial
  simp only [noBaseFires, hf.1, beq_self_eq_true, Bool.true_and, bne_iff_ne, ne_eq, hf.2, not_false_eq_true,
    decide_true, if_true, hb, hne, heq, Bool.false_eq_true, if_false]
  unfold addrOf
  split <;>
  · simp only [hidx, hs, beq_self_eq_true, if_true, Bool.false_eq_true, if_false, baseFixups_sibDisp, noBaseDisp_sibDisp]
    show val m.index + val m.index * 2 ^ 0 = 0 + val m.index * 2 ^ 1
    omega

/-- **no base, scale 1** (`[1*rax]` → `[rax]`): same address -/
theorem nobase_scale1_same_address (val : Nat → Int) (s : Instr) (m : Operand) (o : Nat)
    (hb : band o c_NASM_SIB_NO_BASE = true) (hf : noBaseFires m = true) (hs : s.sibDisp = c_SIB) :
    let r := noBaseAdjust o s m
    addrOf val r.2.reg r.2.index (r.1.sibDisp / 64) = addrOf val m.reg m.index (s.sibDisp / 64) := by
  unfold noBaseAdjust
  have heq : (s.sibDisp == c_SIB) = true := by rw [hs]; decide
  unfold noBaseFires at hf
  simp only [Bool.and_eq_true, beq_iff_eq, bne_iff_ne, ne_eq] at hf
  have hidx : (m.index == c_reg_none) = false := by rw [beq_eq_false_iff_ne]; exact hf.2
  simp only [noBaseFires, hf.1, beq_self_eq_true, Bool.true_and, bne_iff_ne, ne_eq, hf.2, not_false_eq_true,
    decide_true, if_true, hb, heq]
  unfold addrOf
  split <;>
  · simp only [hidx, hs, hf.1, beq_self_eq_true, if_true, Bool.false_eq_true, if_false, baseFixups_sibDisp, noBaseDisp_sibDisp]
    show val m.index + 0 = 0 + val m.index * 2 ^ 0
    omega

/-! ### non-vacuity: concrete lines inside and outside the classes -/

def guardOf (t : String) : Option Bool := (lineEncoderInput (t.toList.map Char.toNat)).map optPlainB

example : guardOf "add rax, 5" = some true := by decide +kernel
example : guardOf "mov eax, 0xffffffff" = some true := by decide +kernel
example : guardOf "mov dword [rax+rcx*2], 7" = some true := by decide +kernel
example : guardOf "mov rax, -1" = some true := by decide +kernel
example : guardOf "vaddpd ymm1, ymm2, [rax+rbx*8+16]" = some true := by decide +kernel
example : guardOf "mov rax, 5" = some false := by decide +kernel
example : guardOf "lea rax, [rbx+rsp]" = some false := by decide +kernel
example : guardOf "lea rax, [2*rbx]" = some false := by decide +kernel

end AL.Properties.C11
