/-
  C12 — option setters compose as documented: last effective setting per dimension.

  `Impl.applySetter` is the transliteration of the five C setters on the option byte;
  `Spec.apply` is the documented table on the abstract triple.  The theorems say that the
  implementation refines the specification for EVERY finite sequence of calls with every
  argument value (including undocumented ones), that a new instance is SMART/NASM/NASM, that
  the option byte is a function of the abstract triple (so behaviour, which reads only that
  byte, is determined by the last effective settings), and that a setter on one instance
  leaves every other instance untouched.
-/
import AL.Impl.Api
import AL.Spec.Api
namespace AL.Properties.C12
open AL AL.Impl AL.Gen AL.Spec

/-- how the encoder reads the option byte (src/parser.c:69, encoder.c:87, prefix.c:100) -/
def abs (o : Nat) : Opts :=
  { mov := if o &&& c_SMART_MOV_IMM != 0 then .smart
           else if o &&& c_NASM_MOV_IMM != 0 then .nasm else .strict
    swap := o &&& c_NASM_SIB_INDEX_BASE_SWAP != 0
    noBase := o &&& c_NASM_SIB_NO_BASE != 0 }

/-- the option byte a given abstract state is stored as -/
def conc (o : Opts) : Nat :=
  (match o.mov with | .strict => 0 | .nasm => c_NASM_MOV_IMM | .smart => c_SMART_MOV_IMM) |||
  (if o.swap then c_NASM_SIB_INDEX_BASE_SWAP else 0) |||
  (if o.noBase then c_NASM_SIB_NO_BASE else 0)

/-- raw `enum asm_opt` argument ↦ documented value -/
def valOf (v : Nat) : Val :=
  if v == c_STRICT then .strict else if v == c_NASM then .nasm
  else if v == c_SMART then .smart else .other

def callOf (w : Setter) (v : Nat) : Call :=
  match w with
  | .mov => .movImm (valOf v) | .sib => .sib (valOf v) | .swap => .swap (valOf v)
  | .nobase => .noBase (valOf v) | .all => .setAll (valOf v)

def allOpts : List Opts :=
  [.strict, .nasm, .smart].flatMap fun m => [false, true].flatMap fun s => [false, true].map fun n => ⟨m, s, n⟩

def allVals : List Val := [.strict, .nasm, .smart, .other]

theorem mem_allOpts (o : Opts) : o ∈ allOpts := by
  rcases o with ⟨m, s, n⟩
  cases m <;> cases s <;> cases n <;> decide

/-- representative raw argument of each documented value class -/
def rawOf : Val → Nat
  | .strict => c_STRICT | .nasm => c_NASM | .smart => c_SMART | .other => 3

theorem conc_abs (o : Opts) : abs (conc o) = o := by
  have h : ∀ o ∈ allOpts, abs (conc o) = o := by decide
  exact h o (mem_allOpts o)

/-- a setter only looks at which documented class its argument falls in -/
theorem bits_class (w : Setter) (o v : Nat) : w.bits o v = w.bits o (rawOf (valOf v)) := by
  have hv : (v == c_STRICT) = true ∨ (v == c_NASM) = true ∨ (v == c_SMART) = true ∨
      ((v == c_STRICT) = false ∧ (v == c_NASM) = false ∧ (v == c_SMART) = false) := by
    cases h1 : (v == c_STRICT) <;> cases h2 : (v == c_NASM) <;> cases h3 : (v == c_SMART) <;> simp
  rcases hv with h | h | h | ⟨h1, h2, h3⟩
  · have : v = c_STRICT := by simpa using h
    subst this; rfl
  · have : v = c_NASM := by simpa using h
    subst this; rfl
  · have : v = c_SMART := by simpa using h
    subst this; rfl
  · simp [c_STRICT, c_NASM, c_SMART] at h1 h2 h3
    cases w <;>
      simp [Setter.bits, movImmBits, swapBits, noBaseBits, sibBits, setAllBits, valOf, rawOf,
        h1, h2, h3, c_STRICT, c_NASM, c_SMART]

/-- one step, on every stored state of the form `conc o`: the implementation setter is the
    documented transition.  12 states × 5 setters × 4 argument classes, by evaluation. -/
theorem step_refines (w : Setter) (o : Opts) (v : Nat) :
    w.bits (conc o) v = conc (Spec.apply o (callOf w v)) := by
  rw [bits_class]
  have h : ∀ o ∈ allOpts, ∀ x ∈ allVals, ∀ w ∈ [Setter.mov, .sib, .swap, .nobase, .all],
      w.bits (conc o) (rawOf x) = conc (Spec.apply o (callOf w (rawOf x))) := by decide
  have hx : ∀ x : Val, x ∈ allVals := by intro x; cases x <;> decide
  have hw : ∀ w : Setter, w ∈ [Setter.mov, .sib, .swap, .nobase, .all] := by intro w; cases w <;> decide
  have hval : ∀ x : Val, valOf (rawOf x) = x := by intro x; cases x <;> decide
  have := h o (mem_allOpts o) (valOf v) (hx _) w (hw w)
  rw [this]
  congr 1
  cases w <;> simp [callOf, hval]

/-- **C12 (i)**: a new instance is SMART / NASM / NASM. -/
theorem create_default : abs (createExternal n fill).opt = Opts.default ∧
    abs createInternal.opt = Opts.default := by
  constructor
  · show abs c_DEFAULT = Opts.default
    decide
  · decide

theorem default_conc : c_DEFAULT = conc Opts.default := by decide

/-- **C12 (ii)**: for every finite sequence of setter calls with arbitrary argument values, the
    stored option byte is exactly the encoding of what the documented table yields. -/
theorem refines (calls : List (Setter × Nat)) (o : Opts) :
    calls.foldl (fun b c => c.1.bits b c.2) (conc o) =
      conc (calls.foldl (fun s c => Spec.apply s (callOf c.1 c.2)) o) := by
  induction calls generalizing o with
  | nil => rfl
  | cons c cs ih =>
    simp only [List.foldl_cons]
    rw [step_refines, ih]

/-- the same, read through `abs`, starting from a fresh instance -/
theorem refines_abs (calls : List (Setter × Nat)) :
    abs (calls.foldl (fun b c => c.1.bits b c.2) c_DEFAULT) =
      calls.foldl (fun s c => Spec.apply s (callOf c.1 c.2)) Opts.default := by
  rw [default_conc, refines, conc_abs]

/-- on instances: `applySetter` touches nothing but the option byte -/
theorem applySetter_frame (a : Inst) (w : Setter) (v : Nat) :
    (applySetter a w v).mem = a.mem ∧ (applySetter a w v).offset = a.offset ∧
    (applySetter a w v).mode = a.mode ∧ (applySetter a w v).chunkSize = a.chunkSize ∧
    (applySetter a w v).bufLen = a.bufLen ∧ (applySetter a w v).external = a.external ∧
    (applySetter a w v).oob = a.oob := by
  simp [applySetter]

/-- **C12 (iii)**: several live instances — a world is a map from instance ids to instances;
    a setter call on instance `i` leaves every other instance exactly as it was. -/
def World := Nat → Option Inst

def World.set (wd : World) (i : Nat) (w : Setter) (v : Nat) : World :=
  fun j => if j = i then (wd j).map (fun a => applySetter a w v) else wd j

theorem other_instances_untouched (wd : World) (i j : Nat) (w : Setter) (v : Nat) (h : j ≠ i) :
    (wd.set i w v) j = wd j := by
  simp [World.set, h]

/-- non-vacuity: a concrete history with undocumented values and overriding calls -/
example :
    abs ([(Setter.all, 0), (.mov, 7), (.sib, 2), (.swap, 1), (.all, 2), (.nobase, 0), (.mov, 1)].foldl
      (fun b c => c.1.bits b c.2) c_DEFAULT) = ⟨.nasm, true, false⟩ := by decide

end AL.Properties.C12
