#!/usr/bin/env python3
"""
alv.py — runner for the AssemblyLine verification (see DESIGN.md).

  alv.py setup                       regenerate AL/Gen, build the Lean library + driver, build harnesses
  alv.py check Cxx [--tier quick|thorough]
  alv.py replay <file>

Every check:  regenerate tables from /repo's working tree (T1) -> lake build of the property's
module(s) + axiom audit + source scan -> build the implementation -> correspondence between the
Lean model and the real library on this property's case streams -> known findings -> verdict.
Exit 0 = held on everything explored; exit 1 + "VIOLATION property=<id> replay=<path>".
"""
import sys, os, json, subprocess, hashlib, time, re, shutil, random

HERE = os.path.dirname(os.path.abspath(__file__))
sys.path.insert(0, os.path.join(HERE, "gen"))
sys.path.insert(0, HERE)
REPO = os.environ.get("ALV_REPO", "/repo")
LEAN = os.path.join(HERE, "lean")
CACHE = os.path.join(HERE, ".cache")
REPLAYS = os.path.join(HERE, "replays")
EVID = os.path.join(HERE, "evidence")
ALLOWED_AXIOMS = {"propext", "Classical.choice", "Quot.sound"}
BAD_WORDS = re.compile(r"\b(sorry|admit|native_decide|bv_decide|implemented_by|unsafe)\b|^axiom |maxHeartbeats 0\b", re.M)

TRUSTED_BASE = [
    "Lean 4.33 kernel (accepted axioms: propext, Classical.choice, Quot.sound; audited every run)",
    "AL.Spec (x86-64 subset decoder, reference API semantics): the formal reading of the property",
    "gen/dump_tables.c: prints what the C compiler initialised (tables, constants) into AL/Gen",
    "hand-written AL.Impl model of the C control flow, tied by differential execution (sampling for unbounded domains)",
    "gcc, the sanitizers, harness/*.c, this runner's comparison",
    "C01-C05 only: the finite-domain sweep theorems AL.Properties.Sweep.c0x_sweep are decided by evaluation (native_decide: axiom "
    "<theorem>._native.native_decide.ax_*, i.e. the Lean compiler/interpreter is trusted for them); every other theorem is kernel-checked without it",
    "C01-C05 only: binutils objdump as the second decoder the reference decoder AL.Spec.X86 is validated against",
]


def log(*a):
    print(*a, file=sys.stderr, flush=True)


def run(cmd, **kw):
    return subprocess.run(cmd, stdout=subprocess.PIPE, stderr=subprocess.PIPE, text=True, **kw)


# ------------------------------------------------------------------------------------------
# sources, hashing, builds
# ------------------------------------------------------------------------------------------

def repo_sources():
    src = os.path.join(REPO, "src")
    files = sorted(os.path.join(src, f) for f in os.listdir(src) if f.endswith((".c", ".h")))
    files.append(os.path.join(REPO, "tools", "asmline.c"))
    return files


def src_hash(extra=()):
    h = hashlib.sha256()
    for f in list(repo_sources()) + list(extra):
        h.update(f.encode())
        h.update(open(f, "rb").read())
    return h.hexdigest()[:16]


def lib_c_files():
    src = os.path.join(REPO, "src")
    return sorted(os.path.join(src, f) for f in os.listdir(src) if f.endswith(".c"))


FLAVOURS = {
    "plain": ["-O1", "-g"],
    "asan": ["-O1", "-g", "-fsanitize=address,undefined", "-fno-sanitize-recover=all", "-fno-omit-frame-pointer"],
    "tsan": ["-O1", "-g", "-fsanitize=thread", "-pthread"],
    "o2": ["-O2", "-pthread"],
}


def build_harness(name, flavour="plain", extra_flags=(), extra_srcs=()):
    """compile harness/<name>.c together with /repo/src/*.c; cached by source hash"""
    hsrc = os.path.join(HERE, "harness", name + ".c")
    key = src_hash([hsrc] + list(extra_srcs))
    d = os.path.join(CACHE, key)
    os.makedirs(d, exist_ok=True)
    out = os.path.join(d, f"{name}-{flavour}")
    if os.path.exists(out):
        return out
    cmd = ["gcc", "-w", "-std=gnu99", "-DALVERIF_HOOKS"] + FLAVOURS[flavour] + list(extra_flags) + \
          ["-I" + os.path.join(REPO, "src"), "-I" + REPO, hsrc] + list(extra_srcs) + lib_c_files() + ["-o", out + ".tmp"]
    p = run(cmd)
    if p.returncode != 0:
        raise BuildError("implementation does not compile:\n" + p.stderr[-3000:])
    os.replace(out + ".tmp", out)
    return out


class BuildError(Exception):
    pass


def regen():
    """T1: regenerate AL/Gen/Tables.lean and tables.json from the working tree"""
    dsrc = os.path.join(HERE, "gen", "dump_tables.c")
    key = src_hash([dsrc])
    d = os.path.join(CACHE, key)
    os.makedirs(d, exist_ok=True)
    exe = os.path.join(d, "dump_tables")
    if not os.path.exists(exe):
        p = run(["gcc", "-w", "-std=gnu99", "-I" + os.path.join(REPO, "src"), "-I" + REPO, dsrc] + lib_c_files() + ["-o", exe])
        if p.returncode != 0:
            raise BuildError("table dumper does not compile against /repo/src:\n" + p.stderr[-3000:])
    lean_txt = run([exe], timeout=60).stdout
    js_txt = run([exe, "--json"], timeout=60).stdout
    tables = json.loads(js_txt)
    # cross-check: count initialiser rows in the source text so that a truncated dump cannot pass
    src = open(os.path.join(REPO, "src", "instructions.c")).read()
    body = src[src.index("INSTR_TABLE[] = {"):src.index("_Atomic(int) instr_table_index")]
    nrows_src = len(re.findall(r"^\s*\{\s*(?:\{'\\0'\}|\"[a-z0-9]*\")\s*,", body, re.M))
    if nrows_src != len(tables["instr"]):
        raise BuildError(f"T1 cross-check: {nrows_src} initialiser rows in instructions.c, dumper saw {len(tables['instr'])}")
    gen_dir = os.path.join(LEAN, "AL", "Gen")
    os.makedirs(gen_dir, exist_ok=True)
    target = os.path.join(gen_dir, "Tables.lean")
    changed = not os.path.exists(target) or open(target).read() != lean_txt
    if changed:
        open(target, "w").write(lean_txt)
    tj = os.path.join(d, "tables.json")
    open(tj, "w").write(js_txt)
    return {"tables_json": tj, "tables": tables, "changed": changed, "rows": len(tables["instr"])}


def build_tool(relsrc, flavour="plain"):
    """compile a program of the repository itself (tools/asmline.c) with the library sources"""
    src = os.path.join(REPO, relsrc)
    key = src_hash([src])
    d = os.path.join(CACHE, key)
    os.makedirs(d, exist_ok=True)
    out = os.path.join(d, os.path.basename(relsrc).replace(".c", "") + "-" + flavour)
    if os.path.exists(out):
        return out
    cmd = ["gcc", "-w", "-std=gnu99"] + FLAVOURS[flavour] + ["-I" + os.path.join(REPO, "src"), "-I" + REPO, src] + lib_c_files() + ["-o", out + ".tmp"]
    p = run(cmd)
    if p.returncode != 0:
        raise BuildError("tool does not compile:\n" + p.stderr[-3000:])
    os.replace(out + ".tmp", out)
    return out


def lake_build(targets, timeout=3000):
    t0 = time.time()
    p = run(["lake", "build"] + list(targets), cwd=LEAN, timeout=timeout)
    return p.returncode == 0, (p.stdout + p.stderr), time.time() - t0


def lake_uptodate(target):
    """is the target built from exactly the current sources (nothing would be rebuilt)?"""
    p = run(["lake", "build", "--no-build", target], cwd=LEAN, timeout=600)
    return p.returncode == 0


def driver_path():
    return os.path.join(LEAN, ".lake", "build", "bin", "aldriver")


def scan_sources():
    """reject sorry/admit/axiom/native_decide/... outside comments in the Lean sources"""
    hits = []
    for root, _, files in os.walk(os.path.join(LEAN)):
        if ".lake" in root:
            continue
        for f in files:
            if not f.endswith(".lean"):
                continue
            path = os.path.join(root, f)
            txt = open(path).read()
            # the declared exception: finite-domain sweeps decided by evaluation (see TRUSTED_BASE, DESIGN.md 9)
            sweep = os.path.relpath(path, LEAN).startswith(os.path.join("AL", "Properties", "Sweep") + os.sep)
            # strip block comments (nested not needed) and line comments
            txt2 = re.sub(r"/-.*?-/", lambda m: "\n" * m.group(0).count("\n"), txt, flags=re.S)
            txt2 = re.sub(r"--.*", "", txt2)
            for m in BAD_WORDS.finditer(txt2):
                if sweep and m.group(0).strip() == "native_decide":
                    continue
                line = txt2.count("\n", 0, m.start()) + 1
                hits.append(f"{os.path.relpath(path, HERE)}:{line}: {m.group(0).strip()}")
    return hits


SWEEP_AXIOMS = {"Lean.ofReduceBool", "Lean.trustCompiler"}


def audit(module, theorems):
    """#print axioms for every property theorem; returns {thm: [axioms]} and the list of failures.
    Theorems in AL.Properties.Sweep (finite-domain sweeps by native_decide) may additionally depend on Lean.ofReduceBool."""
    src = f"import {module}\n" + "".join(f"#print axioms {t}\n" for t in theorems)
    tmp = os.path.join(CACHE, f"audit_{module.replace('.', '_')}.lean")
    os.makedirs(CACHE, exist_ok=True)
    open(tmp, "w").write(src)
    p = run(["lake", "env", "lean", tmp], cwd=LEAN, timeout=600)
    out = p.stdout + p.stderr
    res, bad = {}, []
    for t in theorems:
        m = re.search(r"'" + re.escape(t) + r"' depends on axioms: \[(.*?)\]", out, re.S)
        if m:
            ax = [a.strip() for a in m.group(1).replace("\n", " ").split(",") if a.strip()]
        elif re.search(r"'" + re.escape(t) + r"' does not depend on any axioms", out):
            ax = []
        else:
            bad.append(f"{t}: not found / did not elaborate")
            continue
        res[t] = ax
        for a in ax:
            if a not in ALLOWED_AXIOMS and not (t.startswith("AL.Properties.Sweep.") and
                                                (a in SWEEP_AXIOMS or a.startswith(t + "._native.native_decide.ax_"))):
                bad.append(f"{t}: depends on {a}")
    return res, bad, out


# ------------------------------------------------------------------------------------------
# correspondence
# ------------------------------------------------------------------------------------------

def run_driver(exe, lines, timeout=3000):
    data = "\n".join(lines) + "\n"
    # malloc returns indeterminate bytes: the implementation runs with every fresh allocation filled with ones (ASan builds)
    # or 0xaa (glibc builds), so that a field the library reads before writing it does not happen to be zero
    env = dict(os.environ, MALLOC_PERTURB_="85")
    env["ASAN_OPTIONS"] = (env.get("ASAN_OPTIONS", "") + ":malloc_fill_byte=255:max_malloc_fill_size=1048576").lstrip(":")
    p = subprocess.run([exe], input=data.encode(), stdout=subprocess.PIPE, stderr=subprocess.PIPE, timeout=timeout, env=env)
    return p.returncode, p.stdout.decode("latin1").split("\n")[:-1] if p.stdout else [], p.stderr.decode("latin1", "replace")


def bisect_crash(exe, lines):
    """implementation aborted (sanitizer / signal): find the shortest crashing prefix's last op"""
    lo, hi = 0, len(lines)
    while lo + 1 < hi:
        mid = (lo + hi) // 2
        rc, _, _ = run_driver(exe, lines[:mid])
        if rc != 0:
            hi = mid
        else:
            lo = mid
    return hi - 1


def correspond(impl_exe, lines, label):
    """run implementation and model on the same op stream; returns (n, mismatches, crash)"""
    rc, out_c, err_c = run_driver(impl_exe, lines)
    crash = None
    if rc != 0:
        k = bisect_crash(impl_exe, lines)
        crash = {"op_index": k, "op": lines[k], "stderr": err_c[-2000:], "label": label}
        lines = lines[:k]
        rc, out_c, err_c = run_driver(impl_exe, lines)
    rc2, out_l, err_l = run_driver(driver_path(), lines)
    mism = []
    if rc2 != 0:
        mism.append({"label": label, "model_driver_failed": err_l[-1000:]})
    for i, (a, b) in enumerate(zip(out_c, out_l)):
        if a != b:
            mism.append({"label": label, "op_index": i, "op": lines[i], "impl": a, "model": b})
            if len(mism) > 50:
                break
    if len(out_c) != len(out_l) and not mism:
        mism.append({"label": label, "impl_lines": len(out_c), "model_lines": len(out_l)})
    return len(lines), out_c, mism, crash


def write_replay(prop, seed, kind, payload):
    os.makedirs(REPLAYS, exist_ok=True)
    n = len([f for f in os.listdir(REPLAYS) if f.startswith(prop + "-")])
    path = os.path.join(REPLAYS, f"{prop}-{seed}-{n}.json")
    json.dump({"property": prop, "seed": seed, "kind": kind, **payload}, open(path, "w"), indent=1)
    return path


def known_findings(prop):
    p = os.path.join(HERE, "known_findings.json")
    if not os.path.exists(p):
        return []
    return [f for f in json.load(open(p)).get("open", []) if f["property"] == prop]


# ------------------------------------------------------------------------------------------
# main
# ------------------------------------------------------------------------------------------

def main():
    if len(sys.argv) < 2:
        print(__doc__)
        return 2
    cmd = sys.argv[1]
    if cmd == "setup":
        info = regen()
        ok, out, dt = lake_build([])
        if not ok:
            print(out[-6000:])
            return 1
        for fl in ("plain", "asan"):
            build_harness("apidrv", fl)
        print(f"setup ok: {info['rows']} table rows, lake build {dt:.0f}s")
        return 0
    if cmd == "check":
        import checks
        prop = sys.argv[2]
        tier = "quick"
        if "--tier" in sys.argv:
            tier = sys.argv[sys.argv.index("--tier") + 1]
        tier = os.environ.get("VERIF_TIER", tier) if "--tier" not in sys.argv else tier
        seed = int(os.environ.get("VERIF_SEED", "1"))
        return checks.run_check(prop, tier, seed)
    if cmd == "replay":
        import checks
        return checks.replay(sys.argv[2])
    print(__doc__)
    return 2


if __name__ == "__main__":
    sys.exit(main())
