/-
  AL.Lemmas.MemLoad — `mov rax, [base ± disp]` at the record level, for a SYMBOLIC displacement: the second half of the per-line
  pipeline (encode_mem, get_reg, REX, assemble_asm with its displacement emission) on the record the lexer produces, for each of
  the 16 base registers (rsp/r12 needing a SIB byte, rbp/r13 needing a displacement) and EVERY displacement −2^31 ≤ d < 2^31:
  `mem_bytes` gives the bytes, `memBytes_canonical` shows they are exactly the canonical encoding `AL.Spec.X86.encodeMemRef`
  which `decodeMem_encodeMemRef` proves the reference decoder reads back.
-/
import AL.Impl.Line
import AL.Lemmas.MovImm
import AL.Spec.X86MemRoundTrip
namespace AL.Lemmas.MemLoad
open AL AL.Impl AL.Gen AL.Lemmas AL.Spec.X86 AL.Lemmas.MovImm

/-- the record `lexLine` produces for `mov rax, [<base> ± disp]`: `off` is the displacement field (two's complement in one
    byte when it fits, in four bytes otherwise), `md` the ModRM.mod bits the lexer chose (0, 0x40, 0x80) -/
def memRec (name : Str) (g : Nat) (off md : Nat) : Instr :=
  Instr.mk 108 [109, 111, 118] (Operand.mk (str! "rax") 1024 [] 32 114) (Operand.mk name g [] 32 109) (Operand.mk [] 32 [] 32 0) (Operand.mk [] 0 [] 0 0) kw0 false false false 0 false true false false false false 1 off 0 md 0 hex0 0 0


theorem row108 : rowAt 108 = { name := [], id := 72, fmt0 := -1, fmt1 := 5, enc := 501, type := 1, opOffI := 1, singleReg := 4294967295, size := 3, opcode := [262144, 138, 131072, 0, 0, 0, 0, 0, 0, 0, 0, 0, 0, 0, 0] } := by decide +kernel

/-- the canonical encoding of `mov rax, [base + disp]` for base register n -/
def memBytes (n off md : Nat) : Bytes :=
  let rm := n % 8
  let mod := if md == 0 then (if rm == 5 then 1 else 0) else if md == 64 then 1 else 2
  let disp : Bytes := if md == 0 then (if rm == 5 then [0] else []) else if md == 64 then [off % 256] else leBytes 4 off
  [0x48 + n / 8, 0x8b, mod * 64 + (if rm == 4 then 4 else rm)] ++ (if rm == 4 then [0x24] else []) ++ disp

macro "mem_resolve" : tactic => `(tactic|
  simp [lineBytes, resolveLine, resolveBranch, selectShort, resolveRest, checkRegistersFail, branch32, encodeIfRegs, pushAdjust,
    encodeOffset, encodeImm, encodeOperands, xchgAdjust, movzxAdjust, dispatchEnc, encodeTwoOpds, encodeMem, encodeMemCore, swapFires,
    setAddrPrefixes, swapOperand, markSibConst, zeroDispFix, autoSetOperand, autoSetByte, getReg, noBaseAdjust, noBaseFires, getRegFinish, setRex, getRexPrefix,
    getOpcodeOffset, Instr.setOpd, Instr.opd, memRec, kw0, hex0, typeIs, nameIs, row108, inR, band, Keywords.any,
    c_CONTROL_FLOW, c_S, c_NO_BYTE, c_reg_error, c_reg_none, c_push, c_MODE_MASK, c_VALUE_MASK, c_REG_MASK, c_xchg, c_movzx, c_MR, c_RM, c_RVM, c_RMV,
    c_spl, c_bpl, c_REG_RB, c_rex_, c_rex_w, c_rex_b, c_rex_r, c_rex_x, c_REX_W_RXB, c_reg64, c_ext64, c_reg32, c_ext32, c_reg16, c_ext16, c_mmx64, c_BYTE_OPD, c_BIT_MASK, c_BIT_32, c_BIT_16,
    c_NEG32BIT, c_NEG64BIT, c_noext8, c_ext8, c_MASK_4BIT, c_MOD8, c_MOD16, c_MOD24, c_SIB, c_SIB_CONST, c_NO_BASE, *])

macro "mem_emit" : tactic => `(tactic|
  simp [assembleAsm, assembleInstr, assembleSlots, emitSlot, row108, assembleMemDisp, assembleImm, c_BIT_MASK, c_BIT_16, c_GET_EN, c_REX, c_REG, c_VEX,
    c_ib, c_rd, c_NO_BYTE, c_MOD8, c_MOD16, c_SIB_CONST, c_NO_REG_MEM, memBytes, *])

theorem memConst4 (off : Nat) (h : off < 2 ^ 32) : assembleMemConst off = leBytes 4 off := by
  unfold assembleMemConst
  exact assembleConst_pad off 4 (by rw [p4]; omega) (by decide)

set_option maxHeartbeats 8000000 in
/-- **`mov rax, [base ± disp]` at the record level**: for each of the 16 base registers and EVERY displacement field the emitted
    bytes are the canonical REX / opcode / ModRM / SIB / displacement encoding -/
theorem mem_bytes (n : Nat) (name : Str) (g : Nat) (hp : (n, name, g) ∈ regs64) (off md : Nat) (opt : Nat)
    (hc : (md = 0 ∧ off = 0) ∨ (md = 64 ∧ 1 ≤ off ∧ off ≤ 255) ∨ (md = 128 ∧ 128 ≤ off ∧ off < 2 ^ 32)) :
    lineBytes opt (memRec name g off md) = some (memBytes n off md) := by
  simp only [regs64, List.mem_cons, Prod.mk.injEq, List.not_mem_nil, or_false] at hp
  rcases hc with ⟨rfl, rfl⟩ | ⟨rfl, h1, h2⟩ | ⟨rfl, h3', h3⟩
  · rcases hp with ⟨rfl, rfl, rfl⟩ | ⟨rfl, rfl, rfl⟩ | ⟨rfl, rfl, rfl⟩ | ⟨rfl, rfl, rfl⟩ | ⟨rfl, rfl, rfl⟩ | ⟨rfl, rfl, rfl⟩ | ⟨rfl, rfl, rfl⟩ | ⟨rfl, rfl, rfl⟩ | ⟨rfl, rfl, rfl⟩ | ⟨rfl, rfl, rfl⟩ | ⟨rfl, rfl, rfl⟩ | ⟨rfl, rfl, rfl⟩ | ⟨rfl, rfl, rfl⟩ | ⟨rfl, rfl, rfl⟩ | ⟨rfl, rfl, rfl⟩ | ⟨rfl, rfl, rfl⟩
    all_goals (mem_resolve; mem_emit)
  · have h4 : ¬ off = 0 := by omega
    rcases hp with ⟨rfl, rfl, rfl⟩ | ⟨rfl, rfl, rfl⟩ | ⟨rfl, rfl, rfl⟩ | ⟨rfl, rfl, rfl⟩ | ⟨rfl, rfl, rfl⟩ | ⟨rfl, rfl, rfl⟩ | ⟨rfl, rfl, rfl⟩ | ⟨rfl, rfl, rfl⟩ | ⟨rfl, rfl, rfl⟩ | ⟨rfl, rfl, rfl⟩ | ⟨rfl, rfl, rfl⟩ | ⟨rfl, rfl, rfl⟩ | ⟨rfl, rfl, rfl⟩ | ⟨rfl, rfl, rfl⟩ | ⟨rfl, rfl, rfl⟩ | ⟨rfl, rfl, rfl⟩
    all_goals (mem_resolve; mem_emit)
  · have h5 := memConst4 off h3
    have h4 : ¬ off = 0 := by omega
    rcases hp with ⟨rfl, rfl, rfl⟩ | ⟨rfl, rfl, rfl⟩ | ⟨rfl, rfl, rfl⟩ | ⟨rfl, rfl, rfl⟩ | ⟨rfl, rfl, rfl⟩ | ⟨rfl, rfl, rfl⟩ | ⟨rfl, rfl, rfl⟩ | ⟨rfl, rfl, rfl⟩ | ⟨rfl, rfl, rfl⟩ | ⟨rfl, rfl, rfl⟩ | ⟨rfl, rfl, rfl⟩ | ⟨rfl, rfl, rfl⟩ | ⟨rfl, rfl, rfl⟩ | ⟨rfl, rfl, rfl⟩ | ⟨rfl, rfl, rfl⟩ | ⟨rfl, rfl, rfl⟩
    all_goals (mem_resolve; mem_emit)


/-- displacement field and mod bits the lexer derives from a displacement d (src/tokenizer.c get_mod_disp, process_neg_disp) -/
def dispClass (d : Int) : Nat × Nat :=
  if d = 0 then (0, 0)
  else if 0 < d ∧ d ≤ 127 then (d.toNat, 64)
  else if 127 < d then (d.toNat, 128)
  else if -128 ≤ d then ((256 + d).toNat, 64)
  else ((4294967296 + d).toNat, 128)

def memOf (n : Nat) (d : Int) : Mem := { size := 64, addr32 := false, base := some n, index := none, scale := 1, disp := d }

/-- **the model's bytes are the canonical encoding** of `[base + d]` (which `decodeMem_encodeMemRef` reads back) -/
theorem memBytes_canonical (n : Nat) (hn : n < 16) (d : Int) (h1 : -2147483648 ≤ d) (h2 : d < 2147483648) :
    memBytes n (dispClass d).1 (dispClass d).2 =
      [0x48 + (if n ≥ 8 then 1 else 0), 0x8b, (encodeMemRef (memOf n d)).mod * 64 + (encodeMemRef (memOf n d)).rm] ++
        (encodeMemRef (memOf n d)).sib ++ (encodeMemRef (memOf n d)).disp := by
  have hcases : n = 0 ∨ n = 1 ∨ n = 2 ∨ n = 3 ∨ n = 4 ∨ n = 5 ∨ n = 6 ∨ n = 7 ∨ n = 8 ∨ n = 9 ∨ n = 10 ∨ n = 11 ∨ n = 12 ∨ n = 13 ∨
      n = 14 ∨ n = 15 := by omega
  unfold dispClass
  by_cases hz : d = 0
  · subst hz
    rcases hcases with rfl | rfl | rfl | rfl | rfl | rfl | rfl | rfl | rfl | rfl | rfl | rfl | rfl | rfl | rfl | rfl <;> decide
  · by_cases hp8 : 0 < d ∧ d ≤ 127
    · have hf : fits8 d = true := by unfold fits8; simp; omega
      have hdz : (d == 0) = false := by simp [hz]
      have hb : dispBytes 1 d = [d.toNat % 256] := by
        unfold dispBytes leBytes leBytes
        simp
        omega
      rcases hcases with rfl | rfl | rfl | rfl | rfl | rfl | rfl | rfl | rfl | rfl | rfl | rfl | rfl | rfl | rfl | rfl <;>
        simp [hz, hp8, memBytes, encodeMemRef, memOf, hf, hdz, hb]
    · have hdz : (d == 0) = false := by simp [hz]
      by_cases hp32 : 127 < d
      · have hf : fits8 d = false := by unfold fits8; simp; omega
        have hb : dispBytes 4 d = leBytes 4 d.toNat := by
          unfold dispBytes
          congr 1
          have : d % ((256 ^ 4 : Nat) : Int) = d := by
            have e : ((256 ^ 4 : Nat) : Int) = 4294967296 := by decide
            rw [e]; omega
          rw [this]
        rcases hcases with rfl | rfl | rfl | rfl | rfl | rfl | rfl | rfl | rfl | rfl | rfl | rfl | rfl | rfl | rfl | rfl <;>
          simp [hz, hp8, hp32, memBytes, encodeMemRef, memOf, hf, hdz, hb]
      · by_cases hn8 : -128 ≤ d
        · have hf : fits8 d = true := by unfold fits8; simp; omega
          have hb : dispBytes 1 d = [(256 + d).toNat % 256] := by
            unfold dispBytes leBytes leBytes
            simp
            omega
          rcases hcases with rfl | rfl | rfl | rfl | rfl | rfl | rfl | rfl | rfl | rfl | rfl | rfl | rfl | rfl | rfl | rfl <;>
            simp [hz, hp8, hp32, hn8, memBytes, encodeMemRef, memOf, hf, hdz, hb]
        · have hf : fits8 d = false := by unfold fits8; simp; omega
          have hb : dispBytes 4 d = leBytes 4 (4294967296 + d).toNat := by
            unfold dispBytes
            congr 1
            have : d % ((256 ^ 4 : Nat) : Int) = 4294967296 + d := by
              have e : ((256 ^ 4 : Nat) : Int) = 4294967296 := by decide
              rw [e]; omega
            rw [this]
          rcases hcases with rfl | rfl | rfl | rfl | rfl | rfl | rfl | rfl | rfl | rfl | rfl | rfl | rfl | rfl | rfl | rfl <;>
            simp [hz, hp8, hp32, hn8, memBytes, encodeMemRef, memOf, hf, hdz, hb]

theorem dispClass_ok (d : Int) (h1 : -2147483648 ≤ d) (h2 : d < 2147483648) :
    ((dispClass d).2 = 0 ∧ (dispClass d).1 = 0) ∨ ((dispClass d).2 = 64 ∧ 1 ≤ (dispClass d).1 ∧ (dispClass d).1 ≤ 255) ∨
    ((dispClass d).2 = 128 ∧ 128 ≤ (dispClass d).1 ∧ (dispClass d).1 < 2 ^ 32) := by
  unfold dispClass
  split
  · left; exact ⟨rfl, rfl⟩
  · split
    · right; left; refine ⟨rfl, ?_, ?_⟩ <;> simp <;> omega
    · split
      · right; right; refine ⟨rfl, ?_, ?_⟩ <;> simp <;> omega
      · split
        · right; left; refine ⟨rfl, ?_, ?_⟩ <;> simp <;> omega
        · right; right; refine ⟨rfl, ?_, ?_⟩ <;> simp <;> omega

end AL.Lemmas.MemLoad
