#!/usr/bin/env python3
"""Run the repository's own test suite (make check) and compare the set of passing tests
with /root/.vp/BASELINE.json (stable_pass).  Exit 0 iff every baseline test still passes."""
import json, subprocess, sys, os, glob
repo = sys.argv[1] if len(sys.argv) > 1 else "/repo"
base = json.load(open("/root/.vp/BASELINE.json"))["stable_pass"]
subprocess.run(["make", "-C", repo, "check", "-j8"], stdout=subprocess.DEVNULL, stderr=subprocess.DEVNULL)
passed = set()
for trs in glob.glob(os.path.join(repo, "test", "**", "*.trs"), recursive=True):
    rel = os.path.relpath(trs, repo)[:-4]
    txt = open(trs).read()
    if ":global-test-result: PASS" in txt or (":test-result: PASS" in txt and "FAIL" not in txt):
        passed.add(rel)
def ok(t):
    return t in passed or os.path.splitext(t)[0] in passed
missing = [t for t in base if not ok(t)]
print(f"baseline tests: {len(base)}  passing now: {len(base)-len(missing)}")
for m in missing:
    print("NOT PASSING:", m)
sys.exit(1 if missing else 0)
