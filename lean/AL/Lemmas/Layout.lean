/-
  AL.Lemmas.Layout — what a successful run leaves in the buffer: the codes laid out one after
  the other, in fitting mode with NOP padding in front of instructions that would straddle.
-/
import AL.Lemmas.Modes
namespace AL.Lemmas
open AL AL.Impl AL.Gen

/-- would `len` bytes at `p` have to be padded in fitting mode with chunk size `c`? -/
def needsPad (c p len : Nat) : Bool := !(decide (len ≤ c - p % c) || decide (len ≥ c))

/-- bytes stored for one instruction `bs` at position `p` -/
def layoutOne (m : Mode) (c p : Nat) (bs : Bytes) : Bytes :=
  match m with
  | .fitting => if needsPad c p bs.length then nopPadding (c - p % c) ++ bs else bs
  | _ => bs

/-- bytes stored for a list of instructions from position `p` -/
def layoutAll (m : Mode) (c : Nat) : Nat → List Bytes → Bytes
  | _, [] => []
  | p, bs :: rest => layoutOne m c p bs ++ layoutAll m c (p + (layoutOne m c p bs).length) rest

theorem read_after_frame {p q : Nat} {a b : Inst} (L : Bytes) (h : Frame q a b) (hq : p + L.length ≤ q)
    (hr : (a.mem.drop p).take L.length = L) : (b.mem.drop p).take L.length = L := by
  have h1 : (b.mem.take q).drop p = (a.mem.take q).drop p := by rw [h.pre]
  have e : ∀ (l : List Nat), (l.drop p).take L.length = ((l.take q).drop p).take L.length := by
    intro l
    rw [List.drop_take, List.take_take, Nat.min_eq_left (by omega)]
  rw [e b.mem, h1, ← e a.mem, hr]

/-- in the padding case the second round of the do-while loop always stores the instruction:
    the position is chunk aligned and the instruction is shorter than a chunk -/
theorem second_round_fits (c p len : Nat) (hc : 2 ≤ c) (hpad : needsPad c p len = true) :
    len ≤ c - (p + (c - p % c)) % c := by
  unfold needsPad at hpad
  simp only [Bool.not_eq_true', Bool.or_eq_false_iff, decide_eq_false_iff_not, Nat.not_le] at hpad
  rw [pad_aligned c p (by omega)]
  omega

/-- **one successful emission step**: the position advances by the layout's length and the
    layout can be read back at the old position. -/
theorem emitOne_layout (r : Run) (bs : Bytes) (hinv : BufInv r.a) (hp : r.bufPos + 60 < 2 ^ 31)
    (hpos : r.bufPos ≤ r.a.mem.length) (hc : r.a.mode = .fitting → 2 ≤ r.a.chunkSize)
    (hok : (emitOne r bs).2 = none) :
    (emitOne r bs).1.bufPos = r.bufPos + (layoutOne r.a.mode r.a.chunkSize r.bufPos bs).length ∧
    ((emitOne r bs).1.a.mem.drop r.bufPos).take (layoutOne r.a.mode r.a.chunkSize r.bufPos bs).length
      = layoutOne r.a.mode r.a.chunkSize r.bufPos bs := by
  have hsmall : r.bufPos < 2 ^ 31 := by omega
  have hmod : ∀ k, k ≤ 40 → (r.bufPos + k) % 2 ^ 32 = r.bufPos + k := fun k hk =>
    Nat.mod_eq_of_lt (by omega)
  unfold emitOne at hok ⊢
  cases hm : r.a.mode with
  | assemble =>
    simp only [hm] at hok ⊢
    cases hck : checkLenOrResize r.a r.bufPos with
    | error e => simp [hck] at hok
    | ok a1 =>
      simp only [hck] at hok ⊢
      obtain ⟨hf, hroom, _⟩ := check_frame r.a a1 r.bufPos hsmall hinv hpos hck
      by_cases hl : bs.length > c_BUFFER_TOLERANCE
      · simp [hl] at hok
      · have hlen : bs.length ≤ 20 := Nat.le_of_not_gt hl
        simp only [hl, if_false, layoutOne]
        exact ⟨hmod _ (by omega), writeAt_inb_read a1 r.bufPos bs (by omega)⟩
  | count =>
    simp only [hm] at hok ⊢
    cases hb : r.brks with
    | none => simp [hb] at hok
    | some n =>
      simp only [hb] at hok ⊢
      cases hck : checkLenOrResize r.a r.bufPos with
      | error e => simp [hck] at hok
      | ok a1 =>
        simp only [hck] at hok ⊢
        obtain ⟨hf, hroom, _⟩ := check_frame r.a a1 r.bufPos hsmall hinv hpos hck
        by_cases hz : (a1.chunkSize == 0) = true
        · simp [hz] at hok
        · simp only [hz] at hok ⊢
          by_cases hl : bs.length > c_BUFFER_TOLERANCE
          · simp [hl] at hok
          · have hlen : bs.length ≤ 20 := Nat.le_of_not_gt hl
            simp only [hl, if_false, layoutOne]
            exact ⟨hmod _ (by omega), writeAt_inb_read a1 r.bufPos bs (by omega)⟩
  | fitting =>
    simp only [hm] at hok ⊢
    have hc2 := hc hm
    cases hck : checkLenOrResize r.a r.bufPos with
    | error e => simp [hck] at hok
    | ok a1 =>
      simp only [hck] at hok ⊢
      obtain ⟨hf, hroom, _⟩ := check_frame r.a a1 r.bufPos hsmall hinv hpos hck
      have hcs1 : a1.chunkSize = r.a.chunkSize := hf.chunk
      by_cases hz : (a1.chunkSize == 0) = true
      · simp [hz] at hok
      · simp only [hz, if_false] at hok ⊢
        by_cases hl : bs.length > c_BUFFER_TOLERANCE
        · simp [hl] at hok
        · have hlen : bs.length ≤ 20 := Nat.le_of_not_gt hl
          simp only [hl, if_false] at hok ⊢
          have hw := write_frame a1 r.bufPos bs hf.inv hroom hlen
          have hwl := writeAt_inb_length a1 r.bufPos bs (by omega)
          have hcs : (writeAt a1 r.bufPos bs).chunkSize = a1.chunkSize := hw.chunk
          simp only [hcs, hcs1] at hok ⊢
          by_cases hfit : (decide (bs.length ≤ r.a.chunkSize - r.bufPos % r.a.chunkSize) ||
              decide (bs.length ≥ r.a.chunkSize)) = true
          · have hnp : needsPad r.a.chunkSize r.bufPos bs.length = false := by
              unfold needsPad; simp only [hfit, Bool.not_true]
            simp only [hfit, if_true, layoutOne, hnp, Bool.false_eq_true, if_false]
            exact ⟨hmod _ (by omega), writeAt_inb_read a1 r.bufPos bs (by omega)⟩
          · have hnp : needsPad r.a.chunkSize r.bufPos bs.length = true := by
              unfold needsPad; simp only [hfit]; rfl
            have hfree : r.a.chunkSize - r.bufPos % r.a.chunkSize < bs.length := by
              simp only [Bool.or_eq_true, decide_eq_true_eq, not_or, Nat.not_le] at hfit
              exact hfit.1
            have h2 := second_round_fits r.a.chunkSize r.bufPos bs.length hc2 hnp
            simp only [hfit, Bool.false_eq_true, if_false] at hok ⊢
            generalize hfr : r.a.chunkSize - r.bufPos % r.a.chunkSize = free at *
            have hpl : (nopPadding free).length = free := nopPadding_length free
            have hw2 := write_frame (writeAt a1 r.bufPos bs) r.bufPos (nopPadding free) hw.inv
              (by omega) (by omega)
            have hw2l := writeAt_inb_length (writeAt a1 r.bufPos bs) r.bufPos (nopPadding free) (by omega)
            have hrd2 := writeAt_inb_read (writeAt a1 r.bufPos bs) r.bufPos (nopPadding free) (by omega)
            rw [hmod _ (show free ≤ 40 by omega)] at hok ⊢
            cases hck3 : checkLenOrResize (writeAt (writeAt a1 r.bufPos bs) r.bufPos (nopPadding free))
                (r.bufPos + free) with
            | error e => simp [hck3] at hok
            | ok a3 =>
              simp only [hck3] at hok ⊢
              obtain ⟨hf3, hroom3, _⟩ := check_frame _ a3 (r.bufPos + free) (by omega) hw2.inv
                (by omega) hck3
              have hw4 := write_frame a3 (r.bufPos + free) bs hf3.inv hroom3 hlen
              have hrd4 := writeAt_inb_read a3 (r.bufPos + free) bs (by omega)
              have hcs3 : a3.chunkSize = r.a.chunkSize := by
                rw [hf3.chunk, hw2.chunk, hcs, hcs1]
              have hcs4 : (writeAt a3 (r.bufPos + free) bs).chunkSize = r.a.chunkSize := by
                rw [hw4.chunk, hcs3]
              have hfit2 : (decide (bs.length ≤ r.a.chunkSize - (r.bufPos + free) % r.a.chunkSize) ||
                  decide (bs.length ≥ r.a.chunkSize)) = true := by
                simp only [Bool.or_eq_true, decide_eq_true_eq]; left; exact h2
              simp only [hcs3, hcs4, hfit2, if_true, layoutOne, hnp, hfr, List.length_append, hpl]
              have hmod2 : (r.bufPos + free + bs.length) % 2 ^ 32 = r.bufPos + free + bs.length :=
                Nat.mod_eq_of_lt (by omega)
              refine ⟨by rw [hmod2]; omega, ?_⟩
              -- the pad survives the check and the final store; the instruction follows it
              have hpad3 : ((writeAt a3 (r.bufPos + free) bs).mem.drop r.bufPos).take
                  (nopPadding free).length = nopPadding free :=
                read_after_frame (nopPadding free) (Frame.trans (Nat.le_refl _) hf3 hw4)
                  (by omega) hrd2
              rw [hpl] at hpad3
              have hsplit : ∀ (l : List Nat), (l.drop r.bufPos).take (free + bs.length) =
                  (l.drop r.bufPos).take free ++ (l.drop (r.bufPos + free)).take bs.length := by
                intro l
                rw [List.take_add, List.drop_drop]
              rw [hsplit, hpad3, hrd4]

end AL.Lemmas

namespace AL.Lemmas
open AL AL.Impl AL.Gen

theorem take_add_drop (l : List Nat) (p n m : Nat) :
    (l.drop p).take (n + m) = (l.drop p).take n ++ (l.drop (p + n)).take m := by
  rw [List.take_add, List.drop_drop]

/-- **a whole successful run**: the buffer holds, from the starting position, exactly the
    layout of the codes, and the position advanced by its length. -/
theorem runCodes_layout (cs : List Bytes) (r : Run) (hinv : BufInv r.a)
    (hpos : r.bufPos ≤ r.a.mem.length) (hc : r.a.mode = .fitting → 2 ≤ r.a.chunkSize)
    (hsmall : r.a.mem.length + growth r.a * cs.length + 60 < 2 ^ 31)
    (hok : (runCodes r cs).2 = none) :
    (runCodes r cs).1.bufPos = r.bufPos + (layoutAll r.a.mode r.a.chunkSize r.bufPos cs).length ∧
    ((runCodes r cs).1.a.mem.drop r.bufPos).take (layoutAll r.a.mode r.a.chunkSize r.bufPos cs).length
      = layoutAll r.a.mode r.a.chunkSize r.bufPos cs := by
  induction cs generalizing r with
  | nil => simp [runCodes, layoutAll]
  | cons bs rest ih =>
    unfold runCodes at hok ⊢
    have hpost := emitOne_frame r bs hinv (by omega) hpos
    have hlayF := emitOne_layout r bs hinv (by omega) hpos hc
    generalize emitOne r bs = x at *
    rcases x with ⟨r1, e1⟩
    cases e1 with
    | some e => simp at hok
    | none =>
      simp only at hok ⊢
      obtain ⟨hf, hm, hi, h40, hg⟩ := hpost
      simp only at hf hm hi h40 hg
      have hlay := hlayF rfl
      simp only at hlay
      obtain ⟨hbp, hrd⟩ := hlay
      have hgr : growth r1.a = growth r.a := by unfold growth; rw [hf.external]
      have hgrow1 : r1.a.mem.length ≤ r.a.mem.length + growth r.a := by
        unfold growth
        by_cases he : r.a.external = true
        · simp only [he, if_true]; rw [hf.ext_len he]; omega
        · simp only [he]; simpa using hg
      simp only [List.length_cons, Nat.mul_succ] at hsmall
      have hmode1 : r1.a.mode = r.a.mode := hf.mode
      have hchunk1 : r1.a.chunkSize = r.a.chunkSize := hf.chunk
      have ih' := ih r1 hf.inv hi (by rw [hmode1, hchunk1]; exact hc) (by rw [hgr]; omega) hok
      rw [hmode1, hchunk1] at ih'
      obtain ⟨ihbp, ihrd⟩ := ih'
      have hpostR := runCodes_post rest r1 hf.inv hi (by rw [hgr]; omega)
      simp only [layoutAll, List.length_append]
      rw [← hbp]
      refine ⟨by rw [ihbp]; omega, ?_⟩
      rw [take_add_drop, ← hbp, ihrd]
      congr 1
      exact read_after_frame _ hpostR.frame (by omega) hrd

end AL.Lemmas

namespace AL.Lemmas
open AL AL.Impl AL.Gen

/-- the codes of the lines of `text` (before the first rejected line) under option byte `o` -/
def codesOf (lfo : LineFnOf) (o : Nat) (text : Str) : List Bytes :=
  (items (lfo o) (text.length + 1) text).codes

/-- result of a call from the run `x` over the codes and the lexing error `e` -/
def outcome (x : Run × Option Err) (e : Option Err) : Option Err :=
  match x.2 with
  | some er => some er
  | none => e

theorem finish_ret (x : Run × Option Err) (e : Option Err) :
    (finish x e).ret = match outcome x e with
      | some er => .error er
      | none => .ok x.1.bufPos := by
  unfold finish outcome
  cases x.2 <;> cases e <;> rfl

theorem finish_brks (x : Run × Option Err) (e : Option Err) : (finish x e).brks = x.1.brks := by
  unfold finish
  cases x.2 <;> cases e <;> rfl

/-- `asm_assemble_str` in terms of the run over the codes -/
theorem plain_eq (lfo : LineFnOf) (a : Inst) (text : Str) :
    asmAssembleStrWith lfo a text =
      (let x := runCodes { a := a, bufPos := toU32 a.offset, brks := none } (codesOf lfo a.opt text)
       match outcome x (items (lfo a.opt) (text.length + 1) text).err with
       | some er => (x.1.a, .error er)
       | none => ({ x.1.a with offset := toInt32 x.1.bufPos }, .ok ())) := by
  unfold asmAssembleStrWith assembleAll codesOf
  dsimp only
  rw [assembleAllGo_eq]
  simp only [finish_ret, finish_a, Bool.false_eq_true, if_false]
  cases outcome _ _ <;> rfl

/-- the counting call in terms of the run over the codes -/
theorem counting_eq (lfo : LineFnOf) (a : Inst) (text : Str) (c : Int) :
    asmCountingChunksWith lfo a text c true =
      (let x := runCodes { a := countSetup a c, bufPos := toU32 a.offset, brks := some 0 }
                  (codesOf lfo a.opt text)
       let a2 : Inst := { x.1.a with mode := a.mode, chunkSize := a.chunkSize }
       match outcome x (items (lfo a.opt) (text.length + 1) text).err with
       | some er => (a2, .error er, x.1.brks)
       | none => ({ a2 with offset := toInt32 x.1.bufPos }, .ok (), x.1.brks)) := by
  unfold asmCountingChunksWith assembleAll codesOf
  dsimp only
  rw [assembleAllGo_eq]
  have h1 : (countSetup a c).opt = a.opt := rfl
  have h2 : (countSetup a c).offset = a.offset := rfl
  simp only [finish_ret, finish_a, finish_brks, h1, h2, if_true]
  cases outcome _ _ <;> rfl


/-- **what a successful `asm_assemble_str` leaves behind** (any mode): from the old offset the
    buffer holds the layout of the codes of the text's lines, the new offset is the old one
    plus its length, and nothing before the old offset changed. -/
theorem asm_layout (lfo : LineFnOf) (a : Inst) (text : Str) (hinv : BufInv a)
    (h0 : 0 ≤ a.offset) (h1 : a.offset ≤ a.mem.length)
    (hc : a.mode = .fitting → 2 ≤ a.chunkSize)
    (hsmall : a.mem.length + growth a * (text.length + 1) + 60 < 2 ^ 31)
    (hok : (asmAssembleStrWith lfo a text).2 = .ok ()) :
    (asmAssembleStrWith lfo a text).1.offset =
      a.offset + ((layoutAll a.mode a.chunkSize a.offset.toNat (codesOf lfo a.opt text)).length : Int) ∧
    ((asmAssembleStrWith lfo a text).1.mem.drop a.offset.toNat).take
        (layoutAll a.mode a.chunkSize a.offset.toNat (codesOf lfo a.opt text)).length
      = layoutAll a.mode a.chunkSize a.offset.toNat (codesOf lfo a.opt text) ∧
    (asmAssembleStrWith lfo a text).1.mem.take a.offset.toNat = a.mem.take a.offset.toNat := by
  have hu : toU32 a.offset = a.offset.toNat := toU32_nonneg _ h0 (by omega)
  rw [plain_eq, hu] at hok ⊢
  have hcnt := items_codes_count (lfo a.opt) (text.length + 1) text
  have hgm : growth a * (codesOf lfo a.opt text).length ≤ growth a * (text.length + 1) :=
    Nat.mul_le_mul_left _ hcnt
  generalize hr : ({ a := a, bufPos := a.offset.toNat, brks := none } : Run) = r at *
  have hra : r.a = a := by rw [← hr]
  have hrp : r.bufPos = a.offset.toNat := by rw [← hr]
  have hpost := runCodes_post (codesOf lfo a.opt text) r (by rw [hra]; exact hinv)
    (by rw [hra, hrp]; omega) (by rw [hra]; omega)
  have hlayF := runCodes_layout (codesOf lfo a.opt text) r (by rw [hra]; exact hinv)
    (by rw [hra, hrp]; omega) (by rw [hra]; exact hc) (by rw [hra]; omega)
  generalize hx : runCodes r (codesOf lfo a.opt text) = x at *
  rcases x with ⟨xr, xe⟩
  simp only at hok hlayF hpost ⊢
  cases xe with
  | some e => simp [outcome] at hok
  | none =>
    cases herr : (items (lfo a.opt) (text.length + 1) text).err with
    | some e => simp [outcome, herr] at hok
    | none =>
      simp only [outcome, herr]
      obtain ⟨hbp, hrd⟩ := hlayF rfl
      rw [hra, hrp] at hbp hrd
      have hinb := hpost.inb
      have hgrow := hpost.grow
      simp only at hinb hgrow
      rw [hra] at hgrow
      have hfr := hpost.frame
      simp only at hfr
      rw [hra, hrp] at hfr
      refine ⟨?_, hrd, hfr.pre⟩
      show toInt32 xr.bufPos = _
      rw [toInt32_small (by omega), hbp]
      omega

end AL.Lemmas
