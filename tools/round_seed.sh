#!/bin/bash
# usage: round_seed.sh <worktree-prefix> <prop> [extra props...] — confirm the seed a sub-agent left in <prefix>_<prop>/seed
# (fresh worktree, baseline tests, demo with/without), then run the quick checks against it. Output: /tmp/round/<prop>.log
pre="$1"; p="$2"; shift 2
mkdir -p /tmp/round/$p
if [ -d ${pre}_$p/seed ]; then rm -rf /tmp/round/$p/seed && cp -r ${pre}_$p/seed /tmp/round/$p/seed; fi
rm -f /tmp/round/$p/seed/TASK.md
{
  echo "== confirm $p"
  /verif/tools/confirm_seed.sh /tmp/round/$p/seed
  echo "confirm_rc=$?"
  echo "== detect $p $*"
  /verif/tools/try_seed.sh /tmp/round/$p/seed/patch.diff $p "$@"
  cp /verif/replays/$p-1-0.json /tmp/round/$p/replay.json 2>/dev/null
} > /tmp/round/$p.log 2>&1
