#!/usr/bin/env python3
"""Regenerate /verif/MANIFEST.json from the table below (kept next to the checks so that the
manifest can never drift from what checks.py registers)."""
import json, os, sys
HERE = os.path.dirname(os.path.dirname(os.path.abspath(__file__)))
sys.path.insert(0, HERE)

NOTE = ("Trusted base: Lean 4.33 kernel (axioms propext, Classical.choice, Quot.sound only; audited on every run; no "
        "bv_decide/sorry/own axioms; native_decide ONLY in AL/Properties/Sweep/C0x.lean, the declared exception for the finite sweeps of C01-C05); AL.Spec as the formal reading of the property; gen/dump_tables.c (tables and constants "
        "regenerated from /repo/src on every run); the hand-written AL.Impl model of the C control flow, tied to the code by "
        "differential execution (exhaustive on finite domains, boundary+seeded sampling otherwise); gcc, sanitizers, harness/*.c, "
        "alv.py. ")

CLAIMS = {
 "C01": dict(
   text="Statement: decode (assemble (render d)) = d for every instance d of the family, where decode is the Lean reference decoder AL.Spec.X86 "
        "(written from the architecture's encoding rules, cross-validated against objdump on every run), render writes d in AssemblyLine's syntax and "
        "the family lists every integer entry of the reference opcode table over ALL register tuples x86-64 can encode "
        "(8/16/32/64 bit, r8-r15, ah/ch/dh/bh without REX), every synonym mnemonic and the no-operand instructions. "
        "DECIDING THEOREM, KERNEL-CHECKED (no native_decide): AL.Properties.C01.every_register_form = AL.Properties.Kernel.c01_every_instance - for every "
        "register-operand entry of the reference table, every spelling of its mnemonic, every operand size, EVERY encodable register tuple (51 022 "
        "written lines) and EVERY option byte (all twelve combinations and any other value) the model of the whole per-line pipeline (line filter, "
        "tokenizer, table lookups, encoder, byte emission) yields bytes the reference decoder reads back as exactly one instruction, the written one, "
        "covering all bytes - or rejects a form outside the frozen supported list. The instances are cut into 1 860 cells of at most 192 lines, each "
        "decided by its own `decide +kernel` (267 modules, about 65 ms of kernel evaluation per line) at option byte 14; Kernel.checkK_sound carries "
        "every instance to all option bytes through the non-interference theorem C11.other_lines_identical. Axioms: propext, Classical.choice, "
        "Quot.sound. Further theorems: Sweep.c01_sweep (the same family through the String renderer at option bytes {14,0}, by native_decide - kept "
        "as a cross-check of the renderer), C01.nop_table_decodes (kernel-checked: every entry n of the regenerated NOP table is one nop of n bytes), "
        "C01.no_operand_lines, C01.letter_case_irrelevant (kernel-checked, EVERY line and option byte: the case of its letters does not change the "
        "result), C01.regpair_fields (kernel evaluation: for all four widths and EVERY encodable pair of general registers the REX prefix and ModRM "
        "byte that get_rex_prefix / get_reg compute name exactly those registers at that width). Tie: the same family on the C implementation under "
        "option bytes {14,0} (thorough: all 12): implementation bytes = model bytes (T2) and decode(bytes) = written instruction, length = offset "
        "advance; the compiled driver confirms (op KF) that the list-level family of the kernel theorem is, text by text, the family run on the C "
        "code; upper/mixed-case spellings give the same bytes; each line assembled a second time after NOP padding (chunk fitting re-assembles the "
        "record) gives the same instruction and offset; programs of 40 family lines in ONE call give the concatenation of the lines' own code.",
   note="The kernel theorem is built by setup and re-checked by the thorough tier whenever the regenerated tables change (about 7 minutes on 16 cores, 75 CPU-minutes); the quick tier audits it when it is up to date with the regenerated tables and otherwise reports it as not established for this tree and searches for a failing input. It is over the MODEL; "
        "the tie to the C code is the exhaustive differential run of the same 51 022 lines. Equivalences accepted as 'the same operation': xchg is "
        "symmetric; xchg ax,ax / rax,rax may be the nop they are (not xchg eax,eax).",
   technique="Lean 4 reference decoder + abstract syntax; kernel-checked exhaustive theorem over the whole finite family (decide +kernel in 1 860 cells) lifted to all option bytes by a proved non-interference theorem; exhaustive differential run of the family on the C code with decoding oracle",
   design="8/C01"),
 "C02": dict(
   text="Statement: decode (assemble (render d)) = d up to an encoding of the SAME address (AL.Spec.X86.sameMem: same access width, address size, "
        "per-register coefficient and sign-extended displacement for every register valuation) for every entry of the reference table with a "
        "memory-capable operand over base (none, all 16, 32-bit) x index x scale x displacement (disp8/disp32 boundaries of both signs) x address size, "
        "both factor orders, with and without size keyword. Theorems: Sweep.c02_sweep (about 108000 instances x NASM/STRICT SIB handling on the model, "
        "by evaluation; Sweep.c02_sweep_mixed: the two mixed settings of the SIB options on every instance without base or with a stack-pointer index), "
        "C02.decoder_reads_every_operand (kernel-checked, for EVERY well-formed memory operand - any base, index, scale, displacement, address size - "
        "the canonical ModRM/SIB/displacement encoding is read back by the reference decoder as that operand), C02.mov_load_every_disp (kernel-checked, "
        "SYMBOLIC in d: for each of the 16 base registers and EVERY d in -2^31..2^31-1 the model emits for `mov rax, [base+d]` exactly that canonical "
        "encoding - Lemmas.MemLoad.mem_bytes / memBytes_canonical; C02.mov_load_text: the same at the TEXT level for `mov rax, [<base>+-0x<digits>]` "
        "through filter, memory scanners, strtoul, tokenizer and lookups - Lemmas.MemText.mem_line), C02.disp_field_reads_back + X86.leVal_assembleConst + toSigned_roundtrip (kernel-checked, for EVERY displacement value: the "
        "bytes the model emits read back as the value and every signed disp8/disp32 is recovered), C11.swap_same_address / nobase_scale*_same_address "
        "(the NASM rewritings keep the address for every register valuation). Memory forms also store a small negative immediate. Tie: the family on the C implementation (thorough: all 17x16x4x13x2 "
        "shapes for mov, lea, paddb, vaddpd) incl. [base+rsp], [1*rsp+disp] shapes, option bytes NASM/STRICT and both mixed SIB settings, decoded and "
        "compared; decimal displacements also written with leading zeros ([rbx+010] is rbx+10); objdump cross-check of the decoder on every encoding.",
   note="Also Sweep.c02_sweep_extreme (family famC02x: the ends of the disp32 range, -2^31 and 2^31-1 with their neighbours, on every kind of memory shape, hexadecimal and decimal; native_decide like the other sweeps). Sweep by evaluation (native_decide axiom), see C01. RIP-relative operands are not in the documented syntax and not in the family.",
   technique="Lean 4 reference decoder with address-equivalence relation; finite-domain theorem (native_decide) + kernel-checked field lemmas for all values; differential run with decoding oracle",
   design="8/C02"),
 "C03": dict(
   text="Statement: decode (assemble (render d)) = d for every entry with an immediate (register and memory destinations) over the boundary values of "
        "its operand size, in hexadecimal, decimal, negated and zero-padded spellings: the immediate field has the width the opcode defines and its "
        "value after the architecture's sign/zero extension is the written value. Theorems: Sweep.c03_sweep (quick family x the three mov-immediate "
        "modes, model, by evaluation), C03.written_number_value with Lemmas.strtoul_dec / strtoul_hex / strtoul_neg_* (kernel-checked, for EVERY "
        "n < 2^64: decimal, hexadecimal with any number of leading zeros and negated spellings all convert to n resp. 2^64-n with nothing left over - "
        "also the number-base part of C16), C03.written_number_value_padded (decimal numerals with any number of leading zeros stay decimal), "
        "C03.imm_field_reads_back / imm_field_dword / imm_field_qword (every emitted constant and the padded immediate field read back little-endian). Tie: the family on the C "
        "implementation in modes STRICT/NASM/SMART, decoded and compared; asmline -r executes mov rax, v; ret for boundary v in every mode (C20). "
        "FLAGSHIP, kernel-checked (axioms propext, Classical.choice, Quot.sound): C03.mov_r64_hex / mov_r64_neg_hex / mov_r64_dec / mov_r64_neg_dec - "
        "for each of the 16 64-bit registers, EVERY v < 2^64, every option byte (three mov-immediate modes) and the four spellings with leading "
        "zeros, the TEXT `mov <reg>, <number>` run symbolically through the whole per-line pipeline of the model (filter, tokenizer, lookups, "
        "encode_imm, encode_operands, assemble_asm: Lemmas.MovText.mov_line, Lemmas.MovImm.mov_bytes) is one of three encodings which, read as the "
        "CPU reads them (Spec.MovImm.movResult_movBytes), leave exactly v (resp. 2^64-v) in that register; tied to the C code by seeded random and "
        "boundary v x registers x spellings x modes with the three encodings recomputed in the check. In the same way, kernel-checked: C03.alu_r64_hex / "
        "alu_r64_neg_hex / alu_r64_dec / alu_r64_neg_dec - for the eight operations add/or/adc/sbb/and/sub/xor/cmp, the 16 64-bit registers, EVERY v "
        "that sign-extends from 32 bits (the values representable at the destination), every option byte and the four spellings, the TEXT "
        "`<op> <reg>, <number>` comes out of the whole per-line pipeline (Lemmas.AluText.alu_line, Lemmas.Alu.alu_bytes over abstract table rows, "
        "aluKeys_classified on the regenerated table) as REX.W 83 /n ib exactly when v sign-extends from 8 bits, else REX.W 81 /n id (8n+5 id for "
        "rax), which Spec.AluImm.aluRead (own reader from the SDM) maps back to (operation, register, v); tied to the C code by seeded random and "
        "threshold values x registers x operations x spellings with the encodings recomputed in the check.",
   note="Also Sweep.c03_sweep_padded (family famC03x: immediates written with 17 and 24 hexadecimal digits on every immediate form; native_decide). Sweep by evaluation (native_decide axiom). 'Representable' is read as encodable: for 64-bit non-mov destinations values outside the sign-"
        "extended imm32 range are not in the family. mov r64, imm <= 0xffffffff may be emitted to the 32-bit register (C11 says in which mode).",
   technique="Lean 4 reference decoder; inductive numeral lemmas for all values; finite-domain theorem (native_decide); differential run with decoding oracle and executed code",
   design="8/C03"),
 "C04": dict(
   text="KERNEL-CHECKED PART (no native_decide): AL.Properties.C04.two_operand_forms = Kernel.c04_two_operand_forms - every MMX/SSE/AVX/BMI2 entry of the reference table with at most two register operands (packed arithmetic on mm/xmm, conversions, movd/movq between general and vector registers, vmovdqu/vmovupd, psrldq and rorx with their immediate) over EVERY register tuple, the byte boundary values of the immediate and EVERY option byte: 14 096 written lines through the whole per-line model and the reference decoder inside decide +kernel (cells of 192 lines, 74 modules), lifted from option byte 14 by Kernel.checkT_sound (C11.other_lines_identical). The three-operand VEX forms (4 096 register triples per entry, 285 000 lines) are decided by Sweep.c04_sweep (native_decide) next to the kernel-checked field theorems. Statement: decode (assemble (render d)) = d for every MMX/SSE2/SSSE3/SSE4.1/AVX/AVX2/BMI2/ADX entry of the reference table over ALL register "
        "tuples of its register files (mm0-7, xmm0-15, ymm0-15, 32/64-bit general registers) and its memory forms: mandatory prefix, opcode map, "
        "VEX.L, W, vvvv and the inverted R/X/B bits are what a decoder needs to read the same operation, operands, operand size and vector length. "
        "Theorems: Sweep.c04_sweep (about 330000 instances on the model, by evaluation), C04.vex2_is_vex3 (kernel-checked: the 2-byte and 3-byte VEX "
        "forms carry the same fields for all 256 second bytes), C04.vex_prefix_fields (kernel-checked by evaluation in the kernel: for EVERY VEX slot value of the regenerated table, every REX state, vvvv and operand width the prefix assemble_VEX emits - C5 or C4, its choice - reads back with the inverted R/X/B, vvvv, L, pp, map and W the row asks for), C04.vecpair_fields and C01.regpair_fields (kernel-checked: REX.R/REX.B and ModRM name the two registers for every pair of mm/xmm/ymm and of general registers). Tie: the family on the C implementation, decoded and compared; objdump cross-check.",
   note="Sweep by evaluation (native_decide axiom). Vector forms AssemblyLine does not offer (e.g. vaddpd xmm) are skipped, not judged.",
   technique="Lean 4 reference decoder incl. VEX; kernel-checked exhaustive theorem for the forms with at most two register operands (decide +kernel cells), finite-domain theorem by native_decide for the three-operand VEX forms, kernel-checked field theorems; exhaustive differential run with decoding oracle",
   design="8/C04"),
 "C05": dict(
   text="Statement: for jmp, every conditional jump, call, jrcxz, xbegin x {no keyword, short, long} x every d in -130..129 and the 16/32-bit "
        "boundaries, decimal and hexadecimal, all synonym mnemonics: an accepted line decodes to that operation with displacement field d (rel8 or "
        "rel32; long forces rel32, short rel8) and a line is rejected exactly when short is requested, or only rel8 exists, and d is outside "
        "-128..127. Theorems: Sweep.c05_sweep (about 47000 instances x 2 option bytes, model, by evaluation), C05.rel_field_reads_back (kernel-"
        "checked, EVERY d: a rel8/rel32 field holding d's two's complement reads back as d), C05.written_displacement (EVERY n: the written number "
        "reaches the encoder unchanged, also with leading zeros), C05.rel_branch_every_d (kernel-checked, SYMBOLIC in d: for every relative-branch row "
        "of the regenerated table - Lemmas.Branch.relKeys_classified puts each into the jmp/jcc, call/xbegin or jrcxz shape - EVERY d in "
        "-2^31..2^31-1, with and without short/long, every option byte: rel8, rel32 or rejection exactly as stated, displacement field = d's two's "
        "complement), and the same at the TEXT level (C05.rel_branch_text_dec / _neg_dec / _hex / _neg_hex: each of the 20 relative-branch mnemonics, "
        "no keyword / short / long, four spellings with leading zeros, through filter, tokenizer and lookups - Lemmas.BranchText.branch_line). Register, memory and far-memory targets: the indirect forms of call, jmp, call far, jmp far over all 16 registers and the C02 address shapes (key bases and indices, stack-pointer swap shapes, every base-less scaled index) are part of the C05 family (sweep theorem on the model, the same lines on the C code with the decoding oracle; the far pointer width - REX.W - is the same for all far lines with the same keyword).",
   note="Also Sweep.c05_sweep_padded (family famC05x: displacements written with 16, 17 and 24 hexadecimal digits under no keyword / short / long; native_decide). Sweep by evaluation (native_decide axiom). 'short' on call/xbegin (no rel8 form exists) is not judged.",
   technique="Lean 4 reference decoder; finite-domain theorem (native_decide) + two's-complement lemmas for all displacements; differential run with decoding oracle",
   design="8/C05"),
 "C17": dict(
   text="Model AL.Impl.Faults takes the OS's answers as parameters (asm_create_instance, asm_read_file, the file entry points, "
        "asm_create_bin_file); a refused growth is the `external` branch of check_len_or_resize. Theorems C17.create_reports, refused_growth_fails, "
        "failed_call_keeps_code (whatever makes a call fail, the offset and every byte before it are unchanged, bookkeeping intact, nothing written "
        "outside), readFile_fails / file_failure_reports / read_error_fails, bin_file_success_iff / bin_file_complete (success iff fopen ok, every "
        "byte written, fclose ok - and then the file is code[0,offset)). Tie: --wrap fault-injection harness over the real library: EVERY single "
        "failure of every malloc/mmap/mremap/munmap/open/fstat/read/close/fopen/fwrite/fclose call the library objects make in six scenarios (plus fitting/counting growth scenarios and growthfar: ONE call that has to grow the buffer several times, each of its mremap steps refused in turn; the six base scenarios also with the refusals reported as EINTR / EAGAIN, thorough EIO / ENOSPC too), one "
        "process per schedule (a crash is an outcome), observations checked against the property and against the model's prediction; T6: nm "
        "inventory of the libc symbols the library objects reference (a new fallible call breaks the obligation).",
   note="PARTIAL: the kernel's behaviour on a refused call is assumed; combinations of several faults are covered by the theorems, not injected; "
        "memory leaks on failure paths are not part of the property.",
   technique="Lean 4 model with OS answers as parameters + frame theorems; exhaustive single-fault injection (ld --wrap) with model correspondence; nm symbol inventory",
   design="8/C17"),
 "C18": dict(
   text="Model: the only shared mutable objects are the two _Atomic index tables, every create stores each slot's final value, every lookup loads "
        "one slot; a trace is ANY interleaving of the threads' atomic steps. Theorems C18.slot_invariant, stored_slot_stays, load_after_own_create "
        "(a load that follows a store of the same slot by the same thread returns the final value, whatever other threads do in between), "
        "snapshot_is_final, lookup_alone / format_lookup_alone (the table lookups return what they return single-threaded) - for every trace and "
        "any number of threads. Tie: T5 (nm: the writable globals of the library objects are the audited ones, only the index tables are stored "
        "to, they are _Atomic, no libc function with hidden static state is called); 2..64 threads looping create/options/assemble (plain, fitting, "
        "counting)/destroy on private instances under ThreadSanitizer and at -O2, every thread's results equal the single-threaded reference; "
        "deterministic schedules: a thread held after each of the 21 index table stores of the process's first create (guarded hook), and a thread "
        "held right after each of its mmap/mremap/munmap calls (link-time wrappers) while another creates buffers it keeps using afterwards.",
   note="PARTIAL: the C11 memory model and libc's internal locking are assumed; absence of races on non-atomic objects is observed by TSan over "
        "the schedules that occurred, not proved.",
   technique="Lean 4 interleaving model with invariant proof by induction over traces + ThreadSanitizer harness + nm/source inventory of shared state",
   design="8/C18"),
 "C19": dict(
   text="Theorems C19.readLoop_all / read_all (when the OS delivers the file in arbitrary positive pieces the copy is the whole content, cut at "
        "its first NUL as a C string), file_equals_str / file_equals_str_text / file_counting_equals_str (asm_assemble_file and the counting "
        "variant = the string entry points on that text: same return value, instance, buffer, count) for EVERY content - every size, empty, any "
        "multiple of the page size (the file is read, not mapped: no page arithmetic) - missing_file_fails, C17.bin_file_complete. Tie: files of "
        "every size 0..64 and within 40 bytes of 1, 2, 3 pages, with/without final newline, valid, rejected and generated programs, on a twin "
        "instance with the string entry point; missing file, directory, missing directory; a history of 70 (thorough 400) failing file calls under a descriptor budget of 40 followed by a valid file (a failing call must not keep the file open); asm_create_bin_file at every offset; all on the model too.",
   note="The file system is assumed to return what was written.",
   technique="Lean 4 model of the read loop with OS answers as parameters, proof by induction over reads; twin-instance differential harness over file sizes",
   design="8/C19"),
 "C20": dict(
   text="C20.stdin_equals_file (kernel-checked): for EVERY flag list and EVERY program text, asmline reading stdin (one library call per getline piece, counts "
        "added up) ends with the same exit status as asmline reading FILE (one call), and on success with the same instance (buffer, offset, options) and the same "
        "count - induction over the lines (stdinLoop_plain, stdinLoop_counting) on top of Lemmas.Split.call_split / count_split. "
        "Model AL.Impl.Cli (tools/asmline.c from the parsed flag list on). Theorems C20.usage_error_exits, exit_zero_iff (exit status 0 iff no usage "
        "error, the assembly succeeded and the requested binary output succeeded), option_calls / option_calls_spec (the option byte of the run is "
        "the documented calls: -n/-t/-s as asm_set_all in command-line order, then the long flags as asm_mov_imm, asm_sib, "
        "asm_sib_index_base_swap, asm_sib_no_base - through C12's refinement, AL.Spec.apply folded over them), getlines_join (the stdin pieces "
        "concatenate to the input), file_mode_is_library. Tie: the asmline executable on programs x 24 mode-flag sequences x 15 output-flag sets x "
        "{stdin, FILE}: exit status, -P/-o file bytes, -b count vs the model; -p hex parsed back and -r value checked directly; programs with empty lines behind boundary-crossing instructions and with CR-only / CRLF line ends; the -b count from stdin equals the one from FILE. "
        "The printers are modelled too (AL.Impl.Debug: debug_without_chunksize with its row break in front of the eighth byte, debug_with_chunksize with `|` at chunk "
        "boundaries, print_chunk_brks, asmline's print-once-at-the-end branch; cliStdout): C20.listing_reads_back and C20.chunk_dump_reads_back (kernel-checked, EVERY "
        "option byte, text, chunk size and buffer contents: reading every pair of hexadecimal digits of what is printed gives the code bytes in order), C20.p_with_fitting_prints_the_code and C20.p_plain_file_prints_the_code (end to end, EVERY flag list and program: a successful -p run, with chunk fitting from stdin or FILE / without it from FILE, prints exactly the bytes [0, offset) of the instance's buffer), and asmline's "
        "stdout is compared with the model's CHARACTER BY CHARACTER on every invocation without -r.",
   note="PARTIAL: getopt_long is assumed; -r (executing the code) is checked on the executable only; the usage text is not modelled.",
   technique="Lean 4 model of the command-line tool and of its printers over the library model + refinement to the documented option table + read-back theorems; differential run of the executable (exit status, files, counts, stdout text)",
   design="8/C20"),
 "C09": dict(
   text="Theorems AL.Properties.C09.no_ub_line (for EVERY byte string and option byte the per-line pipeline ends in code, skip or "
        "EXIT_FAILURE, never where the C code would dereference a NULL strtok_r result), emitOne_failOnly (no division by a zero chunk "
        "size, no third round of the fitting loop), the termination/fuel lemma items_eq_itemsL, and the bound of every fixed array the "
        "parser copies text into: filtered_length (filter_str[100]), instruction_length ([15]), regstr_length / indexreg_length ([6]), "
        "opdtype_length ([5]), nop_index, letter_index, table_slots_bound. T4: a clang-AST inventory of every subscript / dereference / "
        "libc string call in the parser and encoder must equal the audited list (171 sites, each function mapped to its lemma). T2/T3: "
        "120k (thorough 1.5M) malformed, garbage and boundary-length lines (every ending of 1..3 scanner-relevant characters at exactly 96..101 "
        "significant characters) and API histories with guard regions under ASan+UBSan.",
   note="PARTIAL by nature: uninitialised reads, signed-shift and other UB classes the model cannot express, libc internals and the "
        "42-byte bound of the code[64] scratch array are observed by sanitizers (valgrind in the thorough tier), not proved; the site "
        "inventory is textual (macro bodies appear by macro name).",
   technique="Lean 4 proofs (totality, no-UB and array-bound lemmas by induction over the text) + clang-AST site inventory + sanitizer-backed differential stream",
   design="8/C09"),
 "C10": dict(
   text="Theorems AL.Properties.C10.rejected_line_fails_call / rejected_line_in_program (a rejected line at ANY position fails the call "
        "in every mode and the instance is exactly what the preceding lines alone leave: nothing is emitted for it), reject_nonprintable "
        "(every byte >0x7e anywhere before a comment), reject_unknown_mnemonic (every name not in the table, any operands), "
        "C10Table.reject_bad_format + supported_forms_found (kernel evaluation on the regenerated table against the FROZEN list "
        "AL.Spec.supported: for all 201 mnemonics x all 781 operand-kind strings the lookup succeeds exactly on the frozen forms), "
        "reject_unknown_register / strToReg_unknown, reject_empty_operand, reject_unclosed_bracket, reject_bad_scale, reject_glued_scale "
        "(a scale is ONE digit standing alone: products, multi-digit and hexadecimal numbers never pass), reject_stack_pointer_index. Tie + oracle: generated malformed families (412 misspelt mnemonics, 128 register lines, 46k "
        "mnemonic x kind tuples, operand/memory syntax, 600 invalid-scale spellings, bytes 0x7f..0xff at every position) alone under option bytes and "
        "first/middle/last in programs in plain/fitting/counting mode; unclosed brackets that balance over the line (mov [rax, rbx]), a second opening bracket ([[rbx]: C10.reject_second_bracket, fix 5a09eff).",
   note="'Operand kinds' are the library's own classes (r covers general and MMX registers): a general register where an MMX register "
        "is required is not distinguished at this level (it is an encoding question, C04). The per-family lemmas are about AL.Impl "
        "functions and are lifted to whole lines by the T2 correspondence, not by a single end-to-end theorem over rendered syntax.",
   technique="Lean 4 proofs (induction over text/tables, kernel evaluation of the full mnemonic x operand-kind matrix) + generated malformed families",
   design="8/C10"),
 "C11": dict(
   text="Theorems AL.Properties.C11.other_lines_identical (for EVERY text and any two option bytes the per-line result is the same "
        "whenever the record handed to the encoder is outside three classes decided by optPlainB: (A) an immediate <= 0xffffffff moved "
        "into a 64-bit register, (B) a memory operand whose index is a stack pointer without scale, (C) a memory operand with index and "
        "no base), strict_keeps_destination (STRICT never changes an operand in encode_imm), smart_follows_spelling + narrowOk_spelling "
        "(SMART is NASM unless the literal is hexadecimal with all 16 digits, then STRICT), swap_only_when_nasm / nobase_only_when_nasm, "
        "swap_same_address / nobase_scale2_same_address / nobase_scale1_same_address (the rewritten operand denotes the same address for "
        "every register valuation). In the model the option byte is a parameter of exactly its three readers, so lexing and byte emission "
        "are option-free by construction; T2 ties that to the C code on every line under all 12 option bytes. Oracles on the "
        "implementation: (a) lines outside the classes give identical results under all 12 bytes, (b) the guard is the documented "
        "classification on constructed families, (c) mov r64, imm over 27 values x up to 10 spellings x 16 registers equals the "
        "documented narrowed/kept bytes per mode, (d) [base+rsp/esp(+disp)] and [scale*index(+disp)] under 20 instruction templates "
        "depend only on their bit, equal the literal encoding of the documented rewriting with the bit, have literal SIB fields without "
        "it, and the lea address EXECUTED on the CPU equals the written one, (e) after EVERY sequence of three setter calls (single and "
        "umbrella setters) probe lines assemble as under the combination the documentation assigns to that history.",
   note="The address-equality theorems are about the operand record (base, index, scale); that ModRM/SIB/displacement bytes denote that "
        "record is checked by the executed-lea oracle and the literal-field decoder, not proved (it is the C02 decoder's subject). The "
        "immediate width behind a memory destination is excluded from the whole-instruction rewrite comparison (a C02 matter).",
   technique="Lean 4 non-interference proof (option byte as explicit parameter, frame lemmas over the encoder) + 12-option differential correspondence + byte-exact, decoded and executed oracles",
   design="8/C11"),
 "C16": dict(
   text="Theorems AL.Properties.C16.case_insensitive / comment_irrelevant / leading_blanks / operand_blanks / skipped_lines / crlf "
        "(AL.Lemmas.filterGo_case, filterGo_comment, filterGo_deblank): for EVERY byte string, not only the corpora, the per-line "
        "function cannot see the case of any letter (mnemonic, registers, keywords, hex digits), anything from ';' or '%' on, leading "
        "blanks/tabs, or blanks/tabs anywhere behind the mnemonic's separator; label/section/global/blank lines contribute nothing "
        "wherever they are inserted, hence LF = CRLF. Number-base independence (decimal/hex/leading zeros) is exercised by the oracle "
        "and proved where immediates are interpreted (C03.written_number_value, written_number_value_padded). Tie + oracle: every accepted corpus line x 8 "
        "(thorough 64) seeded rewritings vs its canonical form on the implementation, programs with inserted skipped lines and CR/LF/CRLF in a roomy buffer "
        "and in a caller buffer the plain program only just fits (skipped lines include label names of 14 to 97 characters, mangled names, a blank before the colon).",
   note="The filter lemmas are about AL.Impl.Filter (transliteration of filter_assembly_str_fsa, tied by T2). The numeral part is "
        "C03.written_number_value / written_number_value_padded (immediates) and the oracle (displacements).",
   technique="Lean 4 proofs by induction over the input text (filter automaton) + metamorphic oracle and differential correspondence",
   design="8/C16"),
 "C06": dict(
   text="STRONGEST FORM, kernel-checked, no side conditions: AL.Lemmas.Split.call_split / call_split_err - for EVERY instance, mode (plain or chunk fitting), "
        "buffer and text t1 ++ [eol] ++ t2: if t1 assembles, the one call IS the call on t2 after the call on t1 (same return value, same instance field by field: "
        "buffer, length, offset, options); a rejected t1 rejects the whole at the same point (count_split / count_split_err: counting mode, counts added). "
        "Theorems AL.Properties.C06.program_code / concat_call / split_codes / split_calls with AL.Lemmas.assembleLine_local and "
        "asm_layout: for EVERY text the codes assemble_all emits are the codes of its lines (split at each CR/LF) assembled ALONE by the "
        "state-less per-line function; a successful plain call leaves, from the old offset, exactly their concatenation, advances the "
        "offset by its length and touches nothing before it (the right-hand side mentions neither prior buffer contents nor earlier "
        "calls); feeding t1 then t2 equals feeding t1++eol++t2. Tie + oracle: all 11449 ordered pairs of 107 representative lines and "
        "random programs, one call vs two calls at several offsets/fills, compared with the implementation's own per-line results; long programs on the "
        "library-managed buffer in one call, one call per line and split next to every growth point.",
   note="Unbounded induction over lines; line-locality of the C filter/str_to_instr is proved on the model (assembleLine_local) and tied "
        "by differential execution. Positions below 2^31-60.",
   technique="Lean 4 proof by induction over lines/codes (layout theorem) + differential correspondence and concatenation oracle",
   design="8/C06"),
 "C08": dict(
   text="Theorems AL.Properties.C08.internal_has_room / plain_success_iff / growth_keeps_code / same_as_caller_buffer: on an internal "
        "instance the room check never fails, a plain run succeeds iff no code exceeds the reserve (same condition as a caller buffer with "
        "room), every call keeps all bytes before its start offset through any number of growths, and a successful call leaves the same "
        "code at the same place and the same offset as on a caller buffer (the layout of C06/C13); internal_room_anywhere: the room check gives 20 "
        "bytes of room at ANY position - also far beyond the current length after asm_set_offset - and keeps every earlier byte. Tie + oracle: internal instance vs "
        "40000-byte caller buffer at offsets -21..+21 around each growth point in plain/fitting(7,9,13,16)/counting mode and genuinely "
        "long programs; every growth is forced to MOVE the mapping; code behind the growth point is executed; fresh allocations are filled with "
        "ones (malloc returns indeterminate bytes); the recorded buffer length is compared with the model's after every history (op B), and when it differs programs of 120 kB / 420 kB / 1.2 MB are assembled to find the growth that fails.",
   note="mremap is modelled as 'same prefix, 6000 more zero bytes' (assumed OS behaviour); executability after growth is observed by "
        "running code, not proved.",
   technique="Lean 4 simulation/layout proof + differential correspondence with forced mremap relocation",
   design="8/C08"),
 "C13": dict(
   text="Theorems AL.Properties.C13.fitting_call / fitting_is_plain_with_pads / pad_only_when_crossing / instruction_in_one_chunk / "
        "pads_are_nops / plain_layout / small_chunk_disables and AL.Lemmas.second_round_fits: for EVERY chunk size c>=2, text, offset and "
        "per-line function a successful fitting call stores the plain code with pads inserted in front of instructions; each pad is a "
        "concatenation of NOP-table entries of total length c - p mod c and is non-empty only if the instruction (shorter than c) would "
        "cross the next boundary; every instruction shorter than c lies inside one chunk; deleting the pads gives the plain code; the "
        "do-while loop needs at most two rounds; c<2 disables fitting; second_assembly_same (AL.Lemmas.Reassemble): the fitting loop assembles a "
        "padded instruction a second time from the record the first assembly left behind (the ib slot marks it) - for EVERY record the second "
        "assembly emits the same bytes. Tie + oracle: all c in 2..24 x every position mod c x every "
        "instruction length 1..14 the library emits, random programs, fitting toggled between calls; library-managed buffers with chunk sizes at and above the current buffer length (boundaries in memory the call itself has to grow into).",
   note="That each NOP-table entry decodes to exactly one x86 NOP is the kernel-checked theorem C01.nop_table_decodes (reference decoder "
        "AL.Spec.X86); the check also compares the entries with the Intel-recommended multi-byte NOP sequences.",
   technique="Lean 4 proof (modular arithmetic + layout induction) + differential correspondence and layout oracle",
   design="8/C13"),
 "C14": dict(
   text="AL.Lemmas.Split.count_split (kernel-checked, no side conditions): a counting call on t1 ++ [eol] ++ t2 is the counting call on t2 after the one on t1, "
        "same instance, counts ADDED. Theorems AL.Properties.C14.count_call / count_call_small / crossCount_append with AL.Lemmas.cross_iff: on an instance without "
        "fitting, for EVERY text, start offset and chunk size 2<=c<2^31 the counting call leaves the instance exactly as asm_assemble_str "
        "does (bytes, offset, options, mode and chunk setting restored), returns the same value and stores the number of this call's "
        "instructions with floor(p/c) != floor((p+len-1)/c); for c<2 it is a plain assembly reporting 0. Tie + oracle: chunk sizes "
        "-1,0,1,2..33,2^31-1 x exact-fit offsets x programs (also instruction-free ones), each counted twice in a row and followed by a plain call, "
        "on fresh instances and on instances whose chunk fitting was switched on and off again before.",
   note="Unbounded; positions below 2^32.",
   technique="Lean 4 proof (floor-division lemma, induction over codes) + differential correspondence and count oracle",
   design="8/C14"),
 "C15": dict(
   text="Theorems AL.Properties.C15.same_result / same_bytes / same_count / after_history / counting_restores / failed_call_harmless / "
        "index_tables_deterministic: two instances with the same kind and size of buffer, options, mode and chunk size but ARBITRARY "
        "buffer contents and ARBITRARY histories (any C07.Op sequences: successful and failing assemblies, counting calls, overwritten "
        "settings) give, after asm_set_offset(k), the same return value, offset, count and code bytes; a failed call leaves offset and "
        "configuration unchanged; a counting call restores mode and chunk size; the global index tables are a function of the constant "
        "tables. Tie + oracle: every history of up to 2 (thorough 3) calls from a 24-call alphabet and random longer ones vs a fresh "
        "instance over a different fill; a growth refused by the OS in front of the call (fault harness, growthafter); the twin's calls are also run alone in a NEW process (state kept outside the instances, e.g. errno or a static, hits an in-process twin alike).",
   note="Instances on caller buffers of equal length (internal instances of different current size are covered by C08). The model has "
        "no shared mutable state besides the index tables; that the C code has none either is the T5 inventory (nm).",
   technique="Lean 4 proof (congruence of the run under configuration-equivalence, induction over histories) + differential correspondence",
   design="8/C15"),
 "C07": dict(
   text="Theorems AL.Properties.C07.contained / contained_oob / step_J / no_room_fails: for a caller buffer of ANY length n < 2 GiB with "
        "any prior contents and EVERY finite history of setter, chunk, offset (0<=k<=n), assemble and counting calls (any text, "
        "succeeding or failing, all three modes) the model's out-of-bounds log stays empty, the buffer keeps its n bytes and every call "
        "leaves the bytes before its starting offset unchanged; with fewer than 20 bytes left the next instruction is not stored. Proved "
        "for every per-line function (no fact about the encoder is used; only the length test of assemble_within_reserve). Tie: the "
        "parser/API model is run with the implementation's own per-line results against the real library on caller buffers between "
        "guard regions under ASan (every length 0..44 x programs x offsets x modes; a prefix assembled by the same call leaving 18..24 bytes "
        "in buffers of 64..200 bytes; then random histories).",
   note="Induction over the history is unbounded; the tie between AL.Impl.Parser/Api and parser.c/assemblyline.c is differential "
        "(sampled histories). Positions are assumed below 2^31-60 (int arithmetic of the C code).",
   technique="Lean 4 invariant proof by induction over call histories + differential correspondence with guard regions",
   design="8/C07"),
 "C12": dict(
   text="Theorems AL.Properties.C12.refines / refines_abs / step_refines / create_default / other_instances_untouched: for EVERY finite "
        "sequence of the five setters with ANY argument value the stored option byte is exactly the encoding of what the documented table "
        "(AL.Spec.Api, written from the man page) yields from SMART/NASM/NASM; a setter on one instance changes no other instance. "
        "Tie: all setter sequences up to length 2 (quick) / 3 (thorough) x values 0..3 plus random longer ones on one or two live "
        "instances, plus every sequence of three calls per dimension (thorough: a third of those of four), observed through four probe lines that are checked to discriminate all 12 states on the implementation; lines sensitive to several dimensions at once (padded/short/decimal immediates next to base-less or stack-pointer-index operands) under all 12 states against the whole per-line model, with the implementation-only oracle that a line without mov r64, imm assembles the same under the three mov-immediate settings.",
   note="The option byte is observed only through assembled probe lines; the probes' discrimination is re-checked on every run.",
   technique="Lean 4 refinement proof (12 states x 20 transitions by kernel evaluation, induction over call lists) + differential correspondence",
   design="8/C12"),
}

ALL = ["C%02d" % i for i in range(1, 21)]


def main():
    checks = []
    for pid in ALL:
        if pid not in CLAIMS:
            continue
        c = CLAIMS[pid]
        checks.append({
            "property_id": pid,
            "quick_cmd": f"python3 alv.py check {pid} --tier quick",
            "thorough_cmd": f"python3 alv.py check {pid} --tier thorough",
            "evidence_file": f"evidence/{pid}.json",
            "replay_cmd_template": "python3 alv.py replay {path}",
            "engine": "lean-al",
            "level_claimed": {"category": "proof", "text": c["text"], "design_ref": c["design"]},
            "level_note": NOTE + c["note"],
            "technique": c["technique"],
        })
    na = [{"property_id": p, "reason": "check not built yet in this round (work in progress; the technique applies, see DESIGN.md section 8)"}
          for p in ALL if p not in CLAIMS]
    m = {
        "version": 1,
        "setup_cmd": "python3 alv.py setup",
        "hooks": {"guard": "ALVERIF_HOOKS", "enable": "checks compile /repo/src/*.c with -DALVERIF_HOOKS; the only guarded code is the macro "
                            "ALVERIF_INDEX_STORE in src/assemblyline.c (a weak callback between two index table stores, used by harness/thrdrv.c "
                            "to schedule threads deterministically for C18)",
                  "baseline_off_cmd": "python3 tools/baseline.py", "source_commits": ["707a1f5"], "add_only": True},
        "engines": [{"name": "lean-al", "path": "lean", "serves_properties": [c["property_id"] for c in checks],
                     "kind_free_text": "Lean 4 model (AL.Impl) + theorems (AL.Properties) + line-protocol driver; alv.py/checks.py tie it to /repo"}],
        "checks": checks,
        "not_applicable": na,
        "notes": "See DESIGN.md. Fix commits in /repo and known findings are listed in known_findings.json.",
    }
    json.dump(m, open(os.path.join(HERE, "MANIFEST.json"), "w"), indent=1)
    print("MANIFEST.json:", len(checks), "checks,", len(na), "not_applicable")


if __name__ == "__main__":
    main()
