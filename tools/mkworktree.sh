#!/bin/bash
# usage: mkworktree.sh <dir>   — scratch worktree of /repo HEAD with the (untracked) autotools
# files copied in and configured, so that `make && make check` works offline.
set -e
d="$1"
git -C /repo worktree add --detach "$d" HEAD -q
for f in configure Makefile.in aclocal.m4 build-aux m4 config.h.in; do
  [ -e /repo/$f ] && cp -r /repo/$f "$d/" 
done
cd "$d" && ./configure -q >/dev/null 2>&1
echo "worktree ready: $d"
