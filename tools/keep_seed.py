#!/usr/bin/env python3
"""keep_seed.py <src seed dir> <name> <detected-by text> — archive a confirmed seeded change under /verif/seeded/<name>/"""
import sys, os, json, shutil
src, name, detected = sys.argv[1], sys.argv[2], sys.argv[3]
dst = os.path.join("/verif/seeded", name)
os.makedirs(dst, exist_ok=True)
for f in os.listdir(src):
    if f.startswith(".") or f.endswith((".o", ".bin")) or os.path.isdir(os.path.join(src, f)):
        continue
    if os.path.getsize(os.path.join(src, f)) > 200000:
        continue
    shutil.copy(os.path.join(src, f), os.path.join(dst, f))
mp = os.path.join(dst, "meta.json")
try:
    meta = json.load(open(mp))
except Exception:
    meta = {}
meta["confirmed_by_verifier"] = ("tools/confirm_seed.sh in a fresh scratch worktree: change applies and compiles, "
                                 "tools/baseline.py reports all 96 baseline tests passing, demo.sh exits 0 without and non-zero with the change")
meta["detected_by"] = detected
json.dump(meta, open(mp, "w"), indent=1)
print("kept", dst, sorted(os.listdir(dst)))
