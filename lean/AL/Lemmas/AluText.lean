/-
  AL.Lemmas.AluText — the first half of the per-line pipeline (line filter, tokenizer, operand-kind and mnemonic lookup) on the
  text `<op> <r64>, <number>` for the eight ALU mnemonics and a SYMBOLIC number token: `filter_alu`, `lex_alu`, `not_skipped_alu`,
  and their composition with AL.Lemmas.Alu.alu_record into `alu_line` — the whole of `assembleLine` on that text.
-/
import AL.Impl.Line
import AL.Lemmas.Numerals
import AL.Lemmas.FilterLemmas
import AL.Lemmas.MovText
import AL.Lemmas.BranchText
import AL.Lemmas.Alu
namespace AL.Lemmas.AluText
open AL AL.Impl AL.Gen AL.Lemmas AL.Lemmas.MovImm AL.Lemmas.MovText AL.Lemmas.BranchText AL.Lemmas.Branch AL.Lemmas.Alu

/-- what the lexer needs to know about an ALU mnemonic (decidable; checked for the eight names below) -/
def aluNameOk (mn : Str) (key : Int) : Bool :=
  !mn.isEmpty && mn.all (fun x => x != 44 && x != 32 && x != 9) && decide (mn.length ≤ 14) &&
  strToInstrKey instrIndex mn 7 == key && key != -2

/-- the ALU-immediate mnemonics with their table keys -/
def aluNames : List (Int × Str) :=
  [(5, str! "adc"), (10, str! "add"), (15, str! "and"), (57, str! "cmp"), (138, str! "or"), (205, str! "sbb"), (251, str! "sub"), (315, str! "xor")]

theorem aluNames_table : aluNames.map (·.1) = aluKeys ∧ aluNames.all (fun p => aluNameOk p.2 p.1) = true := by decide +kernel

set_option maxHeartbeats 2000000 in
/-- **the lexing half on `<op> <r64>,<number>`** (as the line filter leaves it) -/
theorem lex_alu (mn : Str) (key : Int) (hmn : aluNameOk mn key = true) (name : Str) (g : Nat) (hreg : regNameOk name g = true)
    (c : Nat) (t : Str) (v : Nat) (b : Bool)
    (hc : numHead c = true) (hall : ∀ x ∈ c :: t, numCh x = true)
    (himm : ∀ s : Instr, immTok s (c :: t) = .ok { s with imm := true, narrowOk := b, cons := v }) :
    lexLine (mn ++ 32 :: (name ++ 44 :: c :: t)) = .ok (aluRec key mn name g v b) := by
  unfold regNameOk at hreg
  simp only [Bool.and_eq_true, Bool.not_eq_true', bne_iff_ne, ne_eq, beq_iff_eq, List.all_eq_true] at hreg
  obtain ⟨⟨⟨⟨⟨⟨hne, hch⟩, h0⟩, hkw⟩, hty⟩, hrs⟩, hrg⟩ := hreg
  unfold aluNameOk at hmn
  simp only [Bool.and_eq_true, Bool.not_eq_true', bne_iff_ne, ne_eq, beq_iff_eq, List.all_eq_true, decide_eq_true_eq] at hmn
  obtain ⟨⟨⟨⟨hmne, hmch⟩, hmlen⟩, hkeyv⟩, hk2⟩ := hmn
  have hne' : name ≠ [] := by intro h; rw [h] at hne; simp at hne
  have hmne' : mn ≠ [] := by intro h; rw [h] at hmne; simp at hmne
  have hcomma : ∀ x ∈ c :: t, x ≠ 44 := fun x hx => (numCh_facts x (hall x hx)).1
  have hlast : (chAt (c :: t) ((c :: t).length - 1) == 44) = false := by
    rw [beq_eq_false_iff_ne]; exact chAt_ne _ _ 44 (by decide) hcomma
  have hl : chAt (name ++ 44 :: c :: t) ((name ++ 44 :: c :: t).length - 1) = chAt (c :: t) ((c :: t).length - 1) := by
    have := chAt_last_append (name ++ [44]) (c :: t) (by simp)
    simpa using this
  have hfirst : chAt (name ++ 44 :: c :: t) 0 = chAt name 0 := by
    cases name with
    | nil => exact absurd rfl hne'
    | cons a r => rfl
  have hs1 : strtok (mn ++ 32 :: (name ++ 44 :: c :: t)) [32, 9] = some (mn, name ++ 44 :: c :: t) :=
    strtok_split mn _ 32 [32, 9] hmne' (fun x hx => by have := hmch x hx; simp [isDelim, this.1.2, this.2]) (by decide)
  have hs2 : strtok (name ++ 44 :: c :: t) [44] = some (name, c :: t) :=
    strtok_split name (c :: t) 44 [44] hne' (fun x hx => by have := (hch x hx).1.1; simp [isDelim, this]) (by decide)
  have hrest : strtokRest (name ++ 44 :: c :: t) = some (name ++ 44 :: c :: t) := by
    cases name with
    | nil => exact absurd rfl hne'
    | cons a r => rfl
  unfold lexLine instrTok
  rw [hs1]
  simp only [hrest]
  unfold operandTok
  have h044 : (chAt name 0 == 44) = false := by rw [beq_eq_false_iff_ne]; exact h0
  simp only [hl, hlast, hfirst, h044, Bool.or_self, Bool.false_eq_true, if_false, hs2]
  have hkw' : checkForKeyword (List.length name) ({ initInstr with instruction := strncpy mn c_MAX_INSTR_LEN } : Instr).kw name = ({}, name) := hkw
  simp only [hkw', hty, hrs, show ((114 : Nat) == 105) = false by decide, show ((114 : Nat) == 114) = true by decide,
    show ((114 : Nat) == 109) = false by decide, Bool.true_or, Bool.false_eq_true, if_false, if_true]
  simp only [strtokRest, show (0 : Nat) < c_FOURTH_OPERAND by decide, if_true]
  rw [opTok_imm 3 _ c t 1 v b hc hall himm]
  simp only [lexAfterTok, opdTypeString, Instr.setOpd, Instr.opd, initInstr]
  have htw : List.takeWhile (fun x => x != 0) [114, 105, 0, 0] = [114, 105] := by decide
  have hnm : strncpy mn c_MAX_INSTR_LEN = mn := by
    unfold strncpy; exact List.take_of_length_le hmlen
  have htake : List.take c_MAX_INSTR_LEN mn = mn := List.take_of_length_le hmlen
  simp [htw, fmt_ri, allOpdStrToReg, memNoReg, Instr.opd, strncpy, htake, hkeyv, hrg, reg_none,
    c_opd_error, c_INSTR_ERROR, c_MOD24, aluRec, kw0, hex0, hk2]


/-- a mnemonic in front of the line does not make it a `section`/`global` line -/
theorem contains_mn (key : Int) (mn : Str) (hp : (key, mn) ∈ aluNames) (X : Str) :
    contains (mn ++ 32 :: X) (str! "section") = contains X (str! "section") ∧
    contains (mn ++ 32 :: X) (str! "global") = contains X (str! "global") := by
  simp only [aluNames, List.mem_cons, Prod.mk.injEq, List.not_mem_nil, or_false] at hp
  rcases hp with ⟨rfl, rfl⟩ | ⟨rfl, rfl⟩ | ⟨rfl, rfl⟩ | ⟨rfl, rfl⟩ | ⟨rfl, rfl⟩ | ⟨rfl, rfl⟩ | ⟨rfl, rfl⟩ | ⟨rfl, rfl⟩
  all_goals (simp only [List.cons_append, List.nil_append]; repeat rw [contains_cons])
  all_goals (simp [isPrefix])

set_option maxHeartbeats 2000000 in
theorem not_skipped_alu (key : Int) (mn : Str) (hk : (key, mn) ∈ aluNames) (n : Nat) (name : Str) (g : Nat) (hp : (n, name, g) ∈ regs64) (l : Str)
    (h : ∀ x ∈ l, x ≠ 115 ∧ x ≠ 103 ∧ x ≠ 58) : isSkipped (mn ++ 32 :: (name ++ 44 :: l)) = false := by
  have h1 := contains_no_head 115 (str! "ection") l (fun x hx => (h x hx).1)
  have h2 := contains_no_head 103 (str! "lobal") l (fun x hx => (h x hx).2.1)
  have h3 : ¬ 58 ∈ l := fun hc => (h 58 hc).2.2 rfl
  obtain ⟨c1, c2⟩ := contains_mn key mn hk (name ++ 44 :: l)
  have hmc : ¬ 58 ∈ mn ∧ mn ≠ [] := by
    simp only [aluNames, List.mem_cons, Prod.mk.injEq, List.not_mem_nil, or_false] at hk
    rcases hk with ⟨rfl, rfl⟩ | ⟨rfl, rfl⟩ | ⟨rfl, rfl⟩ | ⟨rfl, rfl⟩ | ⟨rfl, rfl⟩ | ⟨rfl, rfl⟩ | ⟨rfl, rfl⟩ | ⟨rfl, rfl⟩ <;> decide
  unfold isSkipped
  rw [c1, c2]
  simp only [regs64, List.mem_cons, Prod.mk.injEq, List.not_mem_nil, or_false] at hp
  rcases hp with ⟨rfl, rfl, rfl⟩ | ⟨rfl, rfl, rfl⟩ | ⟨rfl, rfl, rfl⟩ | ⟨rfl, rfl, rfl⟩ | ⟨rfl, rfl, rfl⟩ | ⟨rfl, rfl, rfl⟩ | ⟨rfl, rfl, rfl⟩ | ⟨rfl, rfl, rfl⟩ | ⟨rfl, rfl, rfl⟩ | ⟨rfl, rfl, rfl⟩ | ⟨rfl, rfl, rfl⟩ | ⟨rfl, rfl, rfl⟩ | ⟨rfl, rfl, rfl⟩ | ⟨rfl, rfl, rfl⟩ | ⟨rfl, rfl, rfl⟩ | ⟨rfl, rfl, rfl⟩
  all_goals (simp only [List.cons_append, List.nil_append]; repeat rw [contains_cons])
  all_goals (rw [h1, h2]; simp [isPrefix, h3, hmc.1, hmc.2])


theorem aluNames_plain : aluNames.all (fun p => brNamePlain p.2) = true := by decide +kernel

set_option maxHeartbeats 2000000 in
/-- **the line filter on `<op> <reg>, <number>`**: the blank after the comma disappears, everything else is kept -/
theorem filter_alu (mn : Str) (hmn : brNamePlain mn = true) (name : Str) (hname : regNamePlain name = true)
    (tok : Str) (htok : ∀ c ∈ tok, numCh c = true) (hlen : tok.length ≤ 70) :
    ∃ n, filterLine (mn ++ 32 :: (name ++ 44 :: 32 :: tok)) = some (mn ++ 32 :: (name ++ 44 :: tok), n) := by
  unfold regNamePlain at hname
  simp only [Bool.and_eq_true, List.all_eq_true, decide_eq_true_eq] at hname
  obtain ⟨hnp, hnl3⟩ := hname
  unfold brNamePlain at hmn
  simp only [Bool.and_eq_true, List.all_eq_true, decide_eq_true_eq, Bool.not_eq_true'] at hmn
  obtain ⟨⟨hn, hnl⟩, hne⟩ := hmn
  have htp : ∀ c ∈ tok, plainCh c = true := fun c hc => numCh_plain c (htok c hc)
  cases mn with
  | nil => simp at hne
  | cons n0 nr =>
    have h0 := hn n0 List.mem_cons_self
    have hnr : ∀ c ∈ nr, plainCh c = true := fun c hc => (hn c (List.mem_cons_of_mem _ hc)).1.1
    have hp0 := h0.1.1
    unfold plainCh at hp0
    simp only [Bool.and_eq_true, decide_eq_true_eq, Bool.not_eq_true', beq_iff_eq] at hp0
    obtain ⟨⟨⟨_, h127⟩, hstop⟩, hlow⟩ := hp0
    have h126 : ¬ n0 > 126 := Nat.not_lt.mpr (Nat.le_of_lt_succ h127)
    unfold filterLine
    have e0 : filterGo .begin [] 0 0 (n0 :: nr ++ 32 :: (name ++ 44 :: 32 :: tok)) =
        filterGo .firstCh [n0] 1 1 (nr ++ 32 :: (name ++ 44 :: 32 :: tok)) := by
      conv => lhs; simp only [List.cons_append]; unfold filterGo
      have hb : (65 ≤ n0 ∧ n0 ≤ 122) := ⟨Nat.le_trans (by decide) h0.1.2, h0.2⟩
      simp [hstop, filterStep, hb.1, hb.2, hlow, maxFiltered, h126]
    rw [e0, filterGo_plain .firstCh (Or.inl rfl) nr _ 1 1 _ hnr (by unfold maxFiltered; simp only [List.length_cons] at hnl; omega)]
    have e1 : ∀ acc j i rest, j < 90 → filterGo .firstCh acc j i (32 :: rest) = filterGo .spaceFound (32 :: acc) (j + 1) (i + 1) rest := by
      intro acc j i rest hj
      have hj' : ¬ j ≥ maxFiltered := by unfold maxFiltered; omega
      conv => lhs; unfold filterGo
      simp [filterStep, stopCh, hj']
    simp only [List.length_cons] at hnl
    rw [e1 _ _ _ _ (by omega)]
    rw [filterGo_plain .spaceFound (Or.inr rfl) name _ _ _ _ hnp (by unfold maxFiltered; omega)]
    have e2 : ∀ acc j i, j < 90 → filterGo .spaceFound acc j i (44 :: 32 :: tok) = filterGo .spaceFound (44 :: acc) (j + 1) (i + 2) tok := by
      intro acc j i hj
      have hj' : ¬ j ≥ maxFiltered := by unfold maxFiltered; omega
      simp [filterGo, filterStep, stopCh, tolower, hj']
    rw [e2 _ _ _ (by omega)]
    have e3 := filterGo_plain .spaceFound (Or.inr rfl) tok (44 :: (name.reverse ++ 32 :: (nr.reverse ++ [n0]))) (1 + nr.length + 1 + name.length + 1)
      (1 + nr.length + 1 + name.length + 2) [] htp (by unfold maxFiltered; omega)
    rw [List.append_nil] at e3
    rw [e3]
    refine ⟨1 + nr.length + 1 + name.length + 2 + tok.length, ?_⟩
    unfold filterGo
    simp

/-- **`<op> <r64>, <number>` as a line of text**: for each of the eight ALU mnemonics and the 16 registers, EVERY value v that
    sign-extends from 32 bits, written as any number token the tokenizer reads as v, every option byte: the whole per-line pipeline —
    filter, lexer, table lookup, encoder, byte emission — yields exactly `aluBytes` -/
theorem alu_line (key : Int) (mn : Str) (hk : (key, mn) ∈ aluNames) (m : Nat) (name : Str) (g : Nat) (hp : (m, name, g) ∈ regs64)
    (c : Nat) (t : Str) (v : Nat) (b : Bool)
    (hc : numHead c = true) (hall : ∀ x ∈ c :: t, numCh x = true) (hlen : (c :: t).length ≤ 70)
    (himm : ∀ s : Instr, immTok s (c :: t) = .ok { s with imm := true, narrowOk := b, cons := v })
    (hd : disp32 v) (opt : Nat) :
    (assembleLine opt (mn ++ 32 :: (name ++ 44 :: 32 :: c :: t))).1 = .ok (.code (aluBytes (digitOf key) (8 * digitOf key + 4) m v)) ∧
    digitOf key < 8 := by
  have hok : regNameOk name g = true := by
    have := regs_ok
    rw [List.all_eq_true] at this
    exact this (m, name, g) hp
  have hpl : regNamePlain name = true := by
    have := regs_plain
    rw [List.all_eq_true] at this
    exact this (m, name, g) hp
  have hmok : aluNameOk mn key = true := by
    have := aluNames_table.2
    rw [List.all_eq_true] at this
    exact this (key, mn) hk
  have hmpl : brNamePlain mn = true := by
    have := aluNames_plain
    rw [List.all_eq_true] at this
    exact this (key, mn) hk
  have hkey : key ∈ aluKeys := by
    rw [← aluNames_table.1]
    exact List.mem_map.mpr ⟨(key, mn), hk, rfl⟩
  have hskip := not_skipped_alu key mn hk m name g hp (c :: t) (fun x hx => by
    have f := numCh_facts x (hall x hx); exact ⟨f.2.2.2.2.2.2.2.2.1, f.2.2.2.2.2.2.2.2.2.1, f.2.2.2.1⟩)
  obtain ⟨hrec, hdig⟩ := alu_record key hkey mn m name g hp v hd b opt
  obtain ⟨s', hres, hbytes⟩ := lineBytes_some opt _ _ hrec
  obtain ⟨nf, hf⟩ := filter_alu mn hmpl name hpl (c :: t) hall hlen
  refine ⟨?_, hdig⟩
  unfold assembleLine
  rw [hf]
  simp only [hskip, Bool.false_eq_true, if_false, lex_alu mn key hmok name g hok c t v b hc hall himm, hres, hbytes]

end AL.Lemmas.AluText
