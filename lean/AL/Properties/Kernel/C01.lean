/-
  AL.Properties.Kernel.C01 — **C01 for every instance, checked by Lean's KERNEL** (no native_decide).

  `c01_every_instance`: for every integer entry of the reference opcode table whose operands are registers, every spelling of its
  mnemonic (synonyms included), every operand-size setting, EVERY register tuple x86-64 can encode (r8–r15 and their parts,
  spl/bpl/sil/dil, ah/ch/dh/bh where no REX prefix is needed) and EVERY option byte (all twelve combinations and any other value):
  the model of the library assembles the line `<mnemonic> <registers>` into bytes which the reference decoder reads back as exactly
  one instruction covering all of them — the written operation on the written registers at the written operand size — or rejects it
  and the form is outside the frozen list of supported forms.

  How: the 51 022 instances are cut into cells (entry, spelling, slice of 192 instances), each cell decided by its own
  `decide +kernel` theorem at option byte 14, spread over the modules `C01_000 … C01_2xx` (one operating-system process each: the kernel keeps about 5.5 MB per evaluated instance)
  (about 65 ms of kernel evaluation per line: filter, tokenizer, table lookups, encoder, byte emission, decoder, comparison);
  `checkK_sound` carries every instance to all option bytes through the non-interference theorem `C11.other_lines_identical`
  (its guard `optPlainB` is part of the evaluated check).  The generated file `C01Parts` finds the theorem of every (entry, spelling, slice) by name (`cell_ok`), so no cell can be left out.
  The tie of this list-level family to the family the check runs on the C code (`famC01`, rendered through `String`) is checked at
  run time by the compiled driver (op `KF`): same texts in the same order.
-/
import AL.Properties.Kernel.C01Parts
namespace AL.Properties.Kernel
open AL AL.Impl AL.Spec.X86

/-- no mnemonic of the family has more than three spellings -/
theorem spellings_le : entriesC01.all (fun en => decide ((spellings en.mn).length ≤ 3)) = true := by decide +kernel

set_option maxRecDepth 1000000 in
/-- no entry has more than five slices of instances -/
theorem instances_le : entriesC01.all (fun en => decide ((enumEnc fillRegs en).length ≤ 5 * sliceLen)) = true := by decide +kernel

theorem entries_count : entriesC01.length = 124 := by decide +kernel

/-- an element of a list lies in the slice its index falls into -/
theorem mem_slice {α : Type} (l : List α) (S : Nat) (hS : 0 < S) (x : α) (hx : x ∈ l) :
    ∃ k, k * S < l.length ∧ x ∈ (l.drop (k * S)).take S := by
  obtain ⟨n, hn, hxe⟩ := List.getElem_of_mem hx
  refine ⟨n / S, ?_, ?_⟩
  · exact Nat.lt_of_le_of_lt (Nat.div_mul_le_self n S) hn
  · have hlt : n - n / S * S < S := by
      have := Nat.mod_lt n hS
      have h2 := Nat.div_add_mod n S
      have h3 : S * (n / S) = n / S * S := Nat.mul_comm _ _
      omega
    have hle : n / S * S ≤ n := Nat.div_mul_le_self n S
    have hidx : n - n / S * S < ((l.drop (n / S * S)).take S).length := by
      rw [List.length_take, List.length_drop]
      omega
    have : ((l.drop (n / S * S)).take S)[n - n / S * S] = x := by
      rw [List.getElem_take, List.getElem_drop]
      have : n / S * S + (n - n / S * S) = n := by omega
      simp only [this, hxe]
    rw [← this]
    exact List.getElem_mem hidx

/-- **C01, every instance, every option byte** (kernel-checked; axioms: propext, Classical.choice, Quot.sound at most) -/
theorem c01_every_instance (en : Enc) (hen : en ∈ entriesC01) (w : Mn) (hw : w ∈ spellings en.mn)
    (d : Dec) (hd : d ∈ enumEnc fillRegs en) (opt : Nat) : holdsAt opt w d = true := by
  obtain ⟨i, hi, hie⟩ := List.getElem_of_mem hen
  obtain ⟨j, hj, hje⟩ := List.getElem_of_mem hw
  obtain ⟨k, hk, hdk⟩ := mem_slice (enumEnc fillRegs en) sliceLen (by decide) d hd
  have hle := spellings_le
  rw [List.all_eq_true] at hle
  have hl3 : (spellings en.mn).length ≤ 3 := by simpa using hle en hen
  have hin := instances_le
  rw [List.all_eq_true] at hin
  have hl4 : (enumEnc fillRegs en).length ≤ 5 * sliceLen := by simpa using hin en hen
  have hk4 : k < 5 := by
    have hpos : 0 < sliceLen := by decide
    have : k * sliceLen < 5 * sliceLen := Nat.lt_of_lt_of_le hk hl4
    exact Nat.lt_of_mul_lt_mul_right this
  have hc := cell_ok i j k (by rw [← entries_count]; exact hi) (by omega) hk4
  unfold cell at hc
  rw [List.getElem?_eq_getElem hi, hie] at hc
  dsimp only at hc
  rw [List.getElem?_eq_getElem hj, hje] at hc
  dsimp only at hc
  rw [List.all_eq_true] at hc
  exact checkK_sound w d (hc d hdk) opt

/-- non-vacuity: the family is the 51 022 instances the check runs on the C code, e.g. `cmovnae r10w, bx` -/
example : holdsAt 7 (mn! "cmovnae") { mn := mn! "cmovb", ops := [.reg ⟨.gpr16, 10⟩, .reg ⟨.gpr16, 3⟩], len := 0 } = true := by
  decide +kernel

end AL.Properties.Kernel
