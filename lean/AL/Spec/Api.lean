/-
  AL.Spec.Api — reference semantics of an instance's option state, written from the
  documentation (src/assemblyline.h comments, man/asm_set_all.3, tools/README.md), not from
  the code.  Short enough to read in a minute.
-/
namespace AL.Spec

/-- mov-immediate handling -/
inductive MovImm | strict | nasm | smart
deriving DecidableEq, Repr

/-- the three option dimensions; `true` = NASM, `false` = STRICT for the two SIB dimensions -/
structure Opts where
  mov    : MovImm
  swap   : Bool
  noBase : Bool
deriving DecidableEq, Repr

/-- a new instance: SMART / NASM / NASM -/
def Opts.default : Opts := ⟨.smart, true, true⟩

/-- documented option values (`enum asm_opt { STRICT, NASM, SMART }`); anything else is `other` -/
inductive Val | strict | nasm | smart | other
deriving DecidableEq, Repr

inductive Call
  | movImm (v : Val) | sib (v : Val) | swap (v : Val) | noBase (v : Val) | setAll (v : Val)
deriving DecidableEq, Repr

def setMov (o : Opts) : Val → Opts
  | .strict => { o with mov := .strict }
  | .nasm => { o with mov := .nasm }
  | .smart => { o with mov := .smart }
  | .other => o

def setSwap (o : Opts) : Val → Opts
  | .strict => { o with swap := false }
  | .nasm => { o with swap := true }
  | _ => o          -- SMART and undocumented values change nothing

def setNoBase (o : Opts) : Val → Opts
  | .strict => { o with noBase := false }
  | .nasm => { o with noBase := true }
  | _ => o

/-- the documented table: `asm_sib` = both SIB setters; `asm_set_all` = all three for
    NASM/STRICT, only `asm_mov_imm` for SMART (man page asm_set_all.3). -/
def apply (o : Opts) : Call → Opts
  | .movImm v => setMov o v
  | .swap v => setSwap o v
  | .noBase v => setNoBase o v
  | .sib .strict => setNoBase (setSwap o .strict) .strict
  | .sib .nasm => setNoBase (setSwap o .nasm) .nasm
  | .sib _ => o
  | .setAll .strict => setNoBase (setSwap (setMov o .strict) .strict) .strict
  | .setAll .nasm => setNoBase (setSwap (setMov o .nasm) .nasm) .nasm
  | .setAll .smart => setMov o .smart
  | .setAll .other => o

end AL.Spec
