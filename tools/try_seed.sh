#!/bin/bash
# usage: try_seed.sh <patch.diff> <prop> [<prop>...] — apply a seeded change to /repo, run the quick
# checks, and ALWAYS undo it afterwards.
patch="$1"; shift
cd /repo || exit 2
git apply "$patch" || { echo "patch does not apply"; exit 2; }
trap 'git -C /repo checkout -- . ' EXIT
cd /verif
for p in "$@"; do
  python3 alv.py check "$p" --tier quick 2>/dev/null | tail -3
  echo "exit=$? ($p)"
done
