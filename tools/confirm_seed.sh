#!/bin/bash
# usage: confirm_seed.sh <seed-dir-with patch.diff+demo.sh> — confirm in a FRESH scratch worktree that the
# change compiles, keeps the 96 baseline tests passing, and that the demo fails with / passes without it.
set -u
seed="$(cd "$1" && pwd)"
wt=/tmp/confirm_$$
/verif/tools/mkworktree.sh $wt >/dev/null 2>&1 || { echo "worktree failed"; exit 2; }
cleanup() { git -C /repo worktree remove --force $wt >/dev/null 2>&1; }
trap cleanup EXIT
cd $wt
mkdir -p seed && cp -r "$seed"/* seed/ 2>/dev/null
make -j8 >/dev/null 2>&1
bash seed/demo.sh >/tmp/confirm_$$.without 2>&1; r_without=$?
git apply seed/patch.diff || { echo "RESULT: patch does not apply"; exit 1; }
make -j8 >/dev/null 2>&1 || { echo "RESULT: does not compile"; exit 1; }
python3 /verif/tools/baseline.py $wt > /tmp/confirm_$$.base 2>&1; r_base=$?
make -j8 >/dev/null 2>&1
bash seed/demo.sh >/tmp/confirm_$$.with 2>&1; r_with=$?
echo "RESULT: baseline_rc=$r_base ($(head -1 /tmp/confirm_$$.base)) demo_without_rc=$r_without demo_with_rc=$r_with"
tail -2 /tmp/confirm_$$.with | cut -c1-200
rm -f /tmp/confirm_$$.*
[ $r_base -eq 0 ] && [ $r_without -eq 0 ] && [ $r_with -ne 0 ]
