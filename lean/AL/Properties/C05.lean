/-
  C05 — relative jumps and calls encode the given displacement; rel8 never wraps.

  Statement: for every instance of the family — jmp, the conditional jumps, call, jrcxz, xbegin x
  {no keyword, short, long} x every d in −130..129 and the 16/32-bit boundary values, decimal and
  hexadecimal, all synonym mnemonics — an accepted line decodes to that operation with displacement d
  (rel8 or rel32; `long` forces rel32, `short` rel8), and a line is rejected exactly when `short` is asked
  for, or only rel8 exists, and d is outside −128..127.
   * `Sweep.c05_sweep`          — the whole family (≈ 47 000 instances x 2 option bytes) on the model, by evaluation;
   * `rel_field_reads_back`     — kernel-checked, for EVERY d: a rel8 / rel32 field holding d's two's complement
                                  is read back as d;
   * `written_displacement`     — kernel-checked, for EVERY n: the written number reaches the encoder unchanged
                                  (C03 `written_number_value`).
   * `rel_branch_every_d`       — kernel-checked, SYMBOLIC in d: for every relative-branch row of the regenerated table
                                  (`Lemmas.Branch.relKeys_classified`: each is jmp/jcc-shaped, call/xbegin-shaped or jrcxz-shaped), EVERY
                                  d in −2^31..2^31−1, with and without `short`/`long`, every option byte, the second half of the per-line
                                  pipeline yields rel8 / rel32 / rejection exactly as the property says, with d's two's complement in the
                                  displacement field (AL.Lemmas.Branch.j_bytes / c_bytes / r_bytes).
   * `rel_branch_text_dec / _neg_dec / _hex / _neg_hex` — kernel-checked, the same at the TEXT level: for each of the 20
                                  relative-branch mnemonics of the table, no keyword / `short` / `long`, and the four spellings of the
                                  number with leading zeros, the line `<mnemonic> [kw] <number>` goes through the whole per-line pipeline
                                  (AL.Lemmas.BranchText: filter_branch, lex_branch, branch_line) and is accepted with exactly the expected
                                  code or rejected, for EVERY d in −2^31..2^31−1.
  Register, memory and far-memory targets are instances of the C01 / C02 families (call, jmp, callf, jmpf).
-/
import AL.Properties.Sweep.C05
import AL.Properties.C03
import AL.Lemmas.BranchText
namespace AL.Properties.C05
open AL AL.Impl AL.Gen AL.Spec.X86 AL.Lemmas AL.Lemmas.Branch AL.Lemmas.MovImm AL.Lemmas.MovText AL.Lemmas.BranchText AL.Properties.C03

theorem rel_field_reads_back :
    (∀ d : Int, -128 ≤ d → d < 128 → toSigned 8 (leVal (leBytes 1 (d % 256).toNat)) = d) ∧
    (∀ d : Int, -2147483648 ≤ d → d < 2147483648 → toSigned 32 (leVal (leBytes 4 (d % 4294967296).toNat)) = d) := by
  constructor
  · intro d h1 h2
    rw [leVal_leBytes_lt 1 _ (by have := Int.emod_lt_of_pos d (show (0 : Int) < 256 by decide); have := Int.emod_nonneg d (show (256 : Int) ≠ 0 by decide); omega)]
    exact toSigned_roundtrip 8 (by decide) d (by simpa using h1) (by simpa using h2)
  · intro d h1 h2
    rw [leVal_leBytes_lt 4 _ (by have := Int.emod_lt_of_pos d (show (0 : Int) < 4294967296 by decide); have := Int.emod_nonneg d (show (4294967296 : Int) ≠ 0 by decide); have : (256 : Nat) ^ 4 = 4294967296 := by decide
                                 omega)]
    exact toSigned_roundtrip 32 (by decide) d (by simpa using h1) (by simpa using h2)

theorem written_displacement (s : Instr) (n : Nat) (hn : n < 2 ^ 64) :
    (∃ r, immTok s (AL.Lemmas.decStr n) = .ok r ∧ r.cons = n ∧ r.imm = true) ∧
    (∃ r, immTok s (45 :: AL.Lemmas.decStr n) = .ok r ∧ r.cons = (2 ^ 64 - n) % 2 ^ 64) :=
  ⟨(AL.Properties.C03.written_number_value s n 0 hn).1, (AL.Properties.C03.written_number_value s n 0 hn).2.2.1⟩

/-- a displacement of the property's range as the 64-bit two's complement value the tokenizer produces -/
theorem disp_of_int (d : Int) (h1 : -2147483648 ≤ d) (h2 : d < 2147483648) :
    disp32 (d % 18446744073709551616).toNat ∧
    (d % 18446744073709551616).toNat % 2 ^ 32 = (d % 4294967296).toNat ∧
    (d % 18446744073709551616).toNat % 256 = (d % 256).toNat ∧
    ((d % 18446744073709551616).toNat ≤ 0x7f ↔ (0 ≤ d ∧ d ≤ 127)) ∧
    (0xffffffffffffff80 ≤ (d % 18446744073709551616).toNat ↔ (-128 ≤ d ∧ d < 0)) := by
  unfold disp32
  refine ⟨?_, ?_, ?_, ?_, ?_⟩ <;> omega

/-- **every relative branch, every d**: for every relative-branch row of the regenerated table, every displacement
    −2^31 ≤ d < 2^31, with and without `short` / `long`, every option byte — the code is
      * jmp / jcc: `op8 d8` when 0 ≤ d ≤ 127 and `long` is absent, or when `short` is written and −128 ≤ d < 0;
        REJECTED when `short` is written and d is outside −128..127; `op32 d32` otherwise;
      * call / xbegin: `op32 d32`, rejected when `short` is written and d is outside −128..127;
      * jrcxz: `op8 d8` when −128 ≤ d ≤ 127, rejected otherwise (never wrapped);
    with d8 / d32 the two's complement of d (which `rel_field_reads_back` reads back as d) -/
theorem rel_branch_every_d (key : Int) (hk : key ∈ relKeys) (name : Str) (d : Int) (h1 : -2147483648 ≤ d) (h2 : d < 2147483648)
    (sh lg : Bool) (hx : ¬ (sh = true ∧ lg = true)) (b : Bool) (opt : Nat) :
    lineBytes opt (brRec key name sh lg (d % 18446744073709551616).toNat b) =
      (if jKeyOk key then jExpect (ops32 key) (op8 key) sh lg (d % 18446744073709551616).toNat
       else if cKeyOk key then cExpect (ops32 key) sh (d % 18446744073709551616).toNat
       else rExpect (op8 key) (d % 18446744073709551616).toNat) := by
  have hd := (disp_of_int d h1 h2).1
  have hc := relKeys_classified
  rw [List.all_eq_true] at hc
  have := hc key hk
  simp only [Bool.or_eq_true] at this
  by_cases hj : jKeyOk key = true
  · simp only [hj, if_true]; exact j_key key hj name _ b opt sh lg hx hd
  · by_cases hcc : cKeyOk key = true
    · simp only [hj, hcc, if_true, Bool.false_eq_true, if_false]; exact c_key key hcc name _ b opt sh lg hx hd
    · have hr : rKeyOk key = true := by
        rcases this with (h | h) | h
        · exact absurd h hj
        · exact absurd h hcc
        · exact h
      simp only [hj, hcc, Bool.false_eq_true, if_false]; exact r_key key hr name _ b opt sh lg hx hd

/-- the record is what the lexer produces (instances; the lexing of every family line is part of `Sweep.c05_sweep`) -/
example : (match lexLine (str! "jmp short -5") with | .ok s => s == brRec 85 (str! "jmp") true false 18446744073709551611 true | _ => false) = true := by
  decide +kernel
example : (match lexLine (str! "jne long 5") with | .ok s => s == brRec 88 (str! "jne") false true 5 true | _ => false) = true := by
  decide +kernel
example : (85 : Int) ∈ relKeys ∧ (19 : Int) ∈ relKeys ∧ (100 : Int) ∈ relKeys := by decide +kernel

/-- the statement for one spelling of the line: accepted with exactly the expected code, or rejected -/
def BranchYields (opt : Nat) (line : Str) (key : Int) (sh lg : Bool) (v : Nat) : Prop :=
  match brExpect key sh lg v with
  | some bs => (assembleLine opt line).1 = .ok (.code bs)
  | none => ∃ e, (assembleLine opt line).1 = .error e

/-- **relative branches as TEXT, decimal d ≥ 0 with any number k ≤ 30 of leading zeros** -/
theorem rel_branch_text_dec (key : Int) (name : Str) (hp : (key, name) ∈ brNames) (kwt : Str) (sh lg : Bool) (hk : KwCase kwt sh lg)
    (k n : Nat) (hk30 : k ≤ 30) (hn : n < 2 ^ 31) (opt : Nat) :
    BranchYields opt (name ++ 32 :: (kwt ++ kwGap kwt ++ decDigs k n)) key sh lg n := by
  have hv : n < 2 ^ 64 := by omega
  obtain ⟨d, rest, hd, hds⟩ := decDigs_head k n hv
  have hall : ∀ x ∈ digitCh d :: rest, numCh x = true := by rw [← hds]; exact decDigs_num k n hv
  have hl := decDigs_length k n
  have := branch_line key name hp kwt sh lg hk (digitCh d) rest n true (digitCh_head d hd) hall (by rw [← hds]; omega)
    (fun s => by rw [← hds]; exact immTok_dec_pad s k n hv) (Or.inl (by omega)) opt
  rw [← hds] at this
  exact this

/-- negated decimal: d = −n for 0 < n ≤ 2^31 -/
theorem rel_branch_text_neg_dec (key : Int) (name : Str) (hp : (key, name) ∈ brNames) (kwt : Str) (sh lg : Bool) (hk : KwCase kwt sh lg)
    (k n : Nat) (hk30 : k ≤ 30) (hn0 : 0 < n) (hn : n ≤ 2 ^ 31) (opt : Nat) :
    BranchYields opt (name ++ 32 :: (kwt ++ kwGap kwt ++ 45 :: decDigs k n)) key sh lg ((2 ^ 64 - n) % 2 ^ 64) := by
  have hv : n < 2 ^ 64 := by omega
  have hall : ∀ x ∈ 45 :: decDigs k n, numCh x = true := by
    intro x hx
    simp only [List.mem_cons] at hx
    rcases hx with rfl | hx
    · decide
    · exact decDigs_num k n hv x hx
  have hl := decDigs_length k n
  exact branch_line key name hp kwt sh lg hk 45 (decDigs k n) ((2 ^ 64 - n) % 2 ^ 64) true (by decide) hall
    (by simp only [List.length_cons]; omega) (fun s => immTok_neg_dec_pad s k n hv) (Or.inr (by omega)) opt

/-- hexadecimal d ≥ 0 -/
theorem rel_branch_text_hex (key : Int) (name : Str) (hp : (key, name) ∈ brNames) (kwt : Str) (sh lg : Bool) (hk : KwCase kwt sh lg)
    (k n : Nat) (hk30 : k ≤ 30) (hn : n < 2 ^ 31) (opt : Nat) :
    BranchYields opt (name ++ 32 :: (kwt ++ kwGap kwt ++ 48 :: 120 :: hexDigs k n)) key sh lg n := by
  have hv : n < 2 ^ 64 := by omega
  have hall : ∀ x ∈ 48 :: 120 :: hexDigs k n, numCh x = true := by
    intro x hx
    simp only [List.mem_cons] at hx
    rcases hx with rfl | rfl | hx
    · decide
    · decide
    · exact hexDigs_num k n hv x hx
  have hl := hexDigs_length k n
  exact branch_line key name hp kwt sh lg hk 48 (120 :: hexDigs k n) n _ (by decide) hall
    (by simp only [List.length_cons]; omega) (fun s => immTok_hex s k n hv) (Or.inl (by omega)) opt

/-- negated hexadecimal -/
theorem rel_branch_text_neg_hex (key : Int) (name : Str) (hp : (key, name) ∈ brNames) (kwt : Str) (sh lg : Bool) (hk : KwCase kwt sh lg)
    (k n : Nat) (hk30 : k ≤ 30) (hn0 : 0 < n) (hn : n ≤ 2 ^ 31) (opt : Nat) :
    BranchYields opt (name ++ 32 :: (kwt ++ kwGap kwt ++ 45 :: 48 :: 120 :: hexDigs k n)) key sh lg ((2 ^ 64 - n) % 2 ^ 64) := by
  have hv : n < 2 ^ 64 := by omega
  have hall : ∀ x ∈ 45 :: 48 :: 120 :: hexDigs k n, numCh x = true := by
    intro x hx
    simp only [List.mem_cons] at hx
    rcases hx with rfl | rfl | rfl | hx
    · decide
    · decide
    · decide
    · exact hexDigs_num k n hv x hx
  have hl := hexDigs_length k n
  exact branch_line key name hp kwt sh lg hk 45 (48 :: 120 :: hexDigs k n) ((2 ^ 64 - n) % 2 ^ 64) _ (by decide) hall
    (by simp only [List.length_cons]; omega) (fun s => immTok_neg_hex s k n hv) (Or.inr (by omega)) opt

/-- instances: `jmp short -5` is `eb fb`, `jne long 5` is `0f 85 05 00 00 00`, `jrcxz 300` is rejected -/
example : brExpect 85 true false ((2 ^ 64 - 5) % 2 ^ 64) = some [0xeb, 0xfb] := by decide +kernel
example : brExpect 88 false true 5 = some [0x0f, 0x85, 5, 0, 0, 0] := by decide +kernel
example : brExpect 100 false false 300 = none := by decide +kernel
example : ((85 : Int), str! "jmp") ∈ brNames := by decide

end AL.Properties.C05
