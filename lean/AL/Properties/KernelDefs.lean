/-
  AL.Properties.KernelDefs — the C01 family and its per-instance check in a form the KERNEL can evaluate: no `String` anywhere on the
  path (mnemonics and register names are list literals), the line text is built at list level, the option byte is 14 and the
  non-interference theorem C11.other_lines_identical carries the result to EVERY option byte.

  `checkK wmn d = true` says, for the line `<wmn> <operands of d>` (register operands only):
    the line filter accepts it, it is not a skipped line, and either
      the lexer/encoder accept it, the record handed to the encoder is outside the three option-sensitive classes, the emitted bytes
      are read back by the reference decoder as ONE instruction covering all of them, and that is the written one (sameInstr), or
      the model rejects it and the form is outside the frozen list of supported forms.
  `checkK_sound` turns that into the statement for every option byte.
-/
import AL.Properties.C11
import AL.Spec.X86Compare
namespace AL.Properties.Kernel
open AL AL.Impl AL.Spec.X86

def n64 : List Str := [str! "rax", str! "rcx", str! "rdx", str! "rbx", str! "rsp", str! "rbp", str! "rsi", str! "rdi", str! "r8", str! "r9",
  str! "r10", str! "r11", str! "r12", str! "r13", str! "r14", str! "r15"]
def n32 : List Str := [str! "eax", str! "ecx", str! "edx", str! "ebx", str! "esp", str! "ebp", str! "esi", str! "edi", str! "r8d", str! "r9d",
  str! "r10d", str! "r11d", str! "r12d", str! "r13d", str! "r14d", str! "r15d"]
def n16 : List Str := [str! "ax", str! "cx", str! "dx", str! "bx", str! "sp", str! "bp", str! "si", str! "di", str! "r8w", str! "r9w",
  str! "r10w", str! "r11w", str! "r12w", str! "r13w", str! "r14w", str! "r15w"]
def n8 : List Str := [str! "al", str! "cl", str! "dl", str! "bl", str! "spl", str! "bpl", str! "sil", str! "dil", str! "r8b", str! "r9b",
  str! "r10b", str! "r11b", str! "r12b", str! "r13b", str! "r14b", str! "r15b"]
def n8h : List Str := [str! "?", str! "?", str! "?", str! "?", str! "ah", str! "ch", str! "dh", str! "bh"]

/-- decimal digits of a register number below 100 -/
def num2 (n : Nat) : Str := if n < 10 then [48 + n] else [48 + n / 10, 48 + n % 10]

/-- a register's name as a character list (the list-level twin of `Reg.name`; `regNameL_eq` ties them) -/
def regNameL (r : Reg) : Str :=
  match r.file with
  | .gpr64 => n64.getD r.num (str! "?") | .gpr32 => n32.getD r.num (str! "?") | .gpr16 => n16.getD r.num (str! "?")
  | .gpr8 => n8.getD r.num (str! "?") | .gpr8h => n8h.getD r.num (str! "?")
  | .mm => str! "mm" ++ num2 r.num | .xmm => str! "xmm" ++ num2 r.num | .ymm => str! "ymm" ++ num2 r.num

def sepL : List Str → Str
  | [] => []
  | [a] => a
  | a :: rest => a ++ 44 :: 32 :: sepL rest

/-- the line `<mnemonic> <reg>, <reg>, …` (none: an operand that is not a register) -/
def lineL (wmn : Mn) (ops : List Opnd) : Option Str :=
  match ops.mapM (fun o => match o with | .reg r => some (regNameL r) | _ => none) with
  | none => none
  | some [] => some wmn
  | some ns => some (wmn ++ 32 :: sepL ns)

def itemOf (wmn : Mn) (d : Dec) : Item := { text := "", want := d, wmn := wmn }

def decodesTo (wmn : Mn) (d : Dec) (bs : Bytes) : Bool :=
  match decodeAll 4 bs with
  | some [g] => g.len == bs.length && sameInstr (itemOf wmn d) g
  | _ => false

/-- the per-instance check at option byte 14, with the guard of the non-interference theorem -/
def checkK (wmn : Mn) (d : Dec) : Bool :=
  match lineL wmn d.ops with
  | none => false
  | some text =>
    match filterLine text with
    | none => false
    | some (f, _) =>
      !isSkipped f &&
      match lexLine f with
      | .error _ => !supportedForm (itemOf wmn d)
      | .ok s =>
        (match AL.Properties.C11.encoderInput s with | some e => AL.Properties.C11.optPlainB e | none => true) &&
        match resolveLine 14 s with
        | .error _ => !supportedForm (itemOf wmn d)
        | .ok s' => decodesTo wmn d (assembleAsm s')

/-- what C01 says about one written line under one option byte (the list-level twin of Sweep.checkItem) -/
def holdsAt (opt : Nat) (wmn : Mn) (d : Dec) : Bool :=
  match lineL wmn d.ops with
  | none => false
  | some text =>
    match (assembleLine opt text).1 with
    | .ok (.code bs) => decodesTo wmn d bs
    | .ok .skip => false
    | .error _ => !supportedForm (itemOf wmn d)

theorem checkK_sound (wmn : Mn) (d : Dec) (h : checkK wmn d = true) (opt : Nat) : holdsAt opt wmn d = true := by
  unfold checkK at h
  unfold holdsAt
  cases hl : lineL wmn d.ops with
  | none => rw [hl] at h; exact absurd h (by simp)
  | some text =>
    rw [hl] at h
    dsimp only at h ⊢
    cases hf : filterLine text with
    | none => rw [hf] at h; exact absurd h (by simp)
    | some p =>
      obtain ⟨f, i⟩ := p
      rw [hf] at h
      dsimp only at h
      rw [Bool.and_eq_true] at h
      obtain ⟨hsk, h⟩ := h
      have hsk' : isSkipped f = false := by simpa using hsk
      -- the guard of other_lines_identical
      have hguard : ∀ e, AL.Properties.C11.lineEncoderInput text = some e → AL.Properties.C11.optPlainB e = true := by
        intro e he
        unfold AL.Properties.C11.lineEncoderInput at he
        rw [hf] at he
        dsimp only at he
        rw [hsk'] at he
        simp only [Bool.false_eq_true, if_false] at he
        cases hlx : lexLine f with
        | error er => rw [hlx] at he; simp at he
        | ok s =>
          rw [hlx] at he h
          dsimp only at he h
          rw [Bool.and_eq_true] at h
          rw [he] at h
          exact h.1
      rw [AL.Properties.C11.other_lines_identical opt 14 text hguard]
      unfold assembleLine
      rw [hf]
      dsimp only
      rw [hsk']
      simp only [Bool.false_eq_true, if_false]
      cases hlx : lexLine f with
      | error er => rw [hlx] at h; exact h
      | ok s =>
        rw [hlx] at h
        dsimp only at h ⊢
        rw [Bool.and_eq_true] at h
        cases hr : resolveLine 14 s with
        | error er => rw [hr] at h; exact h.2
        | ok s' => rw [hr] at h; exact h.2

/-! ### the family, entry by entry -/

/-- the integer entries of the reference table whose operands are registers (C01) -/
def entriesC01 : List Enc := table.filter fun en => !hasImm en && !hasRel en && !isVector en

/-- the written mnemonics of an instance: its own and every synonym -/
def spellings (mn : Mn) : List Mn := mn :: (synonyms.filter (fun p => p.2 == mn)).map (·.1)

/-- every instance of an entry: all operand-size settings, all encodable register tuples, all synonym spellings -/
def entryOK (en : Enc) : Bool :=
  (enumEnc fillRegs en).all fun d => (spellings d.mn).all fun w => checkK w d

/-- instances per slice: a slice is what ONE kernel evaluation decides (about 5 MB of kernel memory per instance) -/
def sliceLen : Nat := 192

/-- one cell of the family: entry `i` of `entriesC01` written with its `j`-th spelling, instances `192 k … 192 k + 191` -/
def cell (i j k : Nat) : Bool :=
  match entriesC01[i]? with
  | none => true
  | some en =>
    match (spellings en.mn)[j]? with
    | none => true
    | some w => (((enumEnc fillRegs en).drop (k * sliceLen)).take sliceLen).all fun d => checkK w d

end AL.Properties.Kernel
