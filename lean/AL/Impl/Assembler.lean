/-
  AL.Impl.Assembler — src/assembler.c: byte emission for one instruction record.
-/
import AL.Impl.Encoder
namespace AL.Impl
open AL AL.Gen

/-- `assemble_const`: little-endian bytes of `c`, none for 0.  `c` is an `unsigned long`
    (< 2^64), so the C loop runs at most 8 times; structural recursion on that bound. -/
def assembleConstGo : Nat → Nat → Bytes
  | 0, _ => []
  | n + 1, c => if c = 0 then [] else (c % 256) :: assembleConstGo n (c / 256)

def assembleConst (c : Nat) : Bytes := assembleConstGo 8 c

/-- `check_zero`: only `mov r64, imm64` gets the extra zero byte that makes the caller pad to 8 -/
def checkZero (s : Instr) (saved : Nat) (type : Nat) : Bool :=
  let mode := s.opd0.reg &&& c_MODE_MASK
  if type != c_DATA_TRANSFER || s.memDisp || (rowAt s.key).enc != c_I then false
  else if mode != c_reg64 && mode != c_ext64 then false
  else inR saved c_NEG32BIT_CHECK c_MAX_UNSIGNED_32BIT && !s.reducedImm

/-- `assemble_imm`, first half: the constant's bytes and the optional zero byte -/
def immCore (s : Instr) : Bytes :=
  let type := (rowAt s.key).type
  let immOperand := if s.kw.isByte then s.cons &&& c_MAX_UNSIGNED_8BIT else s.cons
  let out := assembleConst immOperand
  if immOperand == 0 || checkZero s immOperand type then out ++ [0] else out

/-- `assemble_imm`, second half: how many zero bytes are appended after `bytes` bytes -/
def immPad (s : Instr) (bytes : Nat) : Nat :=
  if s.reducedImm || s.kw.isByte then 0 else
  let row := rowAt s.key
  let type := row.type
  let mode := opd0WidthMode s
  let zeroPad :=
    ((type != c_CONTROL_FLOW && s.opOffset != 3 && !s.kw.isByte) && mode > c_noext8) ||
    (row.enc > c_I) || (type == c_PAD_ALWAYS)
  if !zeroPad then 0 else
  let is16 := mode == c_reg16 || mode == c_ext16
  if bytes ≤ 4 && !(bytes == 1 && is16) then 4 - bytes
  else if bytes > 4 && bytes ≤ 8 then 8 - bytes
  else bytes

/-- `assemble_imm`. -/
def assembleImm (s : Instr) : Bytes :=
  if !s.imm then [] else immCore s ++ List.replicate (immPad s (immCore s).length) 0

/-- `assemble_mem_const`: constant (a `uint32_t` value) padded to 4 bytes. -/
def assembleMemConst (c : Nat) : Bytes :=
  let out := assembleConst c
  out ++ List.replicate (4 - out.length) 0

/-- `assemble_mem_disp`. -/
def assembleMemDisp (s : Instr) : Bytes :=
  if s.zeroByte then [0]
  else if s.memDisp then
    let a := if s.isSibConst && !s.memValue then [c_SIB_CONST] else []
    if s.modDisp == c_MOD8 then a ++ [s.memOffset % 256]
    else if s.modDisp == c_MOD16 || s.noBase then a ++ assembleMemConst s.memOffset
    else a
  else []

/-- the second byte of a three-byte VEX prefix (RXB and map), if the prefix has three bytes -/
def vexMid (first vex rex : Nat) : Bytes :=
  if first == c_C4H then [((vex >>> 8) ||| ((7 - (rex &&& c_REX_MASK)) <<< 5)) &&& 0xff] else []

/-- `assemble_VEX`. -/
def assembleVEX (s : Instr) (vex0 : Nat) : Bytes :=
  let rex := s.hex.rex
  let (vex, first) :=
    if (vex0 &&& c_W0_W1) == c_W0_W1 && !s.hex.isW0 then (vex0 &&& (2 ^ 32 - 1 - c_W1), c_C4H)
    else if band vex0 c_WIG && !band vex0 c_W1 then
      (vex0, if !band rex (c_rex_b ||| c_rex_x) then c_C5H else c_C4H)
    else (vex0, c_C4H)
  let vex := vex >>> 1
  let b1 : Bytes := vexMid first vex rex
  let vex := vex &&& (2 ^ 32 - 1 - c_CLEARvvvv)
  let vv := ((15 - s.hex.vvvv % 16) <<< 3) &&& c_MAX_SIGNED_8BIT
  let last :=
    if first == c_C4H then vv ||| (vex &&& 0xff)
    else
      let rbit := if band rex c_rex_r then 0 else c_NEG8BIT_CHECK
      vv ||| (((vex &&& 0xff) ||| rbit) &&& 0xff)
  first :: (b1 ++ [last])

/-- one slot of the opcode layout: the bytes it emits; the `ib` slot emits nothing but sets
    `reduced_imm` and masks `cons` -/
def emitSlot (row : Row) (s : Instr) (pos slot : Nat) : Instr × Bytes :=
  let opc := slot &&& 0xff
  if slot &&& (2 ^ 32 - 256) == 0 then
    (s, [if pos == row.opOffI then (opc + s.opOffset) % 256 else opc])
  else
    let en := slot &&& c_GET_EN
    if en == c_REX then (s, if s.hex.rex != 0 then [s.hex.rex % 256] else [])
    else if en == c_REG then (s, [s.hex.reg % 256])
    else if en == c_VEX then (s, assembleVEX s (slot &&& (2 ^ 32 - 1 - c_GET_EN)))
    else if en == c_ib then
      ({ s with reducedImm := true, cons := s.cons &&& c_MAX_UNSIGNED_8BIT }, [])
    else if en == c_rd then
      (s, [(((if pos == row.opOffI then (opc + s.opOffset) % 256 else opc) + s.rdOffset) % 256)])
    else (s, [])

/-- loop of `assemble_instr` over the opcode slots -/
def assembleSlots (row : Row) : Instr → Nat → List Nat → Instr × Bytes
  | s, _, [] => (s, [])
  | s, pos, slot :: rest =>
    let (s1, b) := emitSlot row s pos slot
    let (s2, tl) := assembleSlots row s1 (pos + 1) rest
    (s2, b ++ tl)

/-- `assemble_instr`. -/
def assembleInstr (s : Instr) : Instr × Bytes :=
  let row := rowAt s.key
  let p66 : Bytes := if (s.opd0.reg &&& c_BIT_MASK) == c_BIT_16 || s.hex.is66 || s.kw.isWord then [0x66] else []
  let p67 : Bytes := if s.hex.is67 then [0x67] else []
  let (s', body) := assembleSlots row s 0 (row.opcode.take row.size)
  let sib : Bytes := if s.hex.sib != c_NO_BYTE then [s.hex.sib % 256] else []
  (s', p66 ++ p67 ++ body ++ sib)

/-- `assemble_asm`: all bytes of one instruction. -/
def assembleAsm (s : Instr) : Bytes :=
  let (s, ins) := assembleInstr s
  let disp := assembleMemDisp s
  let mv := if s.memValue then c_NO_REG_MEM :: assembleMemConst s.memConst else []
  ins ++ disp ++ mv ++ assembleImm s

end AL.Impl
