"""
Written-vs-decoded comparison for C01–C05, and the objdump cross-validation of the Lean reference decoder.

The Lean side (AL.Spec.X86*) enumerates the quantifier domain as "<assembly text>\t<expected decoding>" and decodes byte strings
(driver op Q) into the same token syntax:   mn op op ... #len   with operands
   b3 h4 w1 d2 q15 mm3 x7 y12                     registers (file tag + number)
   m64[a64,b=0,i=1,s=8,d=8]                       memory (width, address size, base, index, scale, displacement)
   i32:5                                          immediate (operand size : value as unsigned of that size)
   rel8:-3 / rel32:100                            branch displacement
"""
import re, subprocess, os, tempfile

MEM_RE = re.compile(r"m(\d+)\[(a32|a64)(,rip)?,b=([0-9-]+),i=([0-9-]+),s=(\d+),d=(-?\d+)\]$")


def parse_dec(s):
    """'mn ops #len' -> (mn, [tokens], len)"""
    s = s.strip()
    m = re.match(r"(\S+)\s*(.*?)\s*#(\d+)$", s)
    if not m:
        return None
    return m.group(1), m.group(2).split(), int(m.group(3))


def mem_linear(tok):
    """memory token -> (size, addrsize, rip, {reg: coefficient}, disp)"""
    m = MEM_RE.match(tok)
    if not m:
        return None
    size, asz, rip, b, i, s, d = m.groups()
    co = {}
    if b != "-":
        co[int(b)] = co.get(int(b), 0) + 1
    if i != "-":
        co[int(i)] = co.get(int(i), 0) + int(s)
    return int(size), asz, bool(rip), co, int(d)


def same_operand(want, got, relfree):
    if want == got:
        return True
    if want.startswith("m") and got.startswith("m") and "[" in want and "[" in got:
        a, b = mem_linear(want), mem_linear(got)
        if a is None or b is None:
            return False
        # same width (0 = the encoding defines none), address size, and the same address for every register valuation
        return a[0] == b[0] and a[1] == b[1] and a[2] == b[2] and a[3] == b[3] and a[4] == b[4]
    if want.startswith("rel") and got.startswith("rel") and relfree:
        return want.split(":")[1] == got.split(":")[1]
    return False


def compare(want_s, got_s, emitted_len, relfree=True):
    """None if the decoded instruction is the written one, else a short reason"""
    w = parse_dec(want_s)
    if got_s == "?" or not got_s:
        return "undecodable"
    parts = got_s.split(" ; ")
    if len(parts) != 1:
        return "decodes to %d instructions" % len(parts)
    g = parse_dec(parts[0])
    if g is None:
        return "undecodable"
    if g[2] != emitted_len:
        return "length"
    if w[0] != g[0]:
        return "mnemonic %s" % g[0]
    if len(w[1]) != len(g[1]):
        return "operand count"
    for k, (a, b) in enumerate(zip(w[1], g[1])):
        if not same_operand(a, b, relfree):
            return "operand %d" % k
    return None


def kinds_of(want_s):
    """AssemblyLine operand-kind string of an expected decoding (r: general/MMX register, v: xmm, y: ymm, m, i)"""
    w = parse_dec(want_s)
    out = ""
    for t in w[1]:
        if t[0] == "x":
            out += "v"
        elif t[0] == "y":
            out += "y"
        elif t.startswith("mm") or t[0] in "bhwdq":
            out += "r"
        elif t[0] == "m":
            out += "m"
        else:
            out += "i"
    return out


# ---------------------------------------------------------------------------------------------------------
# objdump as a second, independent decoder (validates the Lean reference decoder, never the property)
# ---------------------------------------------------------------------------------------------------------

OBJ_REGS = {}
for i, n in enumerate(["rax", "rcx", "rdx", "rbx", "rsp", "rbp", "rsi", "rdi"] + ["r%d" % k for k in range(8, 16)]):
    OBJ_REGS[n] = "q%d" % i
for i, n in enumerate(["eax", "ecx", "edx", "ebx", "esp", "ebp", "esi", "edi"] + ["r%dd" % k for k in range(8, 16)]):
    OBJ_REGS[n] = "d%d" % i
for i, n in enumerate(["ax", "cx", "dx", "bx", "sp", "bp", "si", "di"] + ["r%dw" % k for k in range(8, 16)]):
    OBJ_REGS[n] = "w%d" % i
for i, n in enumerate(["al", "cl", "dl", "bl", "spl", "bpl", "sil", "dil"] + ["r%db" % k for k in range(8, 16)]):
    OBJ_REGS[n] = "b%d" % i
for i, n in enumerate(["ah", "ch", "dh", "bh"]):
    OBJ_REGS[n] = "h%d" % (i + 4)
for i in range(8):
    OBJ_REGS["mm%d" % i] = "mm%d" % i
for i in range(16):
    OBJ_REGS["xmm%d" % i] = "x%d" % i
    OBJ_REGS["ymm%d" % i] = "y%d" % i
PTR = {"BYTE": 8, "WORD": 16, "DWORD": 32, "QWORD": 64, "XMMWORD": 128, "YMMWORD": 256, "FWORD": 48, "TBYTE": 80}
OBJ_MN = {"movabs": "mov", "jae": "jae", "retq": "ret", "cs": None}


def obj_mem(txt):
    """'QWORD PTR [rax+rcx*2+0x10]' -> (size, asz, {reg: coeff}, disp, rip)"""
    m = re.match(r"(?:(\w+) PTR )?(?:\w+:)?(?:\[(.*)\]|(0x[0-9a-f]+))$", txt)
    if not m:
        return None
    size = PTR.get(m.group(1), 0) if m.group(1) else 0
    if m.group(3):       # absolute address: "ds:0x10"
        v = int(m.group(3), 16)
        return size, None, {}, v - (1 << 64) if v >= 1 << 63 else v, False
    body = m.group(2)
    co, disp, asz, rip = {}, 0, None, False
    for sign, term in re.findall(r"([+-]?)([^+-]+)", body):
        term = term.strip()
        mm = re.match(r"(\w+)\*(\d)$", term)
        if mm or term in OBJ_REGS or term in ("rip", "eip", "riz", "eiz"):
            name, k = (mm.group(1), int(mm.group(2))) if mm else (term, 1)
            if name in ("rip", "eip"):
                rip = True
                continue
            if name in ("riz", "eiz"):
                asz = asz or ("a64" if name == "riz" else "a32")
                continue
            t = OBJ_REGS[name]
            asz = asz or ("a64" if t[0] == "q" else "a32")
            co[int(t[1:])] = co.get(int(t[1:]), 0) + k
        else:
            v = int(term, 16)
            disp += -v if sign == "-" else v
    return size, asz, co, disp, rip


def objdump(codes):
    """decode each byte string with objdump: list of (mnemonic, [operand texts], length) or None"""
    rec = 32
    blob = bytearray()
    for c in codes:
        blob += c[:rec - 16] + b"\x90" * (rec - len(c[:rec - 16]))
    fd, path = tempfile.mkstemp(suffix=".bin")
    os.write(fd, bytes(blob))
    os.close(fd)
    try:
        out = subprocess.run(["objdump", "-D", "-b", "binary", "-mi386:x86-64", "-M", "intel", "-w", "--no-show-raw-insn", path],
                             stdout=subprocess.PIPE, stderr=subprocess.DEVNULL).stdout.decode("latin1")
    finally:
        os.unlink(path)
    insns = {}
    addrs = []
    for ln in out.split("\n"):
        m = re.match(r"\s*([0-9a-f]+):\s+(.*)$", ln)
        if m:
            a = int(m.group(1), 16)
            insns[a] = m.group(2).strip()
            addrs.append(a)
    addrs.sort()
    nxt = {a: b for a, b in zip(addrs, addrs[1:])}
    res = []
    for k, c in enumerate(codes):
        a = k * rec
        if a not in insns or a not in nxt:
            res.append(None)
            continue
        res.append((insns[a], nxt[a] - a, a))
    return res


def obj_tokens(text, length, addr):
    """objdump text -> (mnemonic, [comparable operand tuples]) in the reference decoder's terms"""
    text = re.sub(r"\s+#.*$", "", text)
    text = re.sub(r"^(data16|rex\.\w+|rex|addr32|repz|repnz|notrack|bnd|cs|ds)\s+", "", text)
    m = re.match(r"(\S+)\s*(.*)$", text)
    mn, rest = m.group(1), m.group(2)
    ops = []
    if rest:
        depth, cur = 0, ""
        for ch in rest:
            if ch == "[":
                depth += 1
            if ch == "]":
                depth -= 1
            if ch == "," and depth == 0:
                ops.append(cur.strip())
                cur = ""
            else:
                cur += ch
        ops.append(cur.strip())
    toks = []
    for o in ops:
        if o in OBJ_REGS:
            toks.append(("reg", OBJ_REGS[o]))
        elif "[" in o or re.search(r"\b[a-z]s:0x", o):
            toks.append(("mem", obj_mem(o)))
        elif re.match(r"-?0x[0-9a-f]+$|-?\d+$", o):
            toks.append(("num", int(o, 16) if "x" in o else int(o)))
        else:
            toks.append(("?", o))
    return mn, toks, length, addr


def spec_vs_objdump(spec_s, obj, ncode=None):
    """None if the Lean decoder's reading and objdump's agree, else a reason. obj = (text, length, addr) or None"""
    if obj is not None and ncode is not None and obj[1] > ncode:
        # objdump read into the padding behind the byte string: the string is a truncated instruction, which the
        # reference decoder rejects
        return None if spec_s == "?" else "spec accepts a truncated instruction"
    if obj is None:
        return None if spec_s == "?" else "objdump has no instruction here"
    mn, toks, length, addr = obj_tokens(*obj)
    if spec_s == "?":
        return None if mn in ("(bad)", ".byte") else "spec rejects, objdump reads %s" % mn
    parts = spec_s.split(" ; ")
    g = parse_dec(parts[0])
    if g is None:
        return "spec output unparsable"
    smn, sops, slen = g
    if slen != length:
        return "length %d vs objdump %d (%s)" % (slen, length, obj[0])
    alias = {"movabs": "mov", "movq": "movq", "movd": "movd", "call": "call", "jmp": "jmp", "xchg": "xchg", "pause": "nop"}
    omn = alias.get(mn, mn)
    if smn in ("callf", "jmpf"):
        smn = smn[:-1]
    if smn == "nop" and omn in ("nop", "xchg", "data16"):
        return None
    if {smn, omn} <= {"movd", "movq"}:
        omn = smn
    if smn != omn:
        return "mnemonic %s vs objdump %s" % (smn, omn)
    if len(sops) != len(toks):
        # shift by 1: objdump prints "shl eax,1"; fine. otherwise report
        return "operand count %d vs objdump %d (%s)" % (len(sops), len(toks), obj[0])
    for a, (kind, v) in zip(sops, toks):
        if kind == "reg":
            if a != v:
                return "register %s vs objdump %s" % (a, v)
        elif kind == "mem":
            ml = mem_linear(a)
            if ml is None or v is None:
                return "memory operand unparsable (%s)" % obj[0]
            size, asz, rip, co, d = ml
            osz, oasz, oco, od, orip = v
            if co != oco or (d - od) % (1 << 64) not in (0,) or rip != orip or (oasz and asz != oasz):
                return "memory %s vs objdump %s" % (a, obj[0])
            if osz not in (0, 48, 80) and size not in (0,) and osz != size:
                return "memory width %d vs objdump %d (%s)" % (size, osz, obj[0])
        elif kind == "num":
            if a.startswith("rel"):
                d = int(a.split(":")[1])
                if (addr + length + d - v) % (1 << 64) != 0:
                    return "branch target %s vs objdump %s" % (a, obj[0])
            elif a.startswith("i"):
                bits, val = a[1:].split(":")
                if (int(val) - v) % (1 << int(bits)) != 0:
                    return "immediate %s vs objdump %s" % (a, obj[0])
            else:
                return "operand kind %s vs objdump %s" % (a, obj[0])
        else:
            return "objdump operand not understood: %s" % obj[0]
    return None
