/-
  AL.Impl.Prefix — src/prefix.c.
-/
import AL.Impl.InstrParser
namespace AL.Impl
open AL AL.Gen

def band (a b : Nat) : Bool := a &&& b != 0

/-- `overide_opd_size`. -/
def overrideOpdSize (k : Keywords) (rm : Nat) : Nat :=
  if k.isByte then rm &&& c_SET_BYTE
  else if k.isWord then rm &&& c_SET_WORD
  else if k.isDword then rm &&& c_SET_DWORD
  else if k.isQword then rm ||| c_reg64
  else rm

/-- `get_vector_rex_prefix`. -/
def getVectorRexPrefix (memDisp : Bool) (m r : Nat) : Nat :=
  let mm := m &&& c_MODE_MASK
  let p0 := if c_reg64 ≤ mm && mm ≤ c_ext64 && !memDisp then c_rex_w else c_rex_
  if (m &&& c_REG_MASK) > c_mm7 || (r &&& c_REG_MASK) > c_mm7 then
    let p1 := if (r &&& c_REG_MASK) > c_mm7 then p0 + c_rex_r else p0
    if (m &&& c_REG_MASK) > c_mm7 || band m c_REG_RB then p1 + c_rex_b else p1
  else if memDisp then (if band m c_ext8 then c_rex_ + c_rex_b else 0)
  else if mm == c_mmx64 then 0
  else if m == c_reg_none || r == c_reg_none then 0
  else
    let p1 := if mm < c_reg64 && !band m c_REG_RB then 0 else p0
    if band m c_REG_RB || band r c_REG_RB then p1 + c_rex_b else p1

/-- `get_rex_prefix(all_instr, m, r)`: sets `hex.is_w0`, returns the prefix value. -/
def getRexPrefix (s : Instr) (m r : Operand) : Instr × Nat :=
  -- (the base register of a memory operand says nothing about the operand size)
  let isW0 := !(((if s.memDisp then r.reg else m.reg) &&& c_MODE_MASK) < c_reg64)
  let s := { s with hex := { s.hex with isW0 := isW0 } }
  if (m.reg &&& c_MODE_MASK) == c_mmx64 || (r.reg &&& c_MODE_MASK) == c_mmx64 then
    let v := getVectorRexPrefix s.memDisp m.reg r.reg
    -- the index register of the memory operand is part of the x64 extended set
    (s, if m.index != c_reg_none && band m.index c_REG_RB then v ||| c_rex_ ||| c_rex_x else v)
  else
    let rm := if s.kw.any then overrideOpdSize s.kw m.reg else m.reg
    let rex := 0
    let rex := if !s.kw.any && !band rm c_reg_none && !band rm c_MODE_MASK && rm ≥ c_spl
               then rex ||| c_rex_ else rex
    let rex := if !band r.reg c_reg_none && !band r.reg c_MODE_MASK && r.reg ≥ c_spl
               then rex ||| c_rex_ else rex
    let rex := if band r.reg c_REG_RB then rex ||| c_rex_r else rex
    let rex := if band rm c_REG_RB then rex ||| c_rex_b else rex
    let rex := if band m.index c_REG_RB then rex ||| c_rex_x else rex
    let rex := if band rm c_reg64 || band r.reg c_reg64 then rex ||| c_rex_w else rex
    (s, if band rex c_REX_W_RXB then c_rex_ ||| rex else 0)

/-- does the "sib with no base" rule of get_reg apply to this operand? -/
def noBaseFires (m : Operand) : Bool := m.reg == c_reg_none && m.index != c_reg_none

/-- the index became the base: SIB 0x24 for rsp/r12, mod 01 and a zero byte for rbp/r13 -/
def baseFixups (s : Instr) (m : Operand) : Instr :=
  let s := if (m.reg &&& c_VALUE_MASK) == c_spl && m.index == c_reg_none then { s with isSibConst := true } else s
  let regOpd := m.reg &&& c_MODE_MASK
  if regOpd > c_ext16 && regOpd < c_mmx64 && s.memOffset == 0 && (m.reg &&& c_VALUE_MASK) == c_bpl
  then { s with modDisp := c_MOD8, zeroByte := true } else s

/-- without a base the displacement is 32 bits wide: a one-byte displacement is sign extended
    (`(uint32_t)(int8_t)mem_offset`) and mod becomes 00 -/
def noBaseDisp (s : Instr) : Instr :=
  let off := if s.modDisp == c_MOD8
             then (if s.memOffset % 256 ≥ 128 then s.memOffset % 256 + 0xffffff00 else s.memOffset % 256)
             else s.memOffset
  { s with memOffset := off, modDisp := 0 }

/-- first part of `get_reg`: a memory operand with index but without base register
    ("sib with no base") is rewritten, depending on NASM_SIB_NO_BASE and the scale -/
def noBaseAdjust (opt : Nat) (s : Instr) (m : Operand) : Instr × Operand :=
  if noBaseFires m then
    let (s, m) :=
      if band opt c_NASM_SIB_NO_BASE then
        if s.sibDisp == c_SIB then (s, { m with reg := m.index, index := c_reg_none })
        else if s.sibDisp == c_SIB2 then ({ s with sibDisp := c_SIB }, { m with reg := m.index })
        else ({ s with noBase := true }, { m with reg := c_NO_BASE })
      else ({ s with noBase := true }, { m with reg := c_NO_BASE })
    if m.reg == c_NO_BASE then (noBaseDisp s, m) else (baseFixups s m, m)
  else (s, m)

/-- second part of `get_reg`: ModRM (and SIB) from the adjusted operand -/
def getRegFinish (s : Instr) (m : Operand) (r : Nat) : R Instr :=
  if m.index == c_reg_none then
    .ok { s with hex := { s.hex with
            reg := s.modDisp ||| ((r &&& c_VALUE_MASK) <<< 3) ||| (m.reg &&& c_VALUE_MASK) } }
  else if (m.index &&& c_REG_MASK) == c_spl &&
          ((m.reg &&& c_REG_MASK) == c_spl || s.sibDisp != 0) then .error .fail
  else
    .ok { s with
      isSib := true
      hex := { s.hex with
        sib := s.sibDisp ||| ((m.index &&& c_VALUE_MASK) <<< 3) ||| (m.reg &&& c_VALUE_MASK)
        reg := s.modDisp ||| ((r &&& c_VALUE_MASK) <<< 3) ||| c_rex_r } }

/-- `get_reg(instrc, &instrc->opd[mi], r)`; `r` is the C `int` as 32-bit two's complement. -/
def getReg (opt : Nat) (s : Instr) (mi : Nat) (r : Nat) : R Instr :=
  let sm := noBaseAdjust opt s (s.opd mi)
  getRegFinish (sm.1.setOpd mi sm.2) sm.2 r

end AL.Impl
