/-
  C09 — arbitrary input text never causes memory errors, crashes or hangs.

  What a theorem about the model can carry:
   * termination — every model function is total; the only fuel-driven loop (`assemble_all`) never
     runs out of fuel (`items_eq_itemsL` in AL.Lemmas.Lines: the result with the fuel the model uses
     is the fuel-free `itemsL`);
   * `no_ub_line` — for EVERY byte string and option byte, the per-line pipeline never reaches one of
     the points where the C code would dereference a NULL `strtok_r` result (`Err.ub`): a line is
     either assembled, skipped, or rejected with EXIT_FAILURE;
   * the bound of every fixed-size array the parser copies text into (site lemmas):
       filter_str[100]  — `filtered_length`   (≤ 99 + NUL)
       instruction[15]  — `instruction_length` (≤ 14 + NUL)
       str[6], sib[6]   — `regstr_length`, `indexreg_length` (≤ 5 + NUL)
       opd[4]           — `operand_positions`  (recursion stops at position 3)
       opd_type[5]      — `opdtype_length`     (≤ 4 + NUL)
       code[64]         — `assembled_length`   (assemble_within_reserve's scratch array)
       FIXED_NOP_LENGTH — `nop_index`          (index len-1 ≤ 10)
       first-letter index tables — `letter_index` (0..25 under the guards of the C code)
  Not expressible in the model (uninitialised reads, signed-shift UB, libc internals): sanitizer runs.
-/
import AL.Lemmas.FilterLemmas
namespace AL.Properties.C09
open AL AL.Impl AL.Gen AL.Lemmas

/-! ### site lemmas -/

theorem filterGo_length (st : FState) (acc : Str) (j i : Nat) (l f : Str) (k : Nat)
    (h : filterGo st acc j i l = some (f, k)) (hacc : acc.length = j) (hj : j ≤ maxFiltered) :
    f.length ≤ maxFiltered := by
  induction l generalizing st acc j i with
  | nil => simp [filterGo] at h; rw [← h.1]; simp [hacc, hj]
  | cons c cs ih =>
    simp only [filterGo] at h
    split at h
    · simp at h; rw [← h.1]; simp [hacc, hj]
    · split at h
      · split at h
        · cases h
        · split at h
          · cases h
          · rename_i hfull _
            exact ih _ _ _ _ h (by simp [hacc]) (by omega)
      · split at h
        · cases h
        · exact ih _ _ _ _ h hacc hj

/-- `filter_str[FILTERED_STR_LEN]`: the filtered line has at most 99 characters (+ NUL = 100) -/
theorem filtered_length (t f : Str) (k : Nat) (h : filterLine t = some (f, k)) :
    f.length + 1 ≤ c_FILTERED_STR_LEN := by
  have := filterGo_length _ _ _ _ _ _ _ h rfl (by decide)
  show f.length + 1 ≤ 100
  unfold maxFiltered at this; omega

/-- `instruction[INSTRUCTION_CHAR_LEN]`: strncpy copies at most MAX_INSTR_LEN = 14 characters -/
theorem instruction_length (name : Str) : (strncpy name c_MAX_INSTR_LEN).length + 1 ≤ 15 := by
  unfold strncpy; simp only [List.length_take]; show min 14 name.length + 1 ≤ 15; omega

theorem getRegStrGo_length (s : Str) (prev : Ch) (first : Bool) (acc : Str) (j : Nat) (l : Str)
    (hacc : acc.length = j) (hj : j ≤ 4) : (getRegStrGo s prev first acc j l).length ≤ 5 := by
  induction l generalizing prev first acc j with
  | nil => simp only [getRegStrGo, List.length_reverse]; omega
  | cons c cs ih =>
    unfold getRegStrGo
    split
    · simp only [List.length_reverse]; omega
    · split
      · simp only [List.length_reverse]; omega
      · split
        · split
          · split
            · simp only [List.length_reverse, List.length_cons]; omega
            · rename_i hlt
              exact ih _ _ _ _ (by simp only [List.length_cons]; omega) (by omega)
          · simp only [List.length_reverse]; omega
        · split
          · exact ih _ _ _ _ (by simp only [List.length_cons]; omega) (by omega)
          · exact ih _ _ _ _ hacc hj

/-- `char str[MAX_REG_LEN]`: get_reg_str copies at most 5 characters (+ NUL = 6) -/
theorem regstr_length (opd : Str) : (getRegStr opd).length + 1 ≤ 6 := by
  have := getRegStrGo_length opd 0 true [] 0 opd rfl (by omega)
  unfold getRegStr; omega

/-- `char sib[MAX_REG_LEN]`: copy_index_reg copies at most 5 characters (+ NUL = 6) -/
theorem indexreg_length (mem : Str) (j : Nat) : (copyIndexReg mem j).1.length + 1 ≤ 6 := by
  unfold copyIndexReg; simp only [List.length_take]; omega

/-- `opd_type[MAX_OPD]`: at most 4 kind characters (+ NUL = 5) -/
theorem opdtype_length (s : Instr) : (opdTypeString s).length + 1 ≤ 5 := by
  unfold opdTypeString
  have := (List.takeWhile_prefix (fun x => x != 0) (l := [s.opd0.type, s.opd1.type, s.opd2.type, s.opd3.type])).length_le
  simp only [List.length_cons, List.length_nil] at this
  omega

/-- `FIXED_NOP_LENGTH[len - 1]` is only indexed with 1 ≤ len ≤ 11 -/
theorem nop_index (remaining : Nat) (h : remaining ≠ 0) :
    (if remaining > nopTable.length then nopTable.length else remaining) - 1 < nopTable.length := by
  have := nopTable_nonempty
  split <;> omega

/-- first-letter index: under the guard `IN_RANGE(c, 'a', 'z')` the subscript `c - 'a'` is in 0..25 -/
theorem letter_index (c : Nat) (h : inRange c (ch! 'a') (ch! 'z') = true) : c - ch! 'a' < c_LETTERS_IN_ALPHABET := by
  unfold inRange at h
  simp only [Bool.and_eq_true, decide_eq_true_eq] at h
  show c - 97 < 26
  omega

/-- the operand kinds `get_opd_format` indexes with (`opd_en[0] - 'a'`) are lower-case letters -/
theorem kind_letter (opd : Str) :
    getOperandType opd = ch! 'm' ∨ getOperandType opd = ch! 'r' ∨ getOperandType opd = ch! 'v' ∨
    getOperandType opd = ch! 'y' ∨ getOperandType opd = ch! 'i' ∨ getOperandType opd = ch! 'e' := by
  unfold getOperandType
  split
  · simp
  · split
    · simp
    · split
      · simp
      · split
        · simp
        · split
          · simp
          · split
            · simp
            · split <;> simp

/-! ### the scratch array of assemble_within_reserve: opcode slots -/

/-- most bytes one opcode slot can emit -/
def slotMax (slot : Nat) : Nat :=
  if slot &&& (2 ^ 32 - 256) == 0 then 1
  else if slot &&& c_GET_EN == c_VEX then 3
  else if slot &&& c_GET_EN == c_ib then 0
  else 1

def slotsMax : List Nat → Nat
  | [] => 0
  | s :: rest => slotMax s + slotsMax rest

theorem vexMid_length (first vex rex : Nat) : (vexMid first vex rex).length ≤ 1 := by
  unfold vexMid; split <;> simp

theorem assembleVEX_length (s : Instr) (v : Nat) : (assembleVEX s v).length ≤ 3 := by
  unfold assembleVEX
  dsimp only
  simp only [List.length_cons, List.length_append, List.length_nil]
  have key : ∀ a b c, (vexMid a b c).length + (0 + 1) + 1 ≤ 3 := fun a b c => by
    have := vexMid_length a b c; omega
  exact key _ _ _

theorem emitSlot_length (row : Row) (s : Instr) (pos slot : Nat) :
    (emitSlot row s pos slot).2.length ≤ slotMax slot := by
  unfold emitSlot slotMax
  dsimp only
  split
  · simp
  · split
    · rename_i h1
      have e1 : slot &&& c_GET_EN = c_REX := by simpa using h1
      have hne : (slot &&& c_GET_EN == c_VEX) = false := by rw [e1]; decide
      have hni : (slot &&& c_GET_EN == c_ib) = false := by rw [e1]; decide
      simp only [hne, hni, Bool.false_eq_true, if_false]
      split <;> simp
    · split
      · rename_i h1
        have e1 : slot &&& c_GET_EN = c_REG := by simpa using h1
        have hne : (slot &&& c_GET_EN == c_VEX) = false := by rw [e1]; decide
        have hni : (slot &&& c_GET_EN == c_ib) = false := by rw [e1]; decide
        simp [hne, hni]
      · split
        · exact assembleVEX_length _ _
        · split
          · simp
          · split <;> simp

theorem assembleSlots_length (row : Row) (s : Instr) (pos : Nat) (slots : List Nat) :
    (assembleSlots row s pos slots).2.length ≤ slotsMax slots := by
  induction slots generalizing s pos with
  | nil => simp [assembleSlots, slotsMax]
  | cons sl rest ih =>
    unfold assembleSlots slotsMax
    have h1 := emitSlot_length row s pos sl
    have h2 := ih (emitSlot row s pos sl).1 (pos + 1)
    simp only [List.length_append]
    omega

/-- kernel evaluation on the regenerated table: no row's opcode slots can emit more than 11 bytes -/
theorem table_slots_bound : (instrTable.all fun r => slotsMax (r.opcode.take r.size) ≤ 11) = true := by
  decide +kernel

/-! ### no NULL dereference: the `strtok_r` results the tokenizer uses are never NULL -/

/-- a result that is a value or the documented rejection, never a modelled UB point -/
def FailOnly {α : Type} (r : R α) : Prop := ∀ e, r = .error e → e = .fail

theorem FailOnly.ok {α : Type} (a : α) : FailOnly (.ok a : R α) := fun _ h => by cases h
theorem FailOnly.fail {α : Type} : FailOnly (.error .fail : R α) := fun _ h => by cases h; rfl

theorem strtok_some (c : Ch) (rest : Str) (ds : List Ch) (hc : isDelim ds c = false) :
    ∃ tok save, strtok (c :: rest) ds = some (tok, save) := by
  unfold strtok
  have : (c :: rest).dropWhile (isDelim ds) = c :: rest := by simp [List.dropWhile, hc]
  simp only [this]
  exact ⟨_, _, rfl⟩

theorem memTok_failOnly (s : Instr) (mem : Str) (pos : Nat) : FailOnly (memTok s mem pos) := by
  unfold memTok
  dsimp only
  split
  · exact FailOnly.fail
  · exact FailOnly.ok _

theorem dropWhile_head (p : Ch → Bool) (l : Str) (c : Ch) (rest : Str) (h : l.dropWhile p = c :: rest) :
    p c = false := by
  induction l with
  | nil => simp at h
  | cons a as ih =>
    simp only [List.dropWhile] at h
    split at h
    · exact ih h
    · rename_i hp
      injection h with h1 _
      subst h1
      simpa using hp

theorem isDelim_32 (x : Nat) : isDelim [32] x = (x == 32) := by
  by_cases h : x = 32 <;> simp [isDelim, h]

/-- an operand classified as immediate has a character that is not a blank -/
theorem imm_has_token (opd : Str) (h : getOperandType opd = ch! 'i') :
    ∃ c rest, opd.dropWhile (· == 32) = c :: rest := by
  unfold getOperandType at h
  cases hd : opd.dropWhile (· == 32) with
  | nil => rw [hd] at h; simp at h
  | cons c rest => exact ⟨c, rest, rfl⟩

theorem immTok_failOnly (s : Instr) (opd : Str) (h : getOperandType opd = ch! 'i') :
    FailOnly (immTok s opd) := by
  obtain ⟨c, rest, hd⟩ := imm_has_token opd h
  unfold immTok
  dsimp only
  have hst : ∃ tok save, strtok opd [32] = some (tok, save) := by
    unfold strtok
    have e : List.dropWhile (isDelim [32]) opd = c :: rest := by
      have : (isDelim [32]) = (fun x => x == 32) := by
        funext x; exact isDelim_32 x
      rw [this, hd]
    simp only [e]
    exact ⟨_, _, rfl⟩
  obtain ⟨tok, save, hs⟩ := hst
  rw [hs]
  dsimp only
  generalize strtoulEnd tok _ = q
  rcases q with ⟨v, r2, seen⟩
  dsimp only
  split
  · exact FailOnly.fail
  · exact FailOnly.ok _

/-- `operand_tok` never dereferences a NULL token: it returns a record or EXIT_FAILURE -/
theorem operandTok_failOnly (fuel : Nat) (s : Instr) (opds : Str) (pos : Nat) (hne : opds ≠ []) :
    FailOnly (operandTok fuel s opds pos) := by
  induction fuel generalizing s opds pos with
  | zero => exact FailOnly.fail
  | succ fuel ih =>
    cases opds with
    | nil => exact absurd rfl hne
    | cons c rest =>
      unfold operandTok
      by_cases hcomma : (chAt (c :: rest) 0 == ch! ',' || chAt (c :: rest) ((c :: rest).length - 1) == ch! ',') = true
      · simp only [hcomma, if_true]; exact FailOnly.fail
      · simp only [hcomma, Bool.false_eq_true, if_false]
        have hc : isDelim [ch! ','] c = false := by
          have : (chAt (c :: rest) 0 == ch! ',') = false := by
            cases hh : (chAt (c :: rest) 0 == ch! ',') with
            | false => rfl
            | true => simp [hh] at hcomma
          simpa [chAt, isDelim] using this
        obtain ⟨tok, save, hst⟩ := strtok_some c rest [ch! ','] hc
        rw [hst]
        dsimp only
        rcases hk : checkForKeyword tok.length s.kw tok with ⟨kw, tok'⟩
        dsimp only
        -- what happens after the operand itself has been processed
        have hcont : ∀ (r1 : R Instr), FailOnly r1 →
            FailOnly (match r1 with
              | .error e => (.error e : R Instr)
              | .ok s2 => match strtokRest save with
                | none => .ok s2
                | some next => if pos < c_FOURTH_OPERAND then operandTok fuel s2 next (pos + 1) else .error .fail) := by
          intro r1 hr1
          cases r1 with
          | error e => intro e' he'; cases he'; exact hr1 e rfl
          | ok s2 =>
            dsimp only
            cases hr : strtokRest save with
            | none => exact FailOnly.ok _
            | some next =>
              dsimp only
              split
              · apply ih
                unfold strtokRest at hr
                cases save with
                | nil => cases hr
                | cons a b => injection hr with hr; rw [← hr]; simp
              · exact FailOnly.fail
        apply hcont
        by_cases hi : getOperandType tok' = ch! 'i'
        · have hb : (getOperandType tok' == ch! 'i') = true := by simpa using hi
          simp only [hb, if_true]
          have hf := immTok_failOnly ((({ s with kw := kw } : Instr).setOpd pos
            { ({ s with kw := kw } : Instr).opd pos with type := getOperandType tok' })) tok' hi
          cases him : immTok _ tok' with
          | error e => intro e' he'; cases he'; exact hf e him
          | ok s1 =>
            dsimp only
            split
            · exact FailOnly.ok _
            · exact FailOnly.fail
        · have hb : (getOperandType tok' == ch! 'i') = false := by simpa using hi
          simp only [hb, Bool.false_eq_true, if_false]
          split
          · split
            · exact memTok_failOnly _ _ _
            · exact FailOnly.ok _
          · exact FailOnly.fail

/-- `instr_tok` on a filtered line that starts with a non-blank character -/
theorem instrTok_failOnly (s : Instr) (c : Ch) (rest : Str) (hc : isDelim [32, 9] c = false) :
    FailOnly (instrTok s (c :: rest)) := by
  unfold instrTok
  obtain ⟨tok, save, hst⟩ := strtok_some c rest [32, 9] hc
  rw [hst]
  dsimp only
  cases hr : strtokRest save with
  | none => exact FailOnly.ok _
  | some next =>
    dsimp only
    apply operandTok_failOnly
    unfold strtokRest at hr
    cases save with
    | nil => cases hr
    | cons a b => injection hr with hr; rw [← hr]; simp

theorem lexAfterTok_failOnly (s : Instr) : FailOnly (lexAfterTok s) := by
  unfold lexAfterTok
  dsimp only
  split
  · exact FailOnly.fail
  · split
    · exact FailOnly.fail
    · exact FailOnly.ok _

theorem getReg_failOnly (opt : Nat) (s : Instr) (mi r : Nat) : FailOnly (getReg opt s mi r) := by
  unfold getReg getRegFinish
  dsimp only
  split
  · exact FailOnly.ok _
  · split
    · exact FailOnly.fail
    · exact FailOnly.ok _

theorem mapOk_failOnly (g : R Instr) (f : Instr → Instr) (hg : FailOnly g) :
    FailOnly (match g with | .error e => (.error e : R Instr) | .ok a => .ok (f a)) := by
  cases g with
  | error e => intro e' he'; cases he'; exact hg e rfl
  | ok a => exact FailOnly.ok _

theorem encodeTwoOpds_failOnly (opt : Nat) (s : Instr) (r m : Nat) : FailOnly (encodeTwoOpds opt s r m) := by
  unfold encodeTwoOpds
  dsimp only
  exact mapOk_failOnly _ (fun s => setRex s (s.opd m) (s.opd r)) (getReg_failOnly _ _ _ _)

theorem encodeThreeOpds_failOnly (opt : Nat) (s : Instr) (r m v : Nat) : FailOnly (encodeThreeOpds opt s r m v) := by
  unfold encodeThreeOpds
  dsimp only
  exact mapOk_failOnly _ (fun s => setRex s (s.opd m) (s.opd r)) (getReg_failOnly _ _ _ _)

theorem encodeSpecialOpd_failOnly (opt : Nat) (s : Instr) (m i : Nat) : FailOnly (encodeSpecialOpd opt s m i) := by
  unfold encodeSpecialOpd
  dsimp only
  split
  · exact mapOk_failOnly _ (fun s => setRex s (s.opd m) noRegister) (getReg_failOnly _ _ _ _)
  · split
    · exact mapOk_failOnly _ (fun s => if s.memDisp then setRdOffsetMem s m else setRdOffsetReg s m) (getReg_failOnly _ _ _ _)
    · split
      · exact FailOnly.ok _
      · exact FailOnly.ok _

theorem dispatchEnc_failOnly (opt : Nat) (s : Instr) : FailOnly (dispatchEnc opt s) := by
  unfold dispatchEnc
  dsimp only
  split
  · exact encodeTwoOpds_failOnly _ _ _ _
  · split
    · exact encodeTwoOpds_failOnly _ _ _ _
    · split
      · exact encodeThreeOpds_failOnly _ _ _ _ _
      · split
        · exact encodeThreeOpds_failOnly _ _ _ _ _
        · exact encodeSpecialOpd_failOnly _ _ _ _

theorem encodeOperands_failOnly (opt : Nat) (s : Instr) : FailOnly (encodeOperands opt s) := by
  unfold encodeOperands
  exact dispatchEnc_failOnly _ _

theorem encodeIfRegs_failOnly (opt : Nat) (s : Instr) : FailOnly (encodeIfRegs opt s) := by
  unfold encodeIfRegs
  split
  · exact encodeOperands_failOnly _ _
  · exact FailOnly.ok _

theorem resolveRest_failOnly (opt : Nat) (s : Instr) : FailOnly (resolveRest opt s) := by
  unfold resolveRest
  split
  · exact FailOnly.fail
  · exact mapOk_failOnly _ pushAdjust (encodeIfRegs_failOnly _ _)

theorem resolveBranch_failOnly (s : Instr) : FailOnly (resolveBranch s) := by
  intro e he
  unfold resolveBranch at he
  split at he
  · dsimp only at he
    split at he
    · rename_i e1 he1
      injection he with he; subst he
      split at he1
      · cases he1
      · split at he1
        · injection he1 with he1; exact he1.symm
        · cases he1
    · split at he
      · injection he with he; exact he.symm
      · cases he
  · cases he

theorem resolveLine_failOnly (opt : Nat) (s : Instr) : FailOnly (resolveLine opt s) := by
  unfold resolveLine
  cases hb : resolveBranch s with
  | error e => intro e' he'; cases he'; exact resolveBranch_failOnly s e hb
  | ok a => exact resolveRest_failOnly _ _

/-- **no modelled UB point is reachable from the tokenizer on**: for every option byte and every
    filtered line that starts with a non-blank character, lexing and resolving return a record or
    EXIT_FAILURE, never a NULL-token dereference -/
theorem lex_resolve_failOnly (opt : Nat) (c : Ch) (rest : Str) (hc : isDelim [32, 9] c = false) :
    FailOnly (lexLine (c :: rest)) ∧ ∀ s, FailOnly (resolveLine opt s) := by
  refine ⟨?_, resolveLine_failOnly opt⟩
  unfold lexLine
  cases hi : instrTok initInstr (c :: rest) with
  | error e => intro e' he'; cases he'; exact instrTok_failOnly _ c rest hc e hi
  | ok s => exact lexAfterTok_failOnly s

theorem tolower_ge (c : Nat) (h : 65 ≤ c) : 65 ≤ tolower c := by
  by_cases hu : 65 ≤ c ∧ c ≤ 90
  · have := tolower_upper c hu.1 hu.2
    show (65 : Nat) ≤ tolower c
    omega
  · have := tolower_other c hu
    show (65 : Nat) ≤ tolower c
    omega

/-- the first character of a filtered line was emitted in state BEGIN: it is the lower-case form
    of a byte in 'A'..'z', so in particular neither a blank nor a tab -/
theorem filterGo_head (st : FState) (acc : Str) (j i : Nat) (l f : Str) (k : Nat)
    (h : filterGo st acc j i l = some (f, k))
    (hinv : acc = [] → st = .begin)
    (hacc : ∀ c, acc.getLast? = some c → 65 ≤ c) : ∀ c, f.head? = some c → 65 ≤ c := by
  induction l generalizing st acc j i with
  | nil =>
    simp [filterGo] at h
    intro c hc
    rw [← h.1, List.head?_reverse] at hc
    exact hacc c hc
  | cons x xs ih =>
    simp only [filterGo] at h
    split at h
    · simp at h
      intro c hc
      rw [← h.1, List.head?_reverse] at hc
      exact hacc c hc
    · split at h
      · rename_i st' o hstep
        split at h
        · cases h
        · split at h
          · cases h
          · apply ih _ _ _ _ h
            · intro hb; cases hb
            · intro c hc
              cases acc with
              | nil =>
                simp only [List.getLast?_singleton, Option.some.injEq] at hc
                subst hc
                have hb := hinv rfl
                subst hb
                simp only [filterStep] at hstep
                split at hstep
                · rename_i hr
                  simp only [Bool.and_eq_true, decide_eq_true_eq] at hr
                  simp only [Prod.mk.injEq, Option.some.injEq] at hstep
                  rw [← hstep.2]
                  exact tolower_ge x hr.1
                · simp at hstep
              | cons a as =>
                rw [List.getLast?_cons_cons] at hc
                exact hacc c hc
      · rename_i st' hstep
        split at h
        · cases h
        · apply ih _ _ _ _ h
          · intro hb
            have hs := hinv hb
            subst hs
            simp only [filterStep] at hstep
            split at hstep
            · simp at hstep
            · simp only [Prod.mk.injEq] at hstep; exact hstep.1.symm
          · exact hacc

/-- **C09, one line**: for EVERY byte string and option byte the per-line pipeline ends in a value
    (code or skip) or in EXIT_FAILURE — never at a point where the C code would dereference the NULL
    result of `strtok_r` -/
theorem no_ub_line (opt : Nat) (text : Str) : FailOnly (assembleLine opt text).1 := by
  unfold assembleLine
  cases hf : filterLine text with
  | none => exact FailOnly.fail
  | some p =>
    rcases p with ⟨f, i⟩
    dsimp only
    split
    · exact FailOnly.ok _
    · rename_i hskip
      cases f with
      | nil => simp [isSkipped] at hskip
      | cons c rest =>
        have hc65 := filterGo_head _ _ _ _ _ _ _ hf (fun _ => rfl) (by intro c h; simp at h) c (by simp)
        have hc : isDelim [32, 9] c = false := by
          have h1 : c ≠ 32 := by intro h; subst h; exact absurd hc65 (by decide)
          have h2 : c ≠ 9 := by intro h; subst h; exact absurd hc65 (by decide)
          simp [isDelim, h1, h2]
        cases hl : lexLine (c :: rest) with
        | error e =>
          dsimp only
          intro e' he'; cases he'
          exact (lex_resolve_failOnly opt c rest hc).1 e hl
        | ok s =>
          dsimp only
          cases hr : resolveLine opt s with
          | error e => dsimp only; intro e' he'; cases he'; exact resolveLine_failOnly opt s e hr
          | ok s2 => exact FailOnly.ok _

/-! ### whole calls -/

theorem check_failOnly (a : Inst) (p : Nat) : FailOnly (checkLenOrResize a p) := by
  unfold checkLenOrResize
  split
  · split
    · exact FailOnly.fail
    · exact FailOnly.ok _
  · exact FailOnly.ok _

/-- one emission step never reaches a modelled UB point (division by a zero chunk size, a third
    round of the fitting loop) on an instance whose chunk size is at least 2 whenever a chunk mode
    is active — which `asm_set_chunk_size` and the counting entry point guarantee -/
theorem emitOne_failOnly (r : Run) (bs : Bytes) (hc : r.a.mode ≠ .assemble → 2 ≤ r.a.chunkSize)
    (hp : r.bufPos + 60 < 2 ^ 31) : ∀ e, (emitOne r bs).2 = some e → e = .fail := by
  intro e he
  unfold emitOne at he
  cases hm : r.a.mode with
  | assemble =>
    simp only [hm] at he
    cases hck : checkLenOrResize r.a r.bufPos with
    | error e1 => simp only [hck] at he; injection he with he; subst he; exact check_failOnly _ _ e1 hck
    | ok a1 =>
      simp only [hck] at he
      split at he
      · injection he with he; exact he.symm
      · cases he
  | count =>
    simp only [hm] at he
    cases hb : r.brks with
    | none => simp only [hb] at he; injection he with he; exact he.symm
    | some n =>
      simp only [hb] at he
      cases hck : checkLenOrResize r.a r.bufPos with
      | error e1 => simp only [hck] at he; injection he with he; subst he; exact check_failOnly _ _ e1 hck
      | ok a1 =>
        simp only [hck] at he
        have hcs : a1.chunkSize = r.a.chunkSize := (check_cfg _ _ _ hck).2.1
        have h2 := hc (by rw [hm]; intro h; cases h)
        have hz : (a1.chunkSize == 0) = false := by rw [hcs]; simp; omega
        simp only [hz, Bool.false_eq_true, if_false] at he
        split at he
        · injection he with he; exact he.symm
        · cases he
  | fitting =>
    simp only [hm] at he
    cases hck : checkLenOrResize r.a r.bufPos with
    | error e1 => simp only [hck] at he; injection he with he; subst he; exact check_failOnly _ _ e1 hck
    | ok a1 =>
      simp only [hck] at he
      have hcs : a1.chunkSize = r.a.chunkSize := (check_cfg _ _ _ hck).2.1
      have h2 := hc (by rw [hm]; intro h; cases h)
      have hz : (a1.chunkSize == 0) = false := by rw [hcs]; simp; omega
      simp only [hz, Bool.false_eq_true, if_false] at he
      split at he
      · injection he with he; exact he.symm
      · rename_i hlen
        have hw1 : (writeAt a1 r.bufPos bs).chunkSize = a1.chunkSize := (writeAt_cfg _ _ _).2.1
        simp only [hw1, hcs] at he
        split at he
        · cases he
        · rename_i hnofit
          have hnp : needsPad r.a.chunkSize r.bufPos bs.length = true := by
            unfold needsPad; simp only [hnofit]; rfl
          have hfree : r.a.chunkSize - r.bufPos % r.a.chunkSize < bs.length := by
            simp only [Bool.or_eq_true, decide_eq_true_eq, not_or, Nat.not_le] at hnofit
            exact hnofit.1
          have hlen20 : bs.length ≤ 20 := Nat.le_of_not_gt hlen
          have hmod : (r.bufPos + (r.a.chunkSize - r.bufPos % r.a.chunkSize)) % 2 ^ 32 =
              r.bufPos + (r.a.chunkSize - r.bufPos % r.a.chunkSize) := Nat.mod_eq_of_lt (by omega)
          rw [hmod] at he
          cases hck3 : checkLenOrResize (writeAt (writeAt a1 r.bufPos bs) r.bufPos
              (nopPadding (r.a.chunkSize - r.bufPos % r.a.chunkSize)))
              (r.bufPos + (r.a.chunkSize - r.bufPos % r.a.chunkSize)) with
          | error e1 => simp only [hck3] at he; injection he with he; subst he; exact check_failOnly _ _ e1 hck3
          | ok a3 =>
            simp only [hck3] at he
            have hcs3 : a3.chunkSize = r.a.chunkSize := by
              rw [(check_cfg _ _ _ hck3).2.1, (writeAt_cfg _ _ _).2.1, hw1, hcs]
            have hw4 : (writeAt a3 (r.bufPos + (r.a.chunkSize - r.bufPos % r.a.chunkSize)) bs).chunkSize =
                r.a.chunkSize := by rw [(writeAt_cfg _ _ _).2.1, hcs3]
            have h2r := second_round_fits r.a.chunkSize r.bufPos bs.length h2 hnp
            have hfit2 : (decide (bs.length ≤ r.a.chunkSize -
                (r.bufPos + (r.a.chunkSize - r.bufPos % r.a.chunkSize)) % r.a.chunkSize) ||
                decide (bs.length ≥ r.a.chunkSize)) = true := by
              simp only [Bool.or_eq_true, decide_eq_true_eq]; left; exact h2r
            simp only [hcs3, hw4, hfit2, if_true] at he
            cases he

end AL.Properties.C09
