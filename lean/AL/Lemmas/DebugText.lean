/-
  AL.Lemmas.DebugText — what `-p` prints can be read back: `parseHexOut (printInstr bs) = bs`, `parseHexOut (printChunks c bs) = bs`
  for EVERY byte list and chunk size, and for any sequence of printed instructions the bytes come back in order.
-/
import AL.Impl.Debug
import AL.Lemmas.Run
namespace AL.Lemmas.DebugText
open AL AL.Impl

theorem hexValL_digit (n : Nat) (h : n < 16) : hexValL (hexDigitL n) = some n := by
  unfold hexValL hexDigitL
  by_cases h10 : n < 10
  · have h1 : 48 ≤ 48 + n ∧ 48 + n ≤ 57 := ⟨by omega, by omega⟩
    simp only [h10, if_true, h1, and_self]
    congr 1
    omega
  · have h1 : ¬ (48 ≤ 87 + n ∧ 87 + n ≤ 57) := by omega
    have h2 : 97 ≤ 87 + n ∧ 87 + n ≤ 102 := ⟨by omega, by omega⟩
    simp only [h10, if_false, h1, h2, and_self, if_true]
    congr 1
    omega

theorem hexValL_sep (c : Nat) (h : c = 10 ∨ c = 32 ∨ c = 124) : hexValL c = none := by
  unfold hexValL
  rcases h with rfl | rfl | rfl <;> decide

/-- a separator in front is skipped -/
theorem parse_sep (c : Nat) (h : c = 10 ∨ c = 32 ∨ c = 124) (rest : Str) : parseHexOut (c :: rest) = parseHexOut rest := by
  cases rest with
  | nil => rw [parseHexOut, parseHexOut]
  | cons b r =>
    rw [parseHexOut]
    rw [hexValL_sep c h]

/-- one printed byte is read back -/
theorem parse_hex2 (b : Nat) (rest : Str) : parseHexOut (hex2 b ++ rest) = (b % 256) :: parseHexOut rest := by
  unfold hex2
  simp only [List.cons_append, List.nil_append]
  rw [parseHexOut, hexValL_digit (b % 256 / 16) (by omega), hexValL_digit (b % 16) (Nat.mod_lt _ (by decide))]
  simp only
  rw [parse_sep 32 (by simp) rest]
  congr 1
  omega

theorem parse_printInstrGo (bs : Bytes) (i : Nat) (rest : Str) :
    parseHexOut (printInstrGo i bs ++ rest) = bs.map (· % 256) ++ parseHexOut rest := by
  induction bs generalizing i with
  | nil => simp only [printInstrGo, List.cons_append, List.nil_append]; exact parse_sep 10 (by simp) rest
  | cons b bs ih =>
    simp only [printInstrGo, List.append_assoc]
    by_cases h7 : (i == 7) = true
    · simp only [h7, if_true, List.cons_append, List.nil_append]
      rw [parse_sep 10 (by simp), parse_hex2 b, ih]
      simp
    · have h7' : (i == 7) = false := by simpa using h7
      simp only [h7', Bool.false_eq_true, if_false, List.nil_append]
      rw [parse_hex2 b, ih]
      simp

/-- **one printed instruction reads back as its bytes** -/
theorem parse_printInstr (bs : Bytes) (rest : Str) :
    parseHexOut (printInstr bs ++ rest) = bs.map (· % 256) ++ parseHexOut rest := parse_printInstrGo bs 0 rest

theorem parse_printChunksGo (c : Nat) (bs : Bytes) (i : Nat) (rest : Str) :
    parseHexOut (printChunksGo c i bs ++ rest) = bs.map (· % 256) ++ parseHexOut rest := by
  induction bs generalizing i with
  | nil => simp only [printChunksGo, List.cons_append, List.nil_append]; exact parse_sep 10 (by simp) rest
  | cons b bs ih =>
    simp only [printChunksGo, List.append_assoc]
    split
    · simp only [List.cons_append, List.nil_append]
      rw [parse_sep 124 (by simp), parse_sep 10 (by simp), parse_hex2 b, ih]
      simp
    · simp only [List.nil_append]
      rw [parse_hex2 b, ih]
      simp

/-- **the chunked dump reads back as the buffer**, for every chunk size -/
theorem parse_printChunks (c : Nat) (bs : Bytes) (rest : Str) :
    parseHexOut (printChunks c bs ++ rest) = bs.map (· % 256) ++ parseHexOut rest := parse_printChunksGo c bs 0 rest

/-- **a listing of instructions reads back as the concatenation of their codes** -/
theorem parse_listing (codes : List Bytes) (rest : Str) :
    parseHexOut ((codes.map printInstr).flatten ++ rest) = codes.flatten.map (· % 256) ++ parseHexOut rest := by
  induction codes with
  | nil => rfl
  | cons c cs ih =>
    simp only [List.map_cons, List.flatten_cons, List.append_assoc]
    rw [parse_printInstr c, ih]
    simp

/-- the listing shows exactly the codes the layout theorems of C06 / C13 speak about (`Lemmas.items`), in the same order -/
theorem listingGo_codes (lf : Str → R LineOut × Nat) (fuel : Nat) (text : Str) :
    (listingGo lf fuel text).1 = (AL.Lemmas.items lf fuel text).codes := by
  induction fuel generalizing text with
  | zero => rfl
  | succ n ih =>
    unfold listingGo AL.Lemmas.items
    cases text with
    | nil => rfl
    | cons c cs =>
      dsimp only
      rcases hlf : lf (c :: cs) with ⟨res, k⟩
      cases res with
      | error e => rfl
      | ok lo =>
        cases lo with
        | skip => exact ih _
        | code bs => simp only [ih]

/-- non-vacuity: a ten-byte instruction is printed in two rows and read back -/
example : parseHexOut (printInstr [0x48, 0xb8, 1, 2, 3, 4, 5, 6, 7, 8]) = [0x48, 0xb8, 1, 2, 3, 4, 5, 6, 7, 8] := by
  have := parse_printInstr [0x48, 0xb8, 1, 2, 3, 4, 5, 6, 7, 8] []
  simpa [parseHexOut] using this

end AL.Lemmas.DebugText
