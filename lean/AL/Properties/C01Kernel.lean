/-
  AL.Properties.C01Kernel — the deciding theorem of C01, restated from AL.Properties.Kernel.C01 (267 generated modules, checked by the
  kernel).  A module of its own: the quick tier of a check does not rebuild the kernel modules when the regenerated tables differ from
  the ones they were checked against (nine minutes) — it reports that the theorem is no longer established for this tree and searches for
  a failing input; `alv.py setup` and the thorough tier rebuild them.
-/
import AL.Properties.C01
import AL.Properties.Kernel.C01
namespace AL.Properties.C01
open AL AL.Impl AL.Gen AL.Spec.X86

/-! ### every register form, every register tuple, every option byte — checked by the kernel -/

open AL.Properties.Kernel in
/-- **C01 in full, kernel-checked** (no native_decide; restated from AL.Properties.Kernel.c01_every_instance): for every integer entry
    `en` of the reference opcode table whose operands are registers, every spelling `w` of its mnemonic, every instance `d` (operand
    size × encodable register tuple) and EVERY option byte, the written line exists, and the model of the library either turns it into
    bytes that the reference decoder reads back as exactly one instruction covering all of them, the written one — or rejects it, and
    then the form is outside the frozen list of supported forms.  It is never skipped. -/
theorem every_register_form (en : Enc) (hen : en ∈ entriesC01) (w : Mn) (hw : w ∈ spellings en.mn)
    (d : Dec) (hd : d ∈ enumEnc fillRegs en) (opt : Nat) :
    ∃ text, lineL w d.ops = some text ∧
      match (assembleLine opt text).1 with
      | .ok (.code bs) => ∃ g, decodeAll 4 bs = some [g] ∧ g.len = bs.length ∧ sameInstr (itemOf w d) g = true
      | .ok .skip => False
      | .error _ => supportedForm (itemOf w d) = false := by
  have h := c01_every_instance en hen w hw d hd opt
  unfold holdsAt at h
  cases hl : lineL w d.ops with
  | none => rw [hl] at h; exact absurd h (by simp)
  | some text =>
    rw [hl] at h
    refine ⟨text, rfl, ?_⟩
    dsimp only at h
    cases hr : (assembleLine opt text).1 with
    | error e => rw [hr] at h; simpa using h
    | ok lo =>
      rw [hr] at h
      cases lo with
      | skip => simp at h
      | code bs =>
        dsimp only at h ⊢
        unfold decodesTo at h
        cases hd4 : decodeAll 4 bs with
        | none => rw [hd4] at h; simp at h
        | some gs =>
          rw [hd4] at h
          match gs, h with
          | [g], h =>
            simp only [Bool.and_eq_true, beq_iff_eq] at h
            exact ⟨g, rfl, h.1, h.2⟩

open AL.Properties.Kernel in
/-- non-vacuity: `xchg r13w, ax` under an arbitrary option byte is an instance (entry, spelling, register pair) of the theorem -/
example : holdsAt 9 (mn! "xchg") { mn := mn! "xchg", ops := [.reg ⟨.gpr16, 13⟩, .reg ⟨.gpr16, 0⟩], len := 0 } = true := by decide +kernel

end AL.Properties.C01
