/*
 * faultdrv — OS fault injection over the REAL library (C17).  Linked with
 *   -Wl,--wrap=malloc,--wrap=mmap,--wrap=mremap,--wrap=munmap,--wrap=open,--wrap=fstat,--wrap=read,
 *       --wrap=close,--wrap=fopen,--wrap=fwrite,--wrap=fclose
 * so that every such call made BY THE LIBRARY OBJECTS (libc's internal calls are not redirected) goes
 * through a wrapper that can make the k-th call of one kind fail.  Calls are counted only while the
 * harness is inside a library call (in_lib), and fwrite only on streams the library opened itself.
 *
 *   faultdrv <scenario> <kind> <k> <tmpdir>
 *     scenario: create_int | create_ext | growth | file | file_count | binfile
 *     kind: none | malloc | mmap | mremap | munmap | open | fstat | read | shortread | close | fopen | fwrite | fclose
 *     k: 1-based occurrence that fails (0 = never)
 * Output: one "key=value" line per observation, then "COUNTS kind=n ...", then "END".  One process per
 * schedule: a crash is an outcome the caller sees as a signal exit without "END".
 */
#define _GNU_SOURCE 1
#include <assemblyline.h>
#include <errno.h>
#include <fcntl.h>
#include <stdarg.h>
#include <stdio.h>
#include <stdlib.h>
#include <string.h>
#include <stdint.h>
#include <sys/mman.h>
#include <sys/stat.h>
#include <unistd.h>

enum { K_MALLOC, K_MMAP, K_MREMAP, K_MUNMAP, K_OPEN, K_FSTAT, K_READ, K_CLOSE, K_FOPEN, K_FWRITE, K_FCLOSE, K_N };
static const char *KN[K_N] = {"malloc", "mmap", "mremap", "munmap", "open", "fstat", "read", "close", "fopen", "fwrite", "fclose"};
static int count[K_N];
static int fired;
static int fail_kind = -1, fail_k = 0, short_read = 0;
static int in_lib = 0;
static FILE *lib_stream = NULL;

/* the errno an injected failure reports: the usual one for the call, or the one given in FAULT_ERRNO (EINTR, EAGAIN, ...):
   whatever the reason the OS gives, a refused call is a refused call */
static int ferr(int dflt) {
  const char *e = getenv("FAULT_ERRNO");
  return (e && *e) ? atoi(e) : dflt;
}

static int hit(int kind) {
  if (!in_lib) return 0;
  count[kind]++;
  if (kind == fail_kind && count[kind] == fail_k) { fired++; return 1; }
  return 0;
}

void *__real_malloc(size_t);
void *__wrap_malloc(size_t n) {
  if (hit(K_MALLOC)) { errno = ferr(ENOMEM); return NULL; }
  return __real_malloc(n);
}
void *__real_mmap(void *, size_t, int, int, int, off_t);
static int skip_lenmatch = 0;
static size_t map_len = 0;     /* what the kernel was last asked to give the library-managed buffer */
void *__wrap_mmap(void *a, size_t l, int p, int f, int fd, off_t o) {
  if (hit(K_MMAP)) { errno = ferr(ENOMEM); return MAP_FAILED; }
  void *r = __real_mmap(a, l, p, f, fd, o);
  if (in_lib && r != MAP_FAILED) map_len = l;
  return r;
}
void *__real_mremap(void *, size_t, size_t, int, ...);
void *__wrap_mremap(void *a, size_t o, size_t n, int f, ...) {
  if (hit(K_MREMAP)) { errno = ferr(ENOMEM); return MAP_FAILED; }
  void *r = __real_mremap(a, o, n, f);
  if (in_lib && r != MAP_FAILED) map_len = n;
  return r;
}
int __real_munmap(void *, size_t);
int __wrap_munmap(void *a, size_t l) {
  if (hit(K_MUNMAP)) { errno = ferr(EINVAL); return -1; }
  return __real_munmap(a, l);
}
int __real_open(const char *, int, ...);
int __wrap_open(const char *p, int fl, ...) {
  mode_t m = 0;
  if (fl & O_CREAT) { va_list ap; va_start(ap, fl); m = va_arg(ap, mode_t); va_end(ap); }
  if (hit(K_OPEN)) { errno = ferr(EMFILE); return -1; }
  return __real_open(p, fl, m);
}
int __real_fstat(int, struct stat *);
int __wrap_fstat(int fd, struct stat *st) {
  if (hit(K_FSTAT)) { errno = ferr(EIO); return -1; }
  return __real_fstat(fd, st);
}
ssize_t __real_read(int, void *, size_t);
ssize_t __wrap_read(int fd, void *b, size_t n) {
  if (in_lib && short_read && n > 3) return __real_read(fd, b, 3);   /* every read is short */
  if (hit(K_READ)) { errno = ferr(EIO); return -1; }
  return __real_read(fd, b, n);
}
int __real_close(int);
int __wrap_close(int fd) {
  if (hit(K_CLOSE)) { __real_close(fd); errno = ferr(EIO); return -1; }
  return __real_close(fd);
}
FILE *__real_fopen(const char *, const char *);
FILE *__wrap_fopen(const char *p, const char *m) {
  if (hit(K_FOPEN)) { errno = ferr(EACCES); return NULL; }
  FILE *f = __real_fopen(p, m);
  if (in_lib) lib_stream = f;
  return f;
}
size_t __real_fwrite(const void *, size_t, size_t, FILE *);
size_t __wrap_fwrite(const void *b, size_t s, size_t n, FILE *f) {
  if (in_lib && f == lib_stream && f != NULL) {
    if (hit(K_FWRITE)) { size_t half = n / 2; __real_fwrite(b, s, half, f); errno = ferr(ENOSPC); return half; }
  }
  return __real_fwrite(b, s, n, f);
}
int __real_fclose(FILE *);
int __wrap_fclose(FILE *f) {
  if (in_lib && f == lib_stream && f != NULL) {
    lib_stream = NULL;
    if (hit(K_FCLOSE)) { __real_fclose(f); errno = ferr(ENOSPC); return EOF; }
  }
  return __real_fclose(f);
}

#define LIB(expr) (in_lib = 1, (expr))
#define OUT() (in_lib = 0)

static void hexdump(const char *key, const uint8_t *p, int n) {
  printf("%s=", key);
  for (int i = 0; i < n; i++) printf("%02x", p[i]);
  printf("\n");
}

static char path[512];

static void write_file(const char *p, const char *text) {
  FILE *f = __real_fopen(p, "wb");
  if (!f) { printf("harness=cannot-write\n"); exit(3); }
  __real_fwrite(text, 1, strlen(text), f);
  __real_fclose(f);
}

static const char *P1 = "mov rax, 0x1122334455667788\nadd rax, rcx\nret\n";
static const char *P3 = "xor eax, eax\nret\n";

int main(int argc, char **argv) {
  if (argc < 5) return 2;
  const char *sc = argv[1];
  if (!strcmp(argv[2], "shortread")) short_read = 1;
  for (int i = 0; i < K_N; i++) if (!strcmp(argv[2], KN[i])) fail_kind = i;
  fail_k = atoi(argv[3]);
  snprintf(path, sizeof path, "%s/fault_%d.tmp", argv[4], (int)getpid());
  static uint8_t ext[4096];
  memset(ext, 0xcc, sizeof ext);
  int external = !strcmp(sc, "create_ext");
  assemblyline_t al = LIB(asm_create_instance(external ? ext : NULL, external ? (int)sizeof ext : 0)); OUT();
  printf("create=%s\n", al ? "ok" : "null");
  if (al) {
    int rc1 = LIB(asm_assemble_str(al, P1)); OUT();
    int off1 = asm_get_offset(al);
    printf("asm1=%d off1=%d\n", rc1, off1);
    uint8_t ref[64];
    int keep = off1 > 0 && off1 <= 64 ? off1 : 0;
    memcpy(ref, asm_get_code(al), keep);
    hexdump("code1", ref, keep);
    if (!strncmp(sc, "growth", 6)) {
      /* growth | growthfit:<chunk>:<lead> | growthcount:<chunk>:<lead>
         <lead> nops, then 2600 ten-byte instructions: crosses the 6000-byte growth step four times */
      int chunk = 0, lead = 0, counting = 0, bigrun = 0, far = 0;
      /* growthfar:<steps>: the position is moved <steps> growth quanta ahead, so that ONE call has to grow the buffer several
         times — a later growth step of the same call can be refused after earlier steps succeeded (and moved the mapping) */
      if (sscanf(sc, "growthfar:%d", &far) == 1) {
        asm_set_offset(al, off1 + far * 6000);
        printf("offb=%d\n", asm_get_offset(al));
        int rcf = LIB(asm_assemble_str(al, "nop\nret\n")); OUT();
        printf("asm2=%d off2=%d\n", rcf, asm_get_offset(al));
        goto after_growth;
      }
      /* growthafter:<T>: C15 — a long assembly whose growth is refused, then asm_set_offset(T) and a call: the same as on a fresh instance */
      if (sscanf(sc, "growthafter:%d", &far) == 1) {
        char *big2 = __real_malloc(2600 * 32 + 1);
        char *w2 = big2;
        big2[0] = 0;
        for (int i = 0; i < 2600; i++) w2 += sprintf(w2, "mov rdx, 0x1122334455667788\n");
        printf("offb=%d\n", asm_get_offset(al));
        int rcf = LIB(asm_assemble_str(al, big2)); OUT();
        printf("asm2=%d off2=%d\n", rcf, asm_get_offset(al));
        free(big2);
        asm_set_offset(al, far);
        int rca = LIB(asm_assemble_str(al, P1)); OUT();
        int offa = asm_get_offset(al);
        uint8_t ca[16]; memset(ca, 0, sizeof ca);
        if (rca == 0) memcpy(ca, asm_get_code(al) + far, 14);
        assemblyline_t fr = LIB(asm_create_instance(NULL, 0)); OUT();
        asm_set_offset(fr, far);
        int rcb = LIB(asm_assemble_str(fr, P1)); OUT();
        int offb2 = asm_get_offset(fr);
        uint8_t cb[16]; memset(cb, 0, sizeof cb);
        if (rcb == 0) memcpy(cb, asm_get_code(fr) + far, 14);
        printf("same_as_fresh=%d after=%d,%d fresh=%d,%d\n", rca == rcb && offa == offb2 && memcmp(ca, cb, 16) == 0, rca, offa, rcb, offb2);
        LIB(asm_destroy_instance(fr)); OUT();
        skip_lenmatch = 1;
        asm_set_offset(al, off1);
        goto after_growth;
      }
      if (sscanf(sc, "growthfit:%d:%d", &chunk, &lead) == 2) counting = 0;
      else if (sscanf(sc, "growthcount:%d:%d", &chunk, &lead) == 2) counting = 1;
      /* growthbigfit:<chunk> / growthbigcount:<chunk>: the whole 2600-instruction program in ONE fitting / counting call, so that
         a later growth of the same call can be refused after earlier ones succeeded (and moved the mapping) */
      else if (sscanf(sc, "growthbigfit:%d", &chunk) == 1) { counting = 0; bigrun = 1; }
      else if (sscanf(sc, "growthbigcount:%d", &chunk) == 1) { counting = 1; bigrun = 1; }
      /* with a chunk size: start just below the first growth threshold (asm_set_offset) so that every alignment of the
         instruction stream relative to the threshold can be tried cheaply; 40 ten-byte instructions cross it */
      size_t n = (chunk && !bigrun) ? 40 : 2600;
      char *big = __real_malloc(n * 32 + 1);
      big[0] = 0;
      char *w = big;
      if (chunk && !bigrun) asm_set_offset(al, 5900 + lead);
      for (size_t i = 0; i < n; i++) w += sprintf(w, "mov rdx, 0x1122334455667788\n");
      int rc2, cnt = -7;
      printf("offb=%d\n", asm_get_offset(al));
      if (chunk && !counting) asm_set_chunk_size(al, chunk);
      if (chunk && counting) { rc2 = LIB(asm_assemble_string_counting_chunks(al, big, chunk, &cnt)); OUT(); }
      else { rc2 = LIB(asm_assemble_str(al, big)); OUT(); }
      printf("asm2=%d off2=%d\n", rc2, asm_get_offset(al));
      if (chunk && !counting) asm_set_chunk_size(al, 0);
      free(big);
      after_growth: ;
    } else if (!strcmp(sc, "file") || !strcmp(sc, "file_count")) {
      write_file(path, "mov rcx, 0x5\nadd rcx, rdx\nnop\nret\n");
      int rc2, cnt = -7;
      if (!strcmp(sc, "file")) { rc2 = LIB(asm_assemble_file(al, path)); OUT(); }
      else { rc2 = LIB(asm_assemble_file_counting_chunks(al, path, 4, &cnt)); OUT(); }
      printf("asm2=%d off2=%d count=%d\n", rc2, asm_get_offset(al), cnt);
      unlink(path);
    } else if (!strcmp(sc, "file3") || !strcmp(sc, "file3_count")) {
      /* three file calls on ONE instance: a short file, a much longer one, the short one again — whatever the library keeps
         between file calls (buffers, descriptors) is exercised with a refusal in the middle of the history.  asm2/off2/offb
         describe the call during which the fault fired (the last call when none fired); others_ok: every other call
         succeeded and produced the code the same text gives through asm_assemble_str on a fresh instance */
      char *longtxt = __real_malloc(400 * 40 + 64);
      char *w = longtxt;
      for (int i = 0; i < 400; i++) w += sprintf(w, i % 3 ? "add rcx, rdx\n" : "mov rcx, 0x5 ; c\n");
      const char *texts[3] = { "mov rcx, 0x5\nadd rcx, rdx\nnop\nret\n", longtxt, "push r12\npop r12\nret\n" };
      int others_ok = 1, rep_rc = -9, rep_off = -9, rep_offb = -9, rep_cnt = -7;
      for (int i = 0; i < 3; i++) {
        write_file(path, texts[i]);
        int before = asm_get_offset(al), f0 = fired, cnt = -7, rc;
        if (!strcmp(sc, "file3")) { rc = LIB(asm_assemble_file(al, path)); OUT(); }
        else { rc = LIB(asm_assemble_file_counting_chunks(al, path, 4, &cnt)); OUT(); }
        int after = asm_get_offset(al);
        if (fired != f0 || (i == 2 && rep_rc == -9)) { rep_rc = rc; rep_off = after; rep_offb = before; rep_cnt = cnt; }
        if (fired == f0) {
          static uint8_t fb[40000];
          assemblyline_t fr = asm_create_instance(fb, sizeof fb);
          int rr = asm_assemble_str(fr, texts[i]);
          int fl = asm_get_offset(fr);
          if (rc != 0 || rr != 0 || after - before != fl || memcmp(asm_get_code(al) + before, fb, fl) != 0) others_ok = 0;
          asm_destroy_instance(fr);
        }
        unlink(path);
      }
      printf("offb=%d\n", rep_offb);
      printf("asm2=%d off2=%d count=%d others_ok=%d\n", rep_rc, rep_off, rep_cnt, others_ok);
      free(longtxt);
    } else if (!strcmp(sc, "binfile")) {
      int rc2 = LIB(asm_create_bin_file(al, path)); OUT();
      printf("bin=%d\n", rc2);
      FILE *f = __real_fopen(path, "rb");
      if (f) {
        uint8_t got[256];
        size_t g = fread(got, 1, sizeof got, f);
        __real_fclose(f);
        printf("file_complete=%d file_len=%d\n", (int)(g == (size_t)off1 && memcmp(got, asm_get_code(al), g) == 0), (int)g);
      } else printf("file_complete=0 file_len=-1\n");
      unlink(path);
    }
    /* code assembled earlier stays intact and retrievable */
    int offn = asm_get_offset(al);
    printf("earlier_intact=%d\n", offn >= off1 && keep > 0 && memcmp(ref, asm_get_code(al), keep) == 0);
    /* the instance is still usable and can be destroyed */
    int rc3 = LIB(asm_assemble_str(al, P3)); OUT();
    printf("asm3=%d off3=%d delta3=%d\n", rc3, asm_get_offset(al), asm_get_offset(al) - offn);
    /* the recorded buffer length is what the kernel was asked for (the model's invariant bufLen = |mem|) */
    if (!external && !skip_lenmatch) {
      struct { uint8_t *buffer; int buffer_len; } *pk = (void *)al;
      printf("lenmatch=%d\n", (size_t)pk->buffer_len == map_len);
    }
    int rcd = LIB(asm_destroy_instance(al)); OUT();
    printf("destroy=%d\n", rcd);
  }
  printf("COUNTS");
  for (int i = 0; i < K_N; i++) printf(" %s=%d", KN[i], count[i]);
  printf(" fired=%d\n", fired);
  printf("END\n");
  return 0;
}
