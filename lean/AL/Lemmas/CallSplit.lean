/-
  AL.Lemmas.CallSplit — one library call or two, for EVERY text, mode, buffer and history: `call_split` / `call_split_err` (plain and
  chunk-fitting mode) and `count_split` / `count_split_err` (counting mode).  When a text is cut at a line end, assembling the first
  part and then the second in calls of their own gives the same return value, the same instance (buffer contents, length, offset,
  options) and — in counting mode — counts that add up; no hypothesis about sizes, positions or the success of the second part.
  Ingredients: emission never reads the stored `offset` field (`emitOne_setOff`), what it never changes (`Keeps`), a count carried in
  is just added (`emitOne_addB`), the codes of `t₁ ++ [eol] ++ t₂` are those of the parts (`items_split`).
-/
import AL.Lemmas.Layout
import AL.Lemmas.LineLocal
namespace AL.Lemmas.Split
open AL AL.Impl AL.Gen AL.Lemmas

/-- the instance with another value in its `offset` field -/
def setOff (a : Inst) (o : Int) : Inst := { a with offset := o }
def Run.setOff (r : Run) (o : Int) : Run := { r with a := Split.setOff r.a o }

theorem check_setOff (a : Inst) (o : Int) (p : Nat) :
    checkLenOrResize (setOff a o) p = (match checkLenOrResize a p with | .ok a' => .ok (setOff a' o) | .error e => .error e) := by
  unfold checkLenOrResize growBytes setOff
  simp only
  split
  · split <;> rfl
  · rfl

theorem writeAt_setOff (a : Inst) (o : Int) (p : Nat) (bs : Bytes) : writeAt (setOff a o) p bs = setOff (writeAt a p bs) o := by
  unfold writeAt setOff
  simp only
  split <;> rfl

theorem emitOne_setOff (r : Run) (o : Int) (bs : Bytes) :
    emitOne (Run.setOff r o) bs = (Run.setOff (emitOne r bs).1 o, (emitOne r bs).2) := by
  obtain ⟨a, bp, br⟩ := r
  unfold emitOne Run.setOff
  simp only [show (setOff a o).mode = a.mode from rfl, check_setOff]
  cases hm : a.mode
  · simp only
    cases br with
    | none => rfl
    | some n =>
      simp only
      cases hc : checkLenOrResize a bp with
      | error e => rfl
      | ok a' =>
        simp only [show (setOff a' o).chunkSize = a'.chunkSize from rfl, writeAt_setOff]
        split
        · rfl
        · split <;> rfl
  · simp only
    cases hc : checkLenOrResize a bp with
    | error e => rfl
    | ok a' =>
      simp only [show (setOff a' o).chunkSize = a'.chunkSize from rfl, writeAt_setOff,
        show ∀ x : Inst, (setOff x o).chunkSize = x.chunkSize from fun _ => rfl, check_setOff]
      split
      · rfl
      · split
        · rfl
        · split
          · rfl
          · cases hc2 : checkLenOrResize (writeAt (writeAt a' bp bs) bp (nopPadding (a'.chunkSize - bp % a'.chunkSize))) ((bp + (a'.chunkSize - bp % a'.chunkSize)) % 2 ^ 32) with
            | error e => rfl
            | ok a2 =>
              simp only [show ∀ x : Inst, (setOff x o).chunkSize = x.chunkSize from fun _ => rfl, writeAt_setOff]
              split <;> rfl
  · simp only
    cases hc : checkLenOrResize a bp with
    | error e => rfl
    | ok a' =>
      simp only [writeAt_setOff]
      split <;> rfl


theorem runCodes_setOff (cs : List Bytes) (r : Run) (o : Int) :
    runCodes (Run.setOff r o) cs = (Run.setOff (runCodes r cs).1 o, (runCodes r cs).2) := by
  induction cs generalizing r with
  | nil => rfl
  | cons bs rest ih =>
    unfold runCodes
    rw [emitOne_setOff]
    rcases hx : emitOne r bs with ⟨r1, e1⟩
    cases e1 with
    | some e => rfl
    | none => simp only; exact ih r1

theorem runCodes_cons (r : Run) (bs : Bytes) (rest : List Bytes) :
    runCodes r (bs :: rest) = (match emitOne r bs with
      | (r', some e) => (r', some e)
      | (r', none) => runCodes r' rest) := rfl

theorem runCodes_append (cs1 cs2 : List Bytes) (r : Run) :
    runCodes r (cs1 ++ cs2) = (match runCodes r cs1 with
      | (r1, some e) => (r1, some e)
      | (r1, none) => runCodes r1 cs2) := by
  induction cs1 generalizing r with
  | nil => rfl
  | cons bs rest ih =>
    simp only [List.cons_append]
    rw [runCodes_cons, runCodes_cons]
    rcases hx : emitOne r bs with ⟨r1, e1⟩
    cases e1 with
    | some e => rfl
    | none => simp only; exact ih r1

/-- what one emission never changes: options, the stored offset, mode, chunk size, buffer kind; the position stays a 32-bit number -/
structure Keeps (r r' : Run) : Prop where
  opt : r'.a.opt = r.a.opt
  offset : r'.a.offset = r.a.offset
  mode : r'.a.mode = r.a.mode
  chunk : r'.a.chunkSize = r.a.chunkSize
  ext : r'.a.external = r.a.external
  pos : r.bufPos < 2 ^ 32 → r'.bufPos < 2 ^ 32
  brks : r.brks = none → r'.brks = none
  brksSome : r.brks ≠ none → r'.brks ≠ none

theorem Keeps.refl (r : Run) : Keeps r r := ⟨rfl, rfl, rfl, rfl, rfl, id, id, id⟩
theorem Keeps.trans {a b c : Run} (h1 : Keeps a b) (h2 : Keeps b c) : Keeps a c :=
  ⟨h2.opt.trans h1.opt, h2.offset.trans h1.offset, h2.mode.trans h1.mode, h2.chunk.trans h1.chunk, h2.ext.trans h1.ext,
   fun h => h2.pos (h1.pos h), fun h => h2.brks (h1.brks h), fun h => h2.brksSome (h1.brksSome h)⟩

theorem check_keeps (a a' : Inst) (p : Nat) (h : checkLenOrResize a p = .ok a') :
    a'.opt = a.opt ∧ a'.offset = a.offset ∧ a'.mode = a.mode ∧ a'.chunkSize = a.chunkSize ∧ a'.external = a.external := by
  unfold checkLenOrResize at h
  split at h
  · split at h
    · cases h
    · injection h with h; subst h; exact ⟨rfl, rfl, rfl, rfl, rfl⟩
  · injection h with h; subst h; exact ⟨rfl, rfl, rfl, rfl, rfl⟩

theorem writeAt_keeps (a : Inst) (p : Nat) (bs : Bytes) :
    (writeAt a p bs).opt = a.opt ∧ (writeAt a p bs).offset = a.offset ∧ (writeAt a p bs).mode = a.mode ∧
    (writeAt a p bs).chunkSize = a.chunkSize ∧ (writeAt a p bs).external = a.external := by
  unfold writeAt
  split <;> exact ⟨rfl, rfl, rfl, rfl, rfl⟩

theorem emitOne_keeps (r : Run) (bs : Bytes) : Keeps r (emitOne r bs).1 := by
  obtain ⟨a, bp, br⟩ := r
  have hmod : ∀ x : Nat, x % 2 ^ 32 < 2 ^ 32 := fun x => Nat.mod_lt _ (by decide)
  unfold emitOne
  cases hm : a.mode
  · simp only
    cases br with
    | none => exact Keeps.refl _
    | some n =>
      simp only
      cases hc : checkLenOrResize a bp with
      | error e => exact Keeps.refl _
      | ok a' =>
        obtain ⟨k1, k2, k3, k4, k5⟩ := check_keeps a a' bp hc
        obtain ⟨w1, w2, w3, w4, w5⟩ := writeAt_keeps a' bp bs
        simp only
        split
        · exact Keeps.refl _
        · split
          · exact Keeps.refl _
          · exact ⟨w1.trans k1, w2.trans k2, w3.trans k3, w4.trans k4, w5.trans k5, fun _ => hmod _, (fun h => by cases h), (fun _ h => by cases h)⟩
  · simp only
    cases hc : checkLenOrResize a bp with
    | error e => exact Keeps.refl _
    | ok a' =>
      obtain ⟨k1, k2, k3, k4, k5⟩ := check_keeps a a' bp hc
      obtain ⟨w1, w2, w3, w4, w5⟩ := writeAt_keeps a' bp bs
      simp only
      split
      · exact Keeps.refl _
      · split
        · exact Keeps.refl _
        · split
          · exact ⟨w1.trans k1, w2.trans k2, w3.trans k3, w4.trans k4, w5.trans k5, fun _ => hmod _, id, id⟩
          · obtain ⟨v1, v2, v3, v4, v5⟩ := writeAt_keeps (writeAt a' bp bs) bp (nopPadding (a'.chunkSize - bp % a'.chunkSize))
            cases hc2 : checkLenOrResize (writeAt (writeAt a' bp bs) bp (nopPadding (a'.chunkSize - bp % a'.chunkSize))) ((bp + (a'.chunkSize - bp % a'.chunkSize)) % 2 ^ 32) with
            | error e =>
              exact ⟨(v1.trans w1).trans k1, (v2.trans w2).trans k2, (v3.trans w3).trans k3, (v4.trans w4).trans k4, (v5.trans w5).trans k5, fun _ => hmod _, id, id⟩
            | ok a2 =>
              obtain ⟨c1, c2, c3, c4, c5⟩ := check_keeps _ a2 _ hc2
              obtain ⟨u1, u2, u3, u4, u5⟩ := writeAt_keeps a2 ((bp + (a'.chunkSize - bp % a'.chunkSize)) % 2 ^ 32) bs
              simp only
              split
              · exact ⟨(((u1.trans c1).trans v1).trans w1).trans k1, (((u2.trans c2).trans v2).trans w2).trans k2, (((u3.trans c3).trans v3).trans w3).trans k3,
                  (((u4.trans c4).trans v4).trans w4).trans k4, (((u5.trans c5).trans v5).trans w5).trans k5, fun _ => hmod _, id, id⟩
              · exact ⟨(((u1.trans c1).trans v1).trans w1).trans k1, (((u2.trans c2).trans v2).trans w2).trans k2, (((u3.trans c3).trans v3).trans w3).trans k3,
                  (((u4.trans c4).trans v4).trans w4).trans k4, (((u5.trans c5).trans v5).trans w5).trans k5, fun _ => hmod _, id, id⟩
  · simp only
    cases hc : checkLenOrResize a bp with
    | error e => exact Keeps.refl _
    | ok a' =>
      obtain ⟨k1, k2, k3, k4, k5⟩ := check_keeps a a' bp hc
      obtain ⟨w1, w2, w3, w4, w5⟩ := writeAt_keeps a' bp bs
      simp only
      split
      · exact Keeps.refl _
      · exact ⟨w1.trans k1, w2.trans k2, w3.trans k3, w4.trans k4, w5.trans k5, fun _ => hmod _, id, id⟩

theorem runCodes_keeps (cs : List Bytes) (r : Run) : Keeps r (runCodes r cs).1 := by
  induction cs generalizing r with
  | nil => exact Keeps.refl _
  | cons bs rest ih =>
    rw [runCodes_cons]
    have h1 := emitOne_keeps r bs
    rcases hx : emitOne r bs with ⟨r1, e1⟩
    rw [hx] at h1
    cases e1 with
    | some e => exact h1
    | none => exact Keeps.trans h1 (ih r1)


theorem toU32_lt (x : Int) : toU32 x < 2 ^ 32 := by
  unfold toU32
  have h1 : 0 ≤ x % (2 ^ 32 : Int) := Int.emod_nonneg _ (by decide)
  have h2 : x % (2 ^ 32 : Int) < 2 ^ 32 := Int.emod_lt_of_pos _ (by decide)
  omega

theorem toU32_toInt32 (bp : Nat) (h : bp < 2 ^ 32) : toU32 (toInt32 bp) = bp := by
  unfold toU32 toInt32
  simp only [Nat.mod_eq_of_lt h, Int.ofNat_eq_natCast]
  split
  · rw [Int.emod_eq_of_lt (by omega) (by omega)]; simp
  · have : ((bp : Int) - 2 ^ 32) % (2 ^ 32 : Int) = (bp : Int) := by
      rw [Int.sub_emod, Int.emod_self, Int.sub_zero, Int.emod_emod_of_dvd _ (Int.dvd_refl _), Int.emod_eq_of_lt (by omega) (by omega)]
    rw [this]; simp

/-- the codes and the lexing outcome of `t₁ ++ [eol] ++ t₂` from those of the parts -/
theorem items_split (lfo : LineFnOf) (o : Nat) (hl : LineLocal (lfo o)) (t1 t2 : Str) (e : Ch) (he : eolCh e = true) :
    (items (lfo o) ((t1 ++ e :: t2).length + 1) (t1 ++ e :: t2)) =
      (match (items (lfo o) (t1.length + 1) t1).err with
       | some er => ⟨(items (lfo o) (t1.length + 1) t1).codes, some er⟩
       | none => ⟨(items (lfo o) (t1.length + 1) t1).codes ++ (items (lfo o) (t2.length + 1) t2).codes, (items (lfo o) (t2.length + 1) t2).err⟩) := by
  rw [items_eq_itemsL (lfo o) hl _ _ (Nat.lt_succ_self _), items_eq_itemsL (lfo o) hl _ _ (Nat.lt_succ_self _),
    items_eq_itemsL (lfo o) hl _ _ (Nat.lt_succ_self _), splitEol_split t1 e t2 he, itemsL_append]
  cases (itemsL (lfo o) (splitEol t1)).err <;> rfl


/-- the run a plain call starts with -/
def run0 (a : Inst) : Run := { a := a, bufPos := toU32 a.offset, brks := none }

/-- **one call or two, for EVERY text, mode and buffer** (plain and chunk fitting; no hypothesis on sizes or success of the second
    part): when `t₁` assembles, `asm_assemble_str` on `t₁ ++ [eol] ++ t₂` is `asm_assemble_str` on `t₂` after `asm_assemble_str` on
    `t₁` — same return value, same instance (buffer, bookkeeping, offset); if `t₂` is rejected the two differ only in the `offset`
    field, which a failed call leaves where ITS call started. -/
theorem call_split (lfo : LineFnOf) (a : Inst) (t1 t2 : Str) (e : Ch) (he : eolCh e = true) (hl : LineLocal (lfo a.opt))
    (hok1 : (asmAssembleStrWith lfo a t1).2 = .ok ()) :
    asmAssembleStrWith lfo a (t1 ++ e :: t2) =
      (match asmAssembleStrWith lfo (asmAssembleStrWith lfo a t1).1 t2 with
       | (a2, .ok ()) => (a2, .ok ())
       | (a2, .error er) => (setOff a2 a.offset, .error er)) := by
  rw [plain_eq lfo a t1] at hok1 ⊢
  rw [plain_eq lfo a (t1 ++ e :: t2)]
  unfold codesOf at *
  rw [items_split lfo a.opt hl t1 t2 e he]
  generalize hI1 : items (lfo a.opt) (t1.length + 1) t1 = I1 at *
  generalize hI2 : items (lfo a.opt) (t2.length + 1) t2 = I2 at *
  simp only at hok1 ⊢
  rcases hx1 : runCodes { a := a, bufPos := toU32 a.offset, brks := none } I1.codes with ⟨r1, e1⟩
  rw [hx1] at hok1
  have hk := runCodes_keeps I1.codes { a := a, bufPos := toU32 a.offset, brks := none }
  rw [hx1] at hk
  simp only at hk
  -- the first part succeeded: no emission error, no lexing error
  cases e1 with
  | some er => simp [outcome] at hok1
  | none =>
    cases hE1 : I1.err with
    | some er => simp [outcome, hE1] at hok1
    | none =>
      simp only [outcome, hE1]
      rw [runCodes_append, hx1]
      simp only
      -- the second call starts where the first one stopped
      have hbp : r1.bufPos < 2 ^ 32 := hk.pos (toU32_lt _)
      have hb : r1.brks = none := hk.brks rfl
      have hfacts : ∀ a1 : Inst, a1 = { r1.a with offset := toInt32 r1.bufPos } →
          a1.opt = a.opt ∧ ({ a := a1, bufPos := toU32 a1.offset, brks := none } : Run) = Run.setOff r1 (toInt32 r1.bufPos) := by
        intro a1 h1
        subst h1
        refine ⟨hk.opt, ?_⟩
        obtain ⟨ra, rb, rk⟩ := r1
        simp only at hb hbp
        subst hb
        simp only [toU32_toInt32 rb hbp]
        rfl
      generalize ha1 : ({ r1.a with offset := toInt32 r1.bufPos } : Inst) = a1
      obtain ⟨ho1, hr1⟩ := hfacts a1 ha1.symm
      rw [plain_eq lfo a1 t2]
      unfold codesOf
      rw [ho1, hI2, hr1, runCodes_setOff]
      rcases hx2 : runCodes r1 I2.codes with ⟨r2, e2⟩
      have hk2 := runCodes_keeps I2.codes r1
      rw [hx2] at hk2
      simp only at hk2
      cases e2 with
      | some er =>
        simp only [outcome, Run.setOff, setOff]
        rw [← hk.offset, ← hk2.offset]
      | none =>
        cases hE2 : I2.err with
        | some er =>
          simp only [outcome, Run.setOff, setOff]
          rw [← hk.offset, ← hk2.offset]
        | none =>
          simp only [outcome, Run.setOff, setOff]

/-- when `t₁` is rejected, so is the whole, at the same point: same instance, same error -/
theorem call_split_err (lfo : LineFnOf) (a : Inst) (t1 t2 : Str) (e : Ch) (he : eolCh e = true) (hl : LineLocal (lfo a.opt))
    (er : Err) (herr : (asmAssembleStrWith lfo a t1).2 = .error er) :
    asmAssembleStrWith lfo a (t1 ++ e :: t2) = asmAssembleStrWith lfo a t1 := by
  rw [plain_eq lfo a t1] at herr ⊢
  rw [plain_eq lfo a (t1 ++ e :: t2)]
  unfold codesOf at *
  rw [items_split lfo a.opt hl t1 t2 e he]
  generalize hI1 : items (lfo a.opt) (t1.length + 1) t1 = I1 at *
  generalize hI2 : items (lfo a.opt) (t2.length + 1) t2 = I2 at *
  simp only at herr ⊢
  rcases hx1 : runCodes { a := a, bufPos := toU32 a.offset, brks := none } I1.codes with ⟨r1, e1⟩
  rw [hx1] at herr
  cases hE1 : I1.err with
  | some er1 =>
    simp only [hx1]
  | none =>
    cases e1 with
    | some er1 =>
      simp only
      rw [runCodes_append, hx1]
      simp [outcome]
    | none => simp [outcome, hE1] at herr


/-- the run with k added to its count -/
def Run.addB (r : Run) (k : Int) : Run := { r with brks := r.brks.map (· + k) }

theorem emitOne_addB (r : Run) (k : Int) (bs : Bytes) :
    emitOne (Run.addB r k) bs = (Run.addB (emitOne r bs).1 k, (emitOne r bs).2) := by
  obtain ⟨a, bp, br⟩ := r
  unfold emitOne Run.addB
  simp only
  cases hm : a.mode
  · simp only
    cases br with
    | none => rfl
    | some n =>
      simp only [Option.map_some]
      cases hc : checkLenOrResize a bp with
      | error e => rfl
      | ok a' =>
        simp only
        split
        · rfl
        · split
          · rfl
          · simp only [Option.map_some]
            split
            · rw [Int.add_right_comm]
            · rfl
  · simp only
    cases hc : checkLenOrResize a bp with
    | error e => rfl
    | ok a' =>
      simp only
      split
      · rfl
      · split
        · rfl
        · split
          · rfl
          · cases hc2 : checkLenOrResize (writeAt (writeAt a' bp bs) bp (nopPadding (a'.chunkSize - bp % a'.chunkSize))) ((bp + (a'.chunkSize - bp % a'.chunkSize)) % 2 ^ 32) with
            | error e => rfl
            | ok a2 =>
              simp only
              split <;> rfl
  · simp only
    cases hc : checkLenOrResize a bp with
    | error e => rfl
    | ok a' =>
      simp only
      split <;> rfl

theorem runCodes_addB (cs : List Bytes) (r : Run) (k : Int) :
    runCodes (Run.addB r k) cs = (Run.addB (runCodes r cs).1 k, (runCodes r cs).2) := by
  induction cs generalizing r with
  | nil => rfl
  | cons bs rest ih =>
    rw [runCodes_cons, runCodes_cons, emitOne_addB]
    rcases hx : emitOne r bs with ⟨r1, e1⟩
    cases e1 with
    | some e => rfl
    | none => simp only; exact ih r1


/-- **one counting call or two, for EVERY text and chunk size**: when `t₁` assembles, the counting call on `t₁ ++ [eol] ++ t₂` is the
    counting call on `t₂` after the counting call on `t₁` — same return value, same instance — and its count is the SUM of the two
    counts (an instruction crosses a boundary or not regardless of which call emits it). -/
theorem count_split (lfo : LineFnOf) (a : Inst) (c : Int) (t1 t2 : Str) (e : Ch) (he : eolCh e = true) (hl : LineLocal (lfo a.opt))
    (hok1 : (asmCountingChunksWith lfo a t1 c true).2.1 = .ok ()) :
    asmCountingChunksWith lfo a (t1 ++ e :: t2) c true =
      (match asmCountingChunksWith lfo (asmCountingChunksWith lfo a t1 c true).1 t2 c true with
       | (a2, .ok (), n2) => (a2, .ok (), n2.map (· + ((asmCountingChunksWith lfo a t1 c true).2.2).getD 0))
       | (a2, .error er, n2) => (setOff a2 a.offset, .error er, n2.map (· + ((asmCountingChunksWith lfo a t1 c true).2.2).getD 0))) := by
  rw [counting_eq lfo a t1] at hok1 ⊢
  rw [counting_eq lfo a (t1 ++ e :: t2)]
  unfold codesOf at *
  rw [items_split lfo a.opt hl t1 t2 e he]
  generalize hI1 : items (lfo a.opt) (t1.length + 1) t1 = I1 at *
  generalize hI2 : items (lfo a.opt) (t2.length + 1) t2 = I2 at *
  simp only at hok1 ⊢
  rcases hx1 : runCodes { a := countSetup a c, bufPos := toU32 a.offset, brks := some 0 } I1.codes with ⟨r1, e1⟩
  rw [hx1] at hok1
  have hk := runCodes_keeps I1.codes { a := countSetup a c, bufPos := toU32 a.offset, brks := some 0 }
  rw [hx1] at hk
  simp only at hk
  cases e1 with
  | some er => simp [outcome] at hok1
  | none =>
    cases hE1 : I1.err with
    | some er => simp [outcome, hE1] at hok1
    | none =>
      simp only [outcome]
      rw [runCodes_append, hx1]
      simp only
      have hbp : r1.bufPos < 2 ^ 32 := hk.pos (toU32_lt _)
      have hfacts : ∀ a1 : Inst, a1 = { ({ r1.a with mode := a.mode, chunkSize := a.chunkSize } : Inst) with offset := toInt32 r1.bufPos } →
          a1.opt = a.opt ∧ a1.mode = a.mode ∧ a1.chunkSize = a.chunkSize ∧
          ({ a := countSetup a1 c, bufPos := toU32 a1.offset, brks := some 0 } : Run) =
            Run.setOff { r1 with brks := some 0 } (toInt32 r1.bufPos) := by
        intro a1 h1
        subst h1
        refine ⟨hk.opt, rfl, rfl, ?_⟩
        obtain ⟨ra, rb, rk⟩ := r1
        have hm : ra.mode = (countSetup a c).mode := hk.mode
        have hc : ra.chunkSize = (countSetup a c).chunkSize := hk.chunk
        simp only at hbp
        simp only [toU32_toInt32 rb hbp]
        unfold countSetup Run.setOff setOff
        simp only [Run.mk.injEq, and_true]
        obtain ⟨x1, x2, x3, x4, x5, x6, x7, x8⟩ := ra
        simp only [countSetup] at hm hc
        simp only [Inst.mk.injEq, true_and]
        exact ⟨hc.symm, hm.symm, trivial⟩
      generalize ha1 : ({ ({ r1.a with mode := a.mode, chunkSize := a.chunkSize } : Inst) with offset := toInt32 r1.bufPos } : Inst) = a1
      obtain ⟨ho1, hm1, hc1, hr1⟩ := hfacts a1 ha1.symm
      rw [counting_eq lfo a1 t2]
      unfold codesOf
      rw [ho1, hI2, hr1, runCodes_setOff, hm1, hc1]
      -- the one-call run carries the first part's count on, the second call starts at 0
      obtain ⟨ra, rb, rk⟩ := r1
      cases rk with
      | none => exact absurd rfl (hk.brksSome (by simp))
      | some n1 =>
        have hadd : ({ a := ra, bufPos := rb, brks := some n1 } : Run) = Run.addB { a := ra, bufPos := rb, brks := some 0 } n1 := by
          simp [Run.addB]
        simp only at hr1 ⊢
        rw [hadd, runCodes_addB]
        rcases hx2 : runCodes { a := ra, bufPos := rb, brks := some 0 } I2.codes with ⟨r2, e2⟩
        have hk2 := runCodes_keeps I2.codes { a := ra, bufPos := rb, brks := some 0 }
        rw [hx2] at hk2
        simp only at hk2
        have hoff : r2.a.offset = a.offset := by rw [hk2.offset, hk.offset]; rfl
        cases e2 with
        | some er =>
          simp only [outcome, Run.setOff, setOff, Run.addB, Option.getD_some, hoff]
        | none =>
          cases hE2 : I2.err with
          | some er => simp only [outcome, Run.setOff, setOff, Run.addB, Option.getD_some, hoff]
          | none => simp only [outcome, Run.setOff, setOff, Run.addB, Option.getD_some]


/-- when `t₁` is rejected in a counting call, so is the whole, at the same point -/
theorem count_split_err (lfo : LineFnOf) (a : Inst) (c : Int) (t1 t2 : Str) (e : Ch) (he : eolCh e = true) (hl : LineLocal (lfo a.opt))
    (er : Err) (herr : (asmCountingChunksWith lfo a t1 c true).2.1 = .error er) :
    asmCountingChunksWith lfo a (t1 ++ e :: t2) c true = asmCountingChunksWith lfo a t1 c true := by
  rw [counting_eq lfo a t1] at herr ⊢
  rw [counting_eq lfo a (t1 ++ e :: t2)]
  unfold codesOf at *
  rw [items_split lfo a.opt hl t1 t2 e he]
  generalize hI1 : items (lfo a.opt) (t1.length + 1) t1 = I1 at *
  generalize hI2 : items (lfo a.opt) (t2.length + 1) t2 = I2 at *
  simp only at herr ⊢
  rcases hx1 : runCodes { a := countSetup a c, bufPos := toU32 a.offset, brks := some 0 } I1.codes with ⟨r1, e1⟩
  rw [hx1] at herr
  cases hE1 : I1.err with
  | some er1 =>
    simp only [hx1]
  | none =>
    cases e1 with
    | some er1 =>
      simp only
      rw [runCodes_append, hx1]
      simp [outcome]
    | none => simp [outcome, hE1] at herr

end AL.Lemmas.Split
