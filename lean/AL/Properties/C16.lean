/-
  C16 — letter case, spacing, comments, labels and number base do not change the code.

  General lemmas, valid for EVERY line (not only the corpora), about what the per-line function
  `assembleLine` cannot see:
   * `case_insensitive`   — the case of any letter anywhere (mnemonic, registers, keywords, hex digits);
   * `comment_irrelevant` — everything from `;` (or `%`) on;
   * `leading_blanks`     — indentation by blanks and tabs;
   * `operand_blanks`     — blanks and tabs anywhere behind the mnemonic's separator (around operands,
                             commas, inside brackets, trailing);
   * `skipped_lines`      — label, `section`, `global` and blank lines contribute nothing wherever they
                             are inserted; hence also LF versus CRLF (`crlf`).
  The numeral lemmas (decimal / hexadecimal / leading zeros) are in AL.Lemmas.Numerals and are
  used where immediates and displacements are interpreted (C03, C02).
-/
import AL.Lemmas.FilterLemmas
import AL.Properties.C06
namespace AL.Properties.C16
open AL AL.Impl AL.Gen AL.Lemmas

/-- **case**: two lines that differ only in the case of letters assemble alike -/
theorem case_insensitive (opt : Nat) (t1 t2 : Str) (h : t1.map tolower = t2.map tolower) :
    (assembleLine opt t1).1 = (assembleLine opt t2).1 :=
  assembleLine_of_filter opt t1 t2 (by rw [filterLine_case t1 t2 h])

/-- **comments**: what follows a `;` or `%` is not looked at -/
theorem comment_irrelevant (opt : Nat) (l : Str) (c : Nat) (rest : Str) (hc : c = 59 ∨ c = 37) :
    (assembleLine opt (l ++ c :: rest)).1 = (assembleLine opt l).1 := by
  apply assembleLine_of_filter
  have hs : stopCh c = true := by rcases hc with rfl | rfl <;> decide
  show (filterGo .begin [] 0 0 (l ++ c :: rest)).map Prod.fst = (filterGo .begin [] 0 0 l).map Prod.fst
  rw [filterGo_comment _ _ _ _ _ _ _ hs]

/-- **indentation**: leading blanks and tabs -/
theorem leading_blanks (opt : Nat) (ws t : Str) (hw : ∀ c ∈ ws, isBlank c = true) :
    (assembleLine opt (ws ++ t)).1 = (assembleLine opt t).1 := by
  apply assembleLine_of_filter
  show (filterGo .begin [] 0 0 (ws ++ t)).map Prod.fst = (filterGo .begin [] 0 0 t).map Prod.fst
  suffices h : ∀ i, (filterGo .begin [] 0 i (ws ++ t)).map Prod.fst = (filterGo .begin [] 0 0 t).map Prod.fst from h 0
  induction ws with
  | nil =>
    intro i
    -- the index at which the filter stops is not part of the filtered string
    have hidx : ∀ (st : FState) (acc : Str) (j i i' : Nat) (l : Str),
        (filterGo st acc j i l).map Prod.fst = (filterGo st acc j i' l).map Prod.fst := by
      intro st acc j i i' l
      induction l generalizing st acc j i i' with
      | nil => simp [filterGo]
      | cons c cs ih =>
        simp only [filterGo]
        split
        · rfl
        · split
          · split
            · rfl
            · split
              · rfl
              · exact ih _ _ _ _ _
          · split
            · rfl
            · exact ih _ _ _ _ _
    exact hidx _ _ _ _ _ _
  | cons b bs ih =>
    intro i
    have hb := hw b List.mem_cons_self
    rw [List.cons_append, filterGo_leading [] 0 i b (bs ++ t) hb]
    exact ih (fun c hc => hw c (List.mem_cons_of_mem _ hc)) _

/-- **spacing behind the mnemonic**: once the separator has been seen (state SPACE_FOUND, any
    accumulated prefix), two operand texts with the same non-blank characters filter alike -/
theorem operand_blanks (acc : Str) (j i1 i2 : Nat) (ops1 ops2 : Str)
    (h : ops1.filter (fun c => !isBlank c) = ops2.filter (fun c => !isBlank c)) :
    (filterGo .spaceFound acc j i1 ops1).map Prod.fst = (filterGo .spaceFound acc j i2 ops2).map Prod.fst := by
  rw [filterGo_deblank acc j i1 0 ops1, filterGo_deblank acc j i2 0 ops2, h]

/-- a line that is empty after filtering, or contains `:`, `section` or `global`, is skipped -/
theorem skipped (opt : Nat) (t f : Str) (i : Nat) (hf : filterLine t = some (f, i)) (hs : isSkipped f = true) :
    (assembleLine opt t).1 = .ok .skip := by
  unfold assembleLine; simp [hf, hs]

/-- **label / directive / blank lines**: inserting a skipped line anywhere in a program leaves
    the codes (and the error, if any) unchanged -/
theorem skipped_lines (lf : Str → R LineOut × Nat) (ls1 ls2 : List Str) (l : Str)
    (hl : (lf l).1 = .ok .skip) : itemsL lf (ls1 ++ l :: ls2) = itemsL lf (ls1 ++ ls2) := by
  induction ls1 with
  | nil => simp [itemsL, hl]
  | cons x xs ih =>
    simp only [List.cons_append, itemsL, ih]

/-- **LF versus CRLF**: a CR LF pair is a line end followed by an empty (skipped) line -/
theorem crlf (opt : Nat) (t1 t2 : Str) :
    itemsL (assembleLine opt) (splitEol (t1 ++ 13 :: 10 :: t2)) =
    itemsL (assembleLine opt) (splitEol (t1 ++ 10 :: t2)) := by
  rw [AL.Lemmas.splitEol_split t1 13 (10 :: t2) (by decide), AL.Lemmas.splitEol_split t1 10 t2 (by decide)]
  have : splitEol (10 :: t2) = [] :: splitEol t2 := by simp [splitEol, eolCh]
  rw [this]
  exact skipped_lines (assembleLine opt) (splitEol t1) (splitEol t2) [] (assembleLine_local opt).empty

/-- non-vacuity: a styled line and its canonical form -/
def bytesOf (r : R LineOut) : Option Bytes :=
  match r with
  | .ok (.code bs) => some bs
  | _ => none

example : bytesOf (assembleLine 14 (str! "\t  MOV   Rax ,\tRBX ; copy")).1 = some [0x48, 0x89, 0xd8] ∧
    bytesOf (assembleLine 14 (str! "mov rax,rbx")).1 = some [0x48, 0x89, 0xd8] := by
  decide +kernel

end AL.Properties.C16
