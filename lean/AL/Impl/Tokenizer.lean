/-
  AL.Impl.Tokenizer — src/tokenizer.c, function by function.
-/
import AL.Impl.RegParser
namespace AL.Impl
open AL AL.Gen

/-- How a modelled C function can end other than by returning normally. -/
inductive Err
  | fail            -- EXIT_FAILURE / ASM_ERROR: the documented rejection
  | ub (what : String)   -- the C code would perform undefined behaviour here
deriving Repr, DecidableEq

abbrev R := Except Err

/-- `get_mod_disp`. -/
def getModDisp (s : Instr) (neg : Bool) : Instr :=
  let mo := s.memOffset
  if mo == 0 then { s with modDisp := 0 }
  else if !neg then
    if 1 ≤ mo && mo ≤ c_MAX_SIGNED_8BIT then { s with modDisp := s.modDisp &&& c_MOD8 }
    else if mo > c_MAX_SIGNED_8BIT then { s with modDisp := s.modDisp &&& c_MOD16 }
    else s
  else
    if 1 ≤ mo && mo ≤ c_MAX_UNSIGNED_8BIT then { s with modDisp := s.modDisp &&& c_MOD8 }
    else if mo > c_MAX_UNSIGNED_8BIT then { s with modDisp := s.modDisp &&& c_MOD16 }
    else s

/-- `mem_tok`. -/
def memTok (s : Instr) (mem : Str) (pos : Nat) : R Instr :=
  let s := { s with memDisp := true, memIndex := pos % 8 }
  let (idxAdd, neg, base) := findAddMem mem false
  let (idxConst, neg, base) := findMemConst mem neg base
  match getIndexReg mem with
  | none => .error .fail
  | some (sibDisp, sibStr) =>
    let o := s.opd pos
    let s := (s.setOpd pos { o with sib := sibStr })
    let s := { s with sibDisp := sibDisp, memOffset := 0 }
    let s :=
      match idxAdd with
      | some i =>
        let v := strtoul (mem.drop i) base % 2 ^ 32
        { s with memOffset := if neg then processNegDisp v else v }
      | none =>
        match idxConst with
        | some i =>
          let v := strtoul (mem.drop i) base % 2 ^ 32
          { s with memValue := true, memConst := if neg then (2 ^ 32 - v) % 2 ^ 32 else v }
        | none => s
    .ok (getModDisp s neg)

/-- `imm_tok`. -/
def immTok (s : Instr) (imme : Str) : R Instr :=
  let len := imme.length
  match strtok imme [32] with
  | none => .error (.ub "imm_tok: strtok_r returned NULL")
  | some (tok, _) =>
    let hex := chAt tok 1 == ch! 'x' || (chAt tok 1 != 0 && chAt tok 2 == ch! 'x')
    -- C: under SMART, `assembly_opt |= NASM_MOV_IMM` unless the literal is hexadecimal and at least
    -- STR_HEX_64 characters long.  The model records the spelling fact; `effNasm` combines it with
    -- the option byte where the bit is read.
    let narrowOk := !(hex && len ≥ c_STR_HEX_64)
    let (v, rest, seen) := strtoulEnd tok (if hex then 16 else 10)
    -- the whole token has to be a number (`end == imme || *end != '\0'` fails the line)
    if !seen || !rest.isEmpty then .error .fail
    else .ok { s with imm := true, narrowOk := narrowOk, cons := v }

/-- overwrite the first `n` characters behind the leading blanks with blanks -/
def clearAfterBlanks (tok : Str) (n : Nat) : Str :=
  let sp := tok.takeWhile (· == 32)
  let p := tok.dropWhile (· == 32)
  sp ++ List.replicate n 32 ++ p.drop n

/-- `check_for_keyword`: updated keyword bits and the operand text after `clearstring`. -/
def checkForKeyword (fuel : Nat) (k : Keywords) (tok : Str) : Keywords × Str :=
  let p := tok.dropWhile (· == 32)
  if isPrefix (str! "byte") p then ({ k with isByte := true }, clearAfterBlanks tok 4)
  else if isPrefix (str! "word") p then ({ k with isWord := true }, clearAfterBlanks tok 4)
  else if isPrefix (str! "dword") p then ({ k with isDword := true }, clearAfterBlanks tok 5)
  else if isPrefix (str! "qword") p then ({ k with isQword := true }, clearAfterBlanks tok 5)
  else if isPrefix (str! "short") p then
    ({ k with isShort := true, isLong := false }, clearAfterBlanks tok 5)
  else if isPrefix (str! "long") p then
    ({ k with isLong := true, isShort := false }, clearAfterBlanks tok 4)
  else if isPrefix (str! "far") p then
    match fuel with
    | 0 => ({ k with isFar := true }, clearAfterBlanks tok 3)
    | fuel + 1 => checkForKeyword fuel { k with isFar := true } (clearAfterBlanks tok 3)
  else (k, tok)

/-- `operand_tok` (with `check_operand_type` inlined). `fuel` bounds the recursion depth;
    the C recursion is bounded by `opd_pos`. -/
def operandTok (fuel : Nat) (s : Instr) (opds : Str) (pos : Nat) : R Instr :=
  match fuel with
  | 0 => .error .fail
  | fuel + 1 =>
    if chAt opds 0 == ch! ',' || chAt opds (opds.length - 1) == ch! ',' then .error .fail else
    match strtok opds [ch! ','] with
    | none => .error (.ub "operand_tok: strtok_r returned NULL")
    | some (allOpd, saved) =>
      let (kw, allOpd) := checkForKeyword allOpd.length s.kw allOpd
      let s := { s with kw := kw }
      let ty := getOperandType allOpd
      let s := s.setOpd pos { s.opd pos with type := ty }
      let afterType : R Instr :=
        if ty == ch! 'i' then
          match immTok s allOpd with
          | .error e => .error e
          | .ok s => if saved.isEmpty then .ok s else .error .fail
        else if ty == ch! 'r' || ty == ch! 'v' || ty == ch! 'y' || ty == ch! 'm' then
          let s := s.setOpd pos { s.opd pos with str := getRegStr allOpd }
          if ty == ch! 'm' then memTok s allOpd pos else .ok s
        else .error .fail
      match afterType with
      | .error e => .error e
      | .ok s =>
        match strtokRest saved with
        | none => .ok s
        | some next =>
          if pos < c_FOURTH_OPERAND then operandTok fuel s next (pos + 1) else .error .fail

/-- `instr_tok`. -/
def instrTok (s : Instr) (comp : Str) : R Instr :=
  match strtok comp [32, 9] with
  | none => .error (.ub "instr_tok: strtok_r returned NULL")
  | some (name, saved) =>
    let s := { s with instruction := strncpy name c_MAX_INSTR_LEN }
    match strtokRest saved with
    | none => .ok s
    | some next => operandTok 5 s next 0

end AL.Impl
