/-
  AL.Properties.SweepDefs — the statement checked for every instance of a C01–C05 family:
  the model of the library assembles the written line (under an option byte) into bytes that the
  reference decoder reads back as ONE instruction covering all of them, which is the written one
  (AL.Spec.X86.sameInstr); a rejected line must be outside the frozen list of supported forms, or be
  one of the rejections C05 demands.
-/
import AL.Spec.X86Compare
import AL.Impl.Line
namespace AL.Properties.Sweep
open AL AL.Impl AL.Spec.X86

def checkItem (opt : Nat) (it : Item) : Bool :=
  -- `[base+rsp]` is judged only where the index/base swap is NASM (bit 4): STRICT has its documented literal form
  if stackIndex it && opt / 4 % 2 == 0 then true else
  match (assembleLine opt (toStr it.text)).1 with
  | .ok (.code bs) =>
    !mustReject it &&
    (match decodeAll 4 bs with
     | some [d] => d.len == bs.length && sameInstr it d
     | _ => false)
  | .ok .skip => false
  | .error _ => !supportedForm it || mustReject it || mayReject it

def sweep (opts : List Nat) (items : List Item) : Bool := opts.all fun o => items.all (checkItem o)

/-- the failing instances, for diagnosis (`#eval`) -/
def failures (opt : Nat) (items : List Item) : List String :=
  (items.filter fun it => !checkItem opt it).map (·.text)

end AL.Properties.Sweep
