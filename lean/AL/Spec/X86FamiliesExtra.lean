/-
  AL.Spec.X86FamiliesExtra — instances added to the C02 family after round 11 (kept in a file of their own: the kernel-checked modules of
  C01 import AL.Spec.X86Families and would all be re-checked if that file changed).

  `famC02x`: the displacements at the ends of the disp32 range (−2^31, 2^31 − 1) and next to them, on every memory shape kind — base only,
  base + scaled index, scaled index without base, absolute address, 32-bit address registers — under a representative of every encoding
  class (integer load / store / immediate store, SSE, VEX), in hexadecimal and in decimal.
-/
import AL.Spec.X86Families
namespace AL.Spec.X86

def dispExtreme : List Int := [-0x80000000, -0x7fffffff, 0x7fffffff, 0x7ffffffe, -0x7ffffff9]

def memsExtreme (size : Nat) : List Mem :=
  memShapes [none, some 3, some 13] [none, some 1, some 9] [4] dispExtreme [false] size ++
  memShapes [some 3] [none, some 6] [2] dispExtreme [true] size

def famC02x : List Item :=
  (table.filter fun en => hasRm en && !hasRel en &&
      (en.mn == (mn! "mov") || en.mn == (mn! "add") || en.mn == (mn! "paddb") || en.mn == (mn! "vaddpd") || en.mn == (mn! "lea") ||
       en.mn == (mn! "mulx") || en.mn == (mn! "push"))).flatMap fun en =>
    let f : Fill := { mems := memsExtreme, imms := memImm, rels8 := [], rels32 := [], regForm := false, memForm := true }
    let ds := fewRegs (enumEnc f en)
    items {} ds ++ items { num := .dec } ds

/-- C05 (round 12): displacements written with MORE digits than a 64-bit number needs — `-0x0000000000000080` (19 characters),
    24 hexadecimal digits — under no keyword, `short` and `long`; a literal's value does not depend on how many leading zeros it has -/
def famC05x : List Item :=
  let f : Fill := { mems := noMems, imms := fewImm, rels8 := [-128, -5, 5, 127, 128, -129], rels32 := [-129, 128, -0x1000, 0x200, 0x7fffffff, -0x7fffffff, -5, 5] }
  (table.filter hasRel).flatMap fun en =>
    let ds := enumEnc f en
    [NumStyle.hexPad 16, NumStyle.hexPad 17, NumStyle.hexPad 24].flatMap fun ns =>
      items { num := ns } ds ++ items { num := ns, relKw := "short " } ds ++ items { num := ns, relKw := "long " } ds

/-- C03 (round 12): immediates written with more digits than a 64-bit number needs (17 and 24 hexadecimal digits, with and without sign) -/
def famC03x : List Item :=
  (table.filter fun en => hasImm en).flatMap fun en =>
    let f : Fill := { mems := memsFew, imms := fun b => ([1, 0x12, 0x7f, 0x80, 2 ^ b - 1, 2 ^ b - 0x80].filter (· < 2 ^ b)).eraseDups, rels8 := [], rels32 := [],
                      regForm := true, memForm := true }
    let ds := fewRegs (enumEnc f en)
    items { num := .hexPad 17 } ds ++ items { num := .hexPad 24, negImm := false } ds

end AL.Spec.X86
