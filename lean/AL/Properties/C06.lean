/-
  C06 — a program's code is the concatenation of its lines' code, however it is fed.

  * `codeOf o l` is what the per-line function yields for the line `l` ALONE (fresh record, no
    state argument at all: `assembleLine` has none).
  * `program_code`: the codes `assemble_all` emits for a text are exactly the codes of its lines
    (split at every CR/LF) taken alone, up to the first rejected line.
  * `concat_call`: a successful plain call leaves, from the old offset, exactly the
    concatenation of those codes, advances the offset by its length and leaves everything
    before the old offset alone.  The right-hand side mentions neither the prior buffer
    contents nor any earlier call: the result is a function of (options, offset, text) only.
  * `split_codes`, `split_calls`: feeding `t₁`, then `t₂`, gives what feeding `t₁ ++ [eol] ++ t₂`
    in one call gives.
  For every text, offset and buffer; `program_code` and the split lemmas for every line-local
  per-line function, instantiated for the library by `assembleLine_local`.
-/
import AL.Lemmas.LineLocal
import AL.Lemmas.CallSplit
import AL.Properties.C13
namespace AL.Properties.C06
open AL AL.Impl AL.Gen AL.Lemmas

/-- the lines of a program -/
abbrev linesOf (t : Str) : List Str := splitEol t

/-- **the codes of a program are the codes of its lines taken alone** -/
theorem program_code (lfo : LineFnOf) (o : Nat) (hl : LineLocal (lfo o)) (text : Str) :
    codesOf lfo o text = (itemsL (lfo o) (linesOf text)).codes ∧
    (items (lfo o) (text.length + 1) text).err = (itemsL (lfo o) (linesOf text)).err := by
  unfold codesOf
  rw [items_eq_itemsL (lfo o) hl _ _ (Nat.lt_succ_self _)]
  exact ⟨rfl, rfl⟩

theorem program_code_lib (o : Nat) (text : Str) :
    codesOf assembleLine o text = (itemsL (assembleLine o) (linesOf text)).codes :=
  (program_code assembleLine o (assembleLine_local o) text).1

/-- **one plain call**: buffer from the old offset = concatenation of the lines' codes -/
theorem concat_call (lfo : LineFnOf) (a : Inst) (text : Str) (hmode : a.mode = .assemble)
    (hl : LineLocal (lfo a.opt)) (hinv : BufInv a) (h0 : 0 ≤ a.offset) (h1 : a.offset ≤ a.mem.length)
    (hsmall : a.mem.length + growth a * (text.length + 1) + 60 < 2 ^ 31)
    (hok : (asmAssembleStrWith lfo a text).2 = .ok ()) :
    let code := (itemsL (lfo a.opt) (linesOf text)).codes.flatten
    (asmAssembleStrWith lfo a text).1.offset = a.offset + (code.length : Int) ∧
    ((asmAssembleStrWith lfo a text).1.mem.drop a.offset.toNat).take code.length = code ∧
    (asmAssembleStrWith lfo a text).1.mem.take a.offset.toNat = a.mem.take a.offset.toNat := by
  intro code
  have h := asm_layout lfo a text hinv h0 h1 (by intro hm; rw [hmode] at hm; cases hm) hsmall hok
  rw [hmode, C13.plain_layout, (program_code lfo a.opt hl text).1] at h
  exact h

/-- **splitting at a line boundary**: the codes of `t₁ ++ [eol] ++ t₂` are the codes of `t₁`
    followed by the codes of `t₂` (when no line of `t₁` is rejected) -/
theorem split_codes (lfo : LineFnOf) (o : Nat) (hl : LineLocal (lfo o)) (t1 t2 : Str) (e : Ch)
    (he : eolCh e = true) (hno : (itemsL (lfo o) (linesOf t1)).err = none) :
    codesOf lfo o (t1 ++ e :: t2) = codesOf lfo o t1 ++ codesOf lfo o t2 := by
  rw [(program_code lfo o hl _).1, (program_code lfo o hl _).1, (program_code lfo o hl _).1]
  unfold linesOf
  rw [splitEol_split t1 e t2 he, itemsL_append, hno]

/-- **one call or two**: when the program `t₁ ++ [eol] ++ t₂` and its two parts all assemble,
    feeding the parts in successive calls leaves the same code at the same place and the same
    final offset as feeding the whole. -/
theorem split_calls (lfo : LineFnOf) (a : Inst) (t1 t2 : Str) (e : Ch) (he : eolCh e = true)
    (hmode : a.mode = .assemble) (hl : LineLocal (lfo a.opt)) (hinv : BufInv a)
    (h0 : 0 ≤ a.offset) (h1 : a.offset ≤ a.mem.length)
    (hsmall : a.mem.length + growth a * (t1.length + t2.length + 3) + 60 < 2 ^ 31)
    (hok1 : (asmAssembleStrWith lfo a t1).2 = .ok ())
    (hok2 : (asmAssembleStrWith lfo (asmAssembleStrWith lfo a t1).1 t2).2 = .ok ())
    (hok : (asmAssembleStrWith lfo a (t1 ++ e :: t2)).2 = .ok ())
    (hinv1 : BufInv (asmAssembleStrWith lfo a t1).1)
    (hsmall1 : (asmAssembleStrWith lfo a t1).1.mem.length +
      growth (asmAssembleStrWith lfo a t1).1 * (t2.length + 1) + 60 < 2 ^ 31)
    (hcfg : SameCfg a (asmAssembleStrWith lfo a t1).1 ∨
      ((asmAssembleStrWith lfo a t1).1.mode = a.mode ∧ (asmAssembleStrWith lfo a t1).1.opt = a.opt)) :
    (asmAssembleStrWith lfo a (t1 ++ e :: t2)).1.offset =
      (asmAssembleStrWith lfo (asmAssembleStrWith lfo a t1).1 t2).1.offset ∧
    ((asmAssembleStrWith lfo a (t1 ++ e :: t2)).1.mem.drop a.offset.toNat).take
        ((codesOf lfo a.opt t1).flatten ++ (codesOf lfo a.opt t2).flatten).length
      = (codesOf lfo a.opt t1).flatten ++ (codesOf lfo a.opt t2).flatten ∧
    ((asmAssembleStrWith lfo (asmAssembleStrWith lfo a t1).1 t2).1.mem.drop a.offset.toNat).take
        ((codesOf lfo a.opt t1).flatten ++ (codesOf lfo a.opt t2).flatten).length
      = (codesOf lfo a.opt t1).flatten ++ (codesOf lfo a.opt t2).flatten := by
  have hmo : (asmAssembleStrWith lfo a t1).1.mode = a.mode ∧ (asmAssembleStrWith lfo a t1).1.opt = a.opt := by
    rcases hcfg with h | h
    · exact ⟨h.1, h.2.2.1⟩
    · exact h
  -- first call
  have hA := concat_call lfo a t1 hmode hl hinv h0 h1
    (by have : growth a * (t1.length + 1) ≤ growth a * (t1.length + t2.length + 3) :=
          Nat.mul_le_mul_left _ (by omega)
        omega) hok1
  -- whole call
  have hW := concat_call lfo a (t1 ++ e :: t2) hmode hl hinv h0 h1
    (by simp only [List.length_append, List.length_cons]
        have : growth a * (t1.length + (t2.length + 1) + 1) ≤ growth a * (t1.length + t2.length + 3) :=
          Nat.mul_le_mul_left _ (by omega)
        omega) hok
  simp only at hA hW
  rw [← (program_code lfo a.opt hl _).1] at hA hW
  have hno : (itemsL (lfo a.opt) (linesOf t1)).err = none := by
    rw [← (program_code lfo a.opt hl t1).2]
    rw [plain_eq] at hok1
    simp only at hok1
    cases hx : (runCodes { a := a, bufPos := toU32 a.offset, brks := none } (codesOf lfo a.opt t1)).2 with
    | some er => simp [outcome, hx] at hok1
    | none =>
      cases herr : (items (lfo a.opt) (t1.length + 1) t1).err with
      | some er => simp [outcome, hx, herr] at hok1
      | none => rfl
  rw [split_codes lfo a.opt hl t1 t2 e he hno, List.flatten_append] at hW
  -- second call, on the instance the first call left
  generalize hb : (asmAssembleStrWith lfo a t1).1 = b at *
  obtain ⟨hoffA, hrdA, hpreA⟩ := hA
  have hb0 : 0 ≤ b.offset := by rw [hoffA]; omega
  have hlenA : a.offset.toNat + (codesOf lfo a.opt t1).flatten.length ≤ b.mem.length := by
    have e1 : (List.take (codesOf lfo a.opt t1).flatten.length (List.drop a.offset.toNat b.mem)).length =
        (codesOf lfo a.opt t1).flatten.length := congrArg List.length hrdA
    have e2 : (List.take (codesOf lfo a.opt t1).flatten.length (List.drop a.offset.toNat b.mem)).length ≤
        (List.drop a.offset.toNat b.mem).length := by
      rw [List.length_take]; exact Nat.min_le_right _ _
    rw [List.length_drop] at e2
    have hpos : 0 ≤ a.offset := h0
    have e3 := congrArg List.length hpreA
    simp only [List.length_take] at e3
    omega
  have hb1 : b.offset ≤ b.mem.length := by rw [hoffA]; omega
  have hB := concat_call lfo b t2 (by rw [hmo.1]; exact hmode) (by rw [hmo.2]; exact hl) hinv1 hb0 hb1
    hsmall1 hok2
  simp only at hB
  rw [hmo.2, ← (program_code lfo a.opt hl _).1] at hB
  obtain ⟨hoffB, hrdB, hpreB⟩ := hB
  obtain ⟨hoffW, hrdW, _⟩ := hW
  have hboff : b.offset.toNat = a.offset.toNat + (codesOf lfo a.opt t1).flatten.length := by
    rw [hoffA]; omega
  refine ⟨?_, hrdW, ?_⟩
  · rw [hoffW, hoffB, hoffA]
    simp only [List.length_append]; omega
  · rw [List.length_append, take_add_drop, ← hboff, hrdB]
    congr 1
    -- the first call's code lies before the second call's starting offset
    have e1 : ∀ (l : List Nat), (l.drop a.offset.toNat).take (codesOf lfo a.opt t1).flatten.length =
        ((l.take b.offset.toNat).drop a.offset.toNat).take (codesOf lfo a.opt t1).flatten.length := by
      intro l
      rw [List.drop_take, List.take_take, Nat.min_eq_left (by omega)]
    rw [e1, hpreB, ← e1, hrdA]

/-- non-vacuity: two lines, fed at once -/
example : (itemsL (assembleLine 14) (linesOf (str! "ret\nnop"))).codes = [[0xc3], [0x90]] := by decide

end AL.Properties.C06
