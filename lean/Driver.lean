/-
  aldriver — the model side of the line protocol (see harness/apidrv.c for the format).
  Reads operations from stdin, runs them on AL.Impl, prints one line per operation.
-/
import AL.Impl.Api
import AL.Properties.C11
import AL.Properties.KernelDefs
import AL.Properties.KernelDefs4
import AL.Spec.X86Families
import AL.Spec.X86FamiliesExtra
import AL.Impl.Faults
import AL.Impl.Cli
import AL.Impl.Debug
import Std.Data.HashMap
open AL AL.Impl AL.Gen

def hexDigit (n : Nat) : Char :=
  if n < 10 then Char.ofNat (48 + n) else Char.ofNat (87 + n)

def toHex (bs : List Nat) : String :=
  if bs.isEmpty then "-" else
  String.ofList (bs.foldr (fun b acc => hexDigit (b / 16 % 16) :: hexDigit (b % 16) :: acc) [])

def hexVal (c : Char) : Nat :=
  if '0' ≤ c && c ≤ '9' then c.toNat - 48
  else if 'a' ≤ c && c ≤ 'f' then c.toNat - 87
  else if 'A' ≤ c && c ≤ 'F' then c.toNat - 55
  else 0

def unhexGo : List Char → List Nat
  | a :: b :: rest => (hexVal a * 16 + hexVal b) :: unhexGo rest
  | _ => []

def unhex (s : String) : List Nat :=
  if s == "-" then [] else unhexGo s.toList

def scratchLen : Nat := 1024

structure DState where
  insts   : Array (Option Inst) := Array.replicate 16 none
  scratch : Inst := createExternal scratchLen (List.replicate scratchLen 0xCC)
  /-- per-line results observed on the implementation (table mode, see `lfTable`) -/
  table   : Std.HashMap (Nat × List Nat) (R LineOut) := {}
  useTable : Bool := false

/-- per-line function taken from a table of results observed on the implementation: the
    line is the text up to the first CR/LF, which is consumed together with that terminator.
    Used to tie the parser/API model to the code independently of the encoder. -/
def lfTable (tbl : Std.HashMap (Nat × List Nat) (R LineOut)) (opt : Nat) (text : Str) : R LineOut × Nat :=
  let l := text.takeWhile (fun c => !eolCh c)
  let n := if l.length < text.length then l.length + 1 else l.length
  match tbl[(opt, l)]? with
  | some r => (r, n)
  | none => (.error (.ub "line missing from the implementation table"), n)

def DState.lfo (st : DState) : LineFnOf :=
  if st.useTable then lfTable st.table else assembleLine

def setOptBits (a : Inst) (opt : Nat) : Inst :=
  let a := applySetter a .mov (opt % 4)
  let a := applySetter a .swap (if opt / 4 % 2 == 1 then c_NASM else c_STRICT)
  applySetter a .nobase (if opt / 8 % 2 == 1 then c_NASM else c_STRICT)

def rcOf (r : Except Err Unit) : String :=
  match r with
  | .ok _ => "0"
  | .error .fail => "1"
  | .error (.ub w) => "UB[" ++ w ++ "]"

def trimFill (l : List Nat) : List Nat :=
  (l.reverse.dropWhile (· == 0xCC)).reverse

def parseSetter (w : String) : Option Setter :=
  match w with
  | "mov" => some .mov | "sib" => some .sib | "swap" => some .swap
  | "nobase" => some .nobase | "all" => some .all | _ => none

def parseInt (s : String) : Int :=
  match s.toInt? with
  | some v => v
  | none => 0

def parseCliFlag (t : String) : Option Flag :=
  match t with
  | "nasm-mov-imm" => some .nasmMovImm | "strict-mov-imm" => some .strictMovImm | "smart-mov-imm" => some .smartMovImm
  | "nasm-sib" => some .nasmSib | "strict-sib" => some .strictSib
  | "nasm-sib-index-base-swap" => some .nasmSwap | "strict-sib-index-base-swap" => some .strictSwap
  | "nasm-sib-no-base" => some .nasmNoBase | "strict-sib-no-base" => some .strictNoBase
  | "n" => some .n | "t" => some .t | "s" => some .s | "p" => some .p | "P" => some .printfile
  | "o" => some (.object false) | "o." => some (.object true) | "r" => some .ret
  | _ =>
    if t.startsWith "c=" then some (.c (parseInt (t.drop 2).toString))
    else if t.startsWith "b=" then some (.b (parseInt (t.drop 2).toString))
    else none

def step (st : DState) (line : String) : DState × String :=
  let toks := (line.trimAscii.toString.splitOn " ").filter (· ≠ "")
  match toks with
  | ["L", opt, hex] =>
    let a := { st.scratch with mem := List.replicate scratchLen 0xCC, oob := [] }
    let a := setOptBits a opt.toNat!
    let a := setChunkSize a 0
    let a := setOffset a 0
    let (a, r) := asmAssembleStr a (unhex hex)
    let start : Nat := match r with
      | .ok _ => if 0 ≤ a.offset && a.offset ≤ scratchLen then a.offset.toNat else 0
      | _ => 0
    let out := rcOf r ++ " " ++ toString a.offset ++ " " ++ toHex (a.mem.take start) ++ " "
      ++ toHex (trimFill (a.mem.drop start))
      ++ (if a.oob.isEmpty then "" else " GUARD-BAD")
    ({ st with scratch := a }, out)
  | ["T", opt, hex, rc, bytes] =>
    let bs := unhex bytes
    let r : R LineOut := if rc == "0" then (if bs.isEmpty then .ok .skip else .ok (.code bs)) else .error .fail
    ({ st with table := st.table.insert (opt.toNat!, unhex hex) r }, "ok")
  | ["Y", v] => ({ st with useTable := v != "0" }, "ok")
  | ["Q", hex] =>
    -- reference decoder: all instructions of the byte string, or "?" where decoding fails
    (st, match AL.Spec.X86.decodeAll 64 (unhex hex) with
         | none => "?"
         | some ds => String.intercalate " ; " (ds.map AL.Spec.X86.Dec.render))
  | ["Q1", hex] =>
    -- reference decoder: the first instruction only (for the comparison with objdump)
    (st, match AL.Spec.X86.decode (unhex hex) with
         | none => "?"
         | some d => d.render)
  | ["CL", flags, stdin, prog, binOk] =>
    -- C20: asmline
    let fl := if flags == "-" then [] else (flags.splitOn ",").filterMap parseCliFlag
    let r := cliRun fl (stdin == "1") (if prog == "missing" then none else some (unhex prog)) (binOk == "1")
    let n := if r.a.offset > 0 then r.a.offset.toNat else 0
    (st, toString r.exit ++ " " ++ toString r.a.offset ++ " " ++ toHex (r.a.mem.take n) ++ " " ++
      (match r.count with | some c => toString c | none => "-"))
  | ["CO", flags, stdin, prog] =>
    -- C20: what asmline writes to stdout (model AL.Impl.cliStdout), as hex
    let fl := if flags == "-" then [] else (flags.splitOn ",").filterMap parseCliFlag
    let out := cliStdout fl (stdin == "1") (if prog == "missing" then none else some (unhex prog))
    (st, if out.isEmpty then "-" else toHex out)
  | ["KF4"] =>
    -- C04: the list-level family of the kernel-checked theorem AL.Properties.Kernel.c04_two_operand_forms is, text by text, what the
    -- String renderer writes for the same entries (the register forms of `famC04` for entries with at most two register operands)
    let a := AL.Properties.Kernel.entriesC04.flatMap fun en =>
      (AL.Spec.X86.items {} (AL.Spec.X86.enumEnc AL.Properties.Kernel.fillC04 en)).map fun it => it.text.toList.map Char.toNat
    let b := AL.Properties.Kernel.entriesC04.flatMap fun en => (AL.Spec.X86.enumEnc AL.Properties.Kernel.fillC04 en).filterMap fun d =>
      AL.Properties.Kernel.lineL4 d.mn d.ops
    (st, toString a.length ++ " " ++ toString b.length ++ " " ++ (if a == b then "same" else "different"))
  | ["KF"] =>
    -- C01: the list-level family of the kernel-checked theorem AL.Properties.Kernel.c01_every_instance is, text by text and in the
    -- same order, the family `famC01` this check runs on the C code (rendered through `String`)
    let a := AL.Spec.X86.famC01.map (fun it => it.text.toList.map Char.toNat)
    let b := AL.Properties.Kernel.entriesC01.flatMap fun en => (AL.Spec.X86.enumEnc AL.Spec.X86.fillRegs en).flatMap fun d =>
      (AL.Properties.Kernel.spellings d.mn).filterMap fun w => AL.Properties.Kernel.lineL w d.ops
    (st, toString a.length ++ " " ++ toString b.length ++ " " ++ (if a == b then "same" else "different"))
  | ["QM", name] => (st, AL.Spec.X86.Mn.str (AL.Spec.X86.canonMn (name.toList.map Char.toNat)))
  | ["FC", ext, mallocOk, mmapOk] =>
    -- C17: asm_create_instance under a refusing OS
    (st, match createWith (if ext == "1" then some (4096, List.replicate 4096 0xCC) else none) (mallocOk == "1") (mmapOk == "1") with
         | none => "null"
         | some _ => "ok")
  | ["FR", openOk, fstatOk, mallocOk, reads, hex] =>
    -- C17/C19: asm_read_file; reads = "-" or a comma list of "e" (error) / byte counts
    let rs : List ReadAns := if reads == "-" then [] else
      (reads.splitOn ",").map fun t => if t == "e" then ReadAns.err else ReadAns.bytes t.toNat!
    (st, match readFile (unhex hex) (openOk == "1") (fstatOk == "1") (mallocOk == "1") rs with
         | none => "null"
         | some t => if t.isEmpty then "-" else toHex t)
  | ["P", hex] =>
    -- C11: is the (single) line outside the three option-sensitive classes?  "-" = no encoder input
    (st, match AL.Properties.C11.lineEncoderInput (unhex hex) with
         | none => "-"
         | some e => if AL.Properties.C11.optPlainB e then "1" else "0")
  | op :: idS :: args =>
    let id := idS.toNat!
    if id ≥ 16 then (st, "bad-id") else
    let cur := st.insts[id]!
    let upd (a : Inst) : DState := { st with insts := st.insts.set! id (some a) }
    match op, args, cur with
    | "N", ["-"], _ => (upd createInternal, "ok")
    | "N", [l], _ =>
      -- "-<len>": library-managed buffer, the length argument is irrelevant (src/assemblyline.h)
      if l.startsWith "-" then (upd createInternal, "ok") else (st, "bad-op")
    | "N", [len, fill], _ =>
      let n := len.toNat!
      let f := (unhex (if fill.length == 1 then "0" ++ fill else fill)).headD 0
      (upd (createExternal n (List.replicate n f)), "ok")
    | "S", [w, v], some a =>
      match parseSetter w with
      | some sw =>
        -- enum argument arrives as a C int; negative values never equal 0,1,2
        let vi := parseInt v
        (upd (applySetter a sw (if vi < 0 then 1000000 else vi.toNat)), "ok")
      | none => (st, "ok")
    | "V", [_], some _ => (st, "ok")      -- asm_set_debug: the listing is the only thing it may change
    | "K", [n], some a =>
      let v := parseInt n
      (upd (setChunkSize a ((v % (2 ^ 64 : Int)).toNat)), "ok")
    | "O", [k], some a => (upd (setOffset a (parseInt k)), "ok")
    | "A", [hex], some a =>
      let (a, r) := asmAssembleStrWith st.lfo a (unhex hex)
      (upd a, rcOf r ++ " " ++ toString a.offset)
    | "C", [c, hex, d], some a =>
      let hasDest := d != "0"
      let (a, r, brks) := asmCountingChunksWith st.lfo a (unhex hex) (parseInt c) hasDest
      let ds := match brks with
        | some n => toString n
        | none => "-"
      (upd a, rcOf r ++ " " ++ toString a.offset ++ " " ++ ds)
    | "R", [_path, content], some a =>
      let file := if content == "missing" then none else readFile (unhex content) true true true []
      let (a, r) := asmAssembleFile a file
      (upd a, rcOf r ++ " " ++ toString a.offset)
    | "U", [c, _path, content, d], some a =>
      let file := if content == "missing" then none else readFile (unhex content) true true true []
      let (a, r, brks) := asmCountingChunksFile a file (parseInt c) (d != "0")
      -- (-777 is the harness's sentinel for "*dest was not written")
      let ds := match brks with
        | some n => toString n
        | none => if file.isNone && d != "0" then "-777" else "-"
      (upd a, rcOf r ++ " " ++ toString a.offset ++ " " ++ ds)
    | "W", [_path, flag], some a =>
      let (ok, file) := createBinFile a (flag == "ok" || flag == "stale") (2 ^ 40) true
      (st, (if ok then "0" else "1") ++ " " ++ (match file with
        | none => "nofile"
        | some bs => toHex bs))
    | "H", [_], _ => (st, "ok")      -- descriptor budget of the implementation process: no state of the model
    | "G", [], some a => (st, toString a.offset)
    | "D", [f, t], some a =>
      let f := f.toNat!
      let t := t.toNat!
      (st, toHex ((a.mem.drop f).take (t - f)))
    | "M", [], some a =>
      if a.external then (st, toHex a.mem ++ (if a.oob.isEmpty then " ok" else " BAD"))
      else (st, "internal")
    | "B", [], some a => (st, toString a.bufLen)
    | "FB", [fopenOk, written, fcloseOk], some a =>
      -- C17/C19: asm_create_bin_file
      let (ok, file) := createBinFile a (fopenOk == "1") written.toNat! (fcloseOk == "1")
      (st, (if ok then "0" else "1") ++ " " ++ (match file with
        | none => "nofile"
        | some bs => if bs.isEmpty then "-" else toHex bs))
    | "F", [], some _ => ({ st with insts := st.insts.set! id none }, "0")
    | _, _, _ => (st, "bad-op")
  | _ => (st, "bad-op")

partial def loop (h : IO.FS.Stream) (out : IO.FS.Stream) (st : DState) : IO Unit := do
  let line ← h.getLine
  if line.isEmpty then return ()
  if line.trimAscii.toString.isEmpty then
    loop h out st
  else
    let (st', o) := step st line
    out.putStrLn o
    loop h out st'

def main (args : List String) : IO Unit := do
  match args with
  | ["enum", fam, level] =>
    -- quantifier domain of a C01–C05 family: one line per instance, "<assembly text>\t<expected decoding>"
    let out ← IO.getStdout
    for it in AL.Spec.X86.family fam level.toNat! ++ (if fam == "c02" then AL.Spec.X86.famC02x else if fam == "c05" then AL.Spec.X86.famC05x else if fam == "c03" then AL.Spec.X86.famC03x else []) do
      out.putStrLn (it.text ++ "\t" ++ it.want.render)
  | _ =>
    let stdin ← IO.getStdin
    let stdout ← IO.getStdout
    loop stdin stdout {}
