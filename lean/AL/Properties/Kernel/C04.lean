/-
  AL.Properties.Kernel.C04 — **C04 for every form with at most two register operands, checked by Lean's KERNEL** (no native_decide).

  `c04_two_operand_forms`: for every MMX / SSE / AVX / BMI2 entry of the reference opcode table with at most two register operands (the
  packed arithmetic on mm and xmm registers, the conversions, movd / movq between general and vector registers, vmovdqu / vmovupd,
  psrldq and rorx with their immediate), EVERY register tuple of its register files, the byte boundary values of its immediate and
  EVERY option byte: the model of the library assembles the written line into bytes which the reference decoder reads back as exactly
  one instruction covering all of them — the written one, with the mandatory prefix, opcode map, REX / VEX fields accounted for by
  the decoder — or rejects a form outside the frozen supported list.  14 096 written lines in cells of 192 (`decide +kernel`), lifted
  from option byte 14 by `checkT_sound` (C11.other_lines_identical).  The three-operand VEX forms (4 096 register triples per entry,
  285 000 lines) stay with `Sweep.c04_sweep` (native_decide) and the field theorems `C04.vex_prefix_fields`, `C04.vecpair_fields`.
-/
import AL.Properties.Kernel.C04Parts
import AL.Properties.Kernel.C01
namespace AL.Properties.Kernel
open AL AL.Impl AL.Spec.X86

theorem entries4_count : entriesC04.length = 65 := by decide +kernel

set_option maxRecDepth 1000000 in
theorem instances4_le : entriesC04.all (fun en => decide ((enumEnc fillC04 en).length ≤ 14 * sliceLen)) = true := by decide +kernel

/-- **C04, every form with at most two register operands, every register tuple, every option byte** (kernel-checked) -/
theorem c04_two_operand_forms (en : Enc) (hen : en ∈ entriesC04) (d : Dec) (hd : d ∈ enumEnc fillC04 en) (opt : Nat) :
    ∃ text, lineL4 d.mn d.ops = some text ∧ holdsAtT opt text d.mn d = true := by
  obtain ⟨i, hi, hie⟩ := List.getElem_of_mem hen
  obtain ⟨k, hk, hdk⟩ := mem_slice (enumEnc fillC04 en) sliceLen (by decide) d hd
  have hin := instances4_le
  rw [List.all_eq_true] at hin
  have hl : (enumEnc fillC04 en).length ≤ 14 * sliceLen := by simpa using hin en hen
  have hk14 : k < 14 := by
    have : k * sliceLen < 14 * sliceLen := Nat.lt_of_lt_of_le hk hl
    exact Nat.lt_of_mul_lt_mul_right this
  have hc := cell4_ok i k (by rw [← entries4_count]; exact hi) hk14
  unfold cell4 at hc
  rw [List.getElem?_eq_getElem hi, hie] at hc
  dsimp only at hc
  rw [List.all_eq_true] at hc
  have hck := hc d hdk
  unfold checkK4 at hck
  cases hl4 : lineL4 d.mn d.ops with
  | none => rw [hl4] at hck; exact absurd hck (by simp)
  | some text =>
    rw [hl4] at hck
    exact ⟨text, rfl, checkT_sound text d.mn d hck opt⟩

/-- non-vacuity: `cvtdq2pd xmm9, xmm14` under an arbitrary option byte -/
example : holdsAtT 5 (str! "cvtdq2pd xmm9, xmm14") (mn! "cvtdq2pd")
    { mn := mn! "cvtdq2pd", ops := [.reg ⟨.xmm, 9⟩, .reg ⟨.xmm, 14⟩], len := 0 } = true := by decide +kernel

end AL.Properties.Kernel
