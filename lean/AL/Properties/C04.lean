/-
  C04 — MMX/SSE/AVX/AVX2/BMI2/ADX forms carry the right prefixes, VEX fields and registers.

  Statement: for every instance d of the family — every vector or VEX-encoded entry of the reference
  table over ALL register tuples of its register files (mm0–7, xmm0–15, ymm0–15, 32/64-bit general
  registers for BMI2/ADX) and its memory forms —  decode (assemble (render d)) = d: mandatory prefix,
  opcode map, VEX.L, W, vvvv and the inverted R/X/B bits are what the decoder needs to read the same
  operation, destination, sources, operand size and vector length.
   * `Sweep.c04_sweep` — the whole family (≈ 330 000 instances) on the model, by evaluation.
  The reference decoder's VEX reading (C4/C5 forms, inverted bits, vvvv, L, pp, mmmmm) is itself compared
  with objdump on every encoding the implementation produces (check side).
-/
import AL.Properties.Sweep.C04
namespace AL.Properties.C04
open AL.Spec.X86

def vexFields (bs : List Nat) : Option (Bool × Nat × Bool × Nat × Nat × Bool × Bool × Bool) :=
  (takeExt bs).map fun r => (r.1.r, r.1.vvvv, r.1.l, r.1.simd, r.1.map, r.1.x, r.1.b, r.1.w)

/-- **the two VEX forms carry the same fields**: for every second byte p, the C5 prefix reads as the C4
    prefix with X̄ = B̄ = 1, map 0F, W = 0 and the same R̄, vvvv, L, pp (kernel evaluation, all 256 values) -/
theorem vex2_is_vex3 :
    ((List.range 256).all fun p =>
      vexFields [0xC5, p, 0x58] == vexFields [0xC4, (p / 128) * 128 + 0x61, p % 128, 0x58]) = true := by decide +kernel

end AL.Properties.C04
