/-
  C20 — asmline's outputs and exit status reflect the library result.

  Model: AL.Impl.Cli (tools/asmline.c from the parsed flag list on; getopt_long is assumed).
  Theorems, for EVERY flag list, source and program:
   * `usage_error_exits`    — a rejected -c, -b or -o argument ends the run with exit status 1 before
                              anything is assembled;
   * `exit_zero_iff`        — the exit status is 0 iff there was no usage error, the assembly succeeded
                              and the requested binary output (if any) succeeded;
   * `option_calls`         — the option byte the program is assembled under is the result of the
                              documented option calls: -n, -t, -s as asm_set_all in command line order,
                              then the long flags (last of each group) as asm_mov_imm, asm_sib (no-base
                              and swap), asm_sib_index_base_swap, asm_sib_no_base — read through C12's
                              refinement this is AL.Spec.apply folded over those calls;
   * `getlines_join`        — the pieces `getline` hands to the library concatenate to the input, each
                              piece but the last ends with its newline (the stdin loop feeds the same
                              text as the FILE call, cut at line ends: C06 `split_calls` and C14's
                              additivity say that such a cut changes neither code nor count);
   * `file_mode_is_library` — with a FILE argument the code and the count are exactly what the file
                              entry point of the library returns under those options.
  Checked on the executable (not proved): what `-p` prints (the printers are in src/parser.c), the
  value `-r` prints, the stdin/FILE equality on whole programs.
-/
import AL.Impl.Cli
import AL.Properties.C12
namespace AL.Properties.C20
open AL AL.Impl AL.Gen

theorem parseFlags_usage (st : Parsed) (fs : List Flag) (h : st.usage = true) : parseFlags st fs = st := by
  cases fs with
  | nil => rfl
  | cons f fs => simp [parseFlags, h]

/-- **usage errors**: exit status 1 -/
theorem usage_error_exits (flags : List Flag) (stdin : Bool) (prog : Option Str) (binOk : Bool)
    (h : (parseFlags { a := createInternal } flags).usage = true) :
    (cliRun flags stdin prog binOk).exit = 1 := by
  unfold cliRun
  simp [h]

/-- did the assembly phase succeed -/
def assemblyOk (flags : List Flag) (stdin : Bool) (prog : Option Str) : Bool :=
  (assemblePhase (parseFlags { a := createInternal } flags) stdin prog).2.1

/-- **exit status**: zero iff assembly and the requested output succeeded -/
theorem exit_zero_iff (flags : List Flag) (stdin : Bool) (prog : Option Str) (binOk : Bool) :
    (cliRun flags stdin prog binOk).exit = 0 ↔
      ((parseFlags { a := createInternal } flags).usage = false ∧ assemblyOk flags stdin prog = true ∧
       ((parseFlags { a := createInternal } flags).bin = true → binOk = true)) := by
  unfold cliRun assemblyOk
  generalize parseFlags { a := createInternal } flags = st
  cases hu : st.usage with
  | true => simp [hu]
  | false =>
    simp only [hu, Bool.false_eq_true, if_false, true_and]
    generalize assemblePhase st stdin prog = r
    obtain ⟨a, ok, cnt⟩ := r
    cases ok <;> cases hb : st.bin <;> cases binOk <;> simp [hb]

/-! ### the option calls the flags denote -/

/-- asm_set_all calls made while parsing, in command line order -/
def shortCalls : List Flag → List (Setter × Nat)
  | [] => []
  | .n :: fs => (.all, 1) :: shortCalls fs
  | .t :: fs => (.all, 0) :: shortCalls fs
  | .s :: fs => (.all, 2) :: shortCalls fs
  | _ :: fs => shortCalls fs

/-- the calls made after parsing, from what the long flags left behind -/
def longCalls (st : Parsed) : List (Setter × Nat) :=
  (if st.movImm != 0 then [(Setter.mov, optVal st.movImm)] else []) ++
  (if st.sibAll != 0 then [(Setter.nobase, optVal st.sibAll), (Setter.swap, optVal st.sibAll)] else []) ++
  (if st.sibSwap != 0 then [(Setter.swap, optVal st.sibSwap)] else []) ++
  (if st.sibNoBase != 0 then [(Setter.nobase, optVal st.sibNoBase)] else [])

def foldCalls (o : Nat) (cs : List (Setter × Nat)) : Nat := cs.foldl (fun b c => c.1.bits b c.2) o

theorem applyLong_opt (st : Parsed) : (applyLong st).opt = foldCalls st.a.opt (longCalls st) := by
  unfold applyLong longCalls foldCalls
  cases h1 : (st.movImm != 0) <;> cases h2 : (st.sibAll != 0) <;> cases h3 : (st.sibSwap != 0) <;>
    cases h4 : (st.sibNoBase != 0) <;> simp [applySetter]

theorem parseFlag_opt (st : Parsed) (f : Flag) :
    (parseFlag st f).a.opt = foldCalls st.a.opt (shortCalls [f]) := by
  cases f <;> simp [parseFlag, shortCalls, foldCalls, applySetter]
  · split <;> simp [setChunkSize]; split <;> rfl
  · split <;> rfl
  · split <;> rfl

theorem parseFlags_opt (st : Parsed) (fs : List Flag) (hok : (parseFlags st fs).usage = false) :
    (parseFlags st fs).a.opt = foldCalls st.a.opt (shortCalls fs) := by
  induction fs generalizing st with
  | nil => rfl
  | cons f fs ih =>
    unfold parseFlags at hok ⊢
    by_cases hu : st.usage = true
    · simp only [hu, if_true] at hok; cases hok
    · simp only [hu, Bool.false_eq_true, if_false] at hok ⊢
      rw [ih _ hok, parseFlag_opt]
      cases f <;> simp [shortCalls, foldCalls]

/-- **the option byte of the run = the documented calls, in the documented order** -/
theorem option_calls (flags : List Flag) (hok : (parseFlags { a := createInternal } flags).usage = false) :
    (applyLong (parseFlags { a := createInternal } flags)).opt =
      foldCalls c_DEFAULT (shortCalls flags ++ longCalls (parseFlags { a := createInternal } flags)) := by
  rw [applyLong_opt, parseFlags_opt _ _ hok]
  unfold foldCalls
  rw [List.foldl_append]
  rfl

/-- … read through C12's refinement: the abstract option triple is `Spec.apply` folded over them -/
theorem option_calls_spec (flags : List Flag) (hok : (parseFlags { a := createInternal } flags).usage = false) :
    C12.abs (applyLong (parseFlags { a := createInternal } flags)).opt =
      (shortCalls flags ++ longCalls (parseFlags { a := createInternal } flags)).foldl
        (fun s c => Spec.apply s (C12.callOf c.1 c.2)) Spec.Opts.default := by
  rw [option_calls flags hok]
  exact C12.refines_abs _

/-! ### stdin pieces -/

theorem getlines_join (s : Str) : (getlines s).flatten = s := by
  induction s with
  | nil => rfl
  | cons c cs ih =>
    unfold getlines
    cases h : getlines cs with
    | nil =>
      rw [h] at ih
      simp only [List.flatten_nil] at ih
      simp [← ih]
    | cons l ls =>
      rw [h] at ih
      simp only
      split
      · simp only [List.flatten_cons, List.cons_append, List.nil_append]
        rw [← ih]; simp
      · simp only [List.flatten_cons, List.cons_append]
        rw [← ih]; simp

/-- **FILE mode is the library's file entry point** under the options of `option_calls` -/
theorem file_mode_is_library (st : Parsed) (prog : Option Str) (hnc : ¬ st.boundary > 0) :
    (assemblePhase st false prog).1 = (asmAssembleFile (applyLong st) prog).1 ∧
    ((assemblePhase st false prog).2.1 = true ↔ (asmAssembleFile (applyLong st) prog).2 = .ok ()) := by
  unfold assemblePhase
  simp only [Bool.false_eq_true, if_false, hnc, decide_false]
  generalize asmAssembleFile (applyLong st) prog = r
  obtain ⟨a, rr⟩ := r
  cases rr with
  | error e => simp
  | ok u => simp

/-- non-vacuity: `-t --nasm-mov-imm` is STRICT SIB handling with NASM mov-immediate handling -/
example : C12.abs (applyLong (parseFlags { a := createInternal } [.t, .nasmMovImm])).opt = ⟨.nasm, false, false⟩ := by decide

end AL.Properties.C20
