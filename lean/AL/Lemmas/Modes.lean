/-
  AL.Lemmas.Modes — how counting mode relates to plain mode, one instruction and whole runs.
-/
import AL.Lemmas.Contain
namespace AL.Lemmas
open AL AL.Impl AL.Gen

/-- the instance with assembly mode and chunk size replaced -/
def setMC (a : Inst) (m : Mode) (c : Nat) : Inst := { a with mode := m, chunkSize := c }

@[simp] theorem setMC_mode (a : Inst) (m : Mode) (c : Nat) : (setMC a m c).mode = m := rfl
@[simp] theorem setMC_chunk (a : Inst) (m : Mode) (c : Nat) : (setMC a m c).chunkSize = c := rfl
@[simp] theorem setMC_mem (a : Inst) (m : Mode) (c : Nat) : (setMC a m c).mem = a.mem := rfl

theorem check_setMC (a : Inst) (m : Mode) (c p : Nat) :
    checkLenOrResize (setMC a m c) p = (checkLenOrResize a p).map (fun a' => setMC a' m c) := by
  unfold checkLenOrResize setMC
  simp only
  split
  · split <;> rfl
  · rfl

theorem writeAt_setMC (a : Inst) (m : Mode) (c p : Nat) (bs : Bytes) :
    writeAt (setMC a m c) p bs = setMC (writeAt a p bs) m c := by
  unfold writeAt setMC
  simp only
  split <;> rfl

/-- spec: does an instruction of `len` bytes placed at `p` span two `c`-aligned chunks? -/
def crosses (c p len : Nat) : Bool := decide (0 < len ∧ p / c ≠ (p + len - 1) / c)

/-- spec: number of boundary-crossing instructions when `cs` is laid out from `p` -/
def crossCount (c : Nat) : Nat → List Bytes → Nat
  | _, [] => 0
  | p, bs :: rest => (if crosses c p bs.length then 1 else 0) + crossCount c (p + bs.length) rest

def totalLen : List Bytes → Nat
  | [] => 0
  | bs :: rest => bs.length + totalLen rest

/-- **one instruction in counting mode** = the same instruction in plain mode, plus the count -/
theorem emitOne_count (a0 : Inst) (p : Nat) (b0 : Option Int) (n : Int) (c : Nat) (bs : Bytes)
    (hm : a0.mode = .assemble) (hc2 : 2 ≤ c) (hc32 : c < 2 ^ 32) (hp : p + bs.length < 2 ^ 32) :
    emitOne { a := setMC a0 .count c, bufPos := p, brks := some n } bs =
      (let x := emitOne { a := a0, bufPos := p, brks := b0 } bs
       ({ a := setMC x.1.a .count c, bufPos := x.1.bufPos,
          brks := some (if x.2.isNone ∧ crosses c p bs.length then n + 1 else n) }, x.2)) := by
  unfold emitOne
  simp only [setMC_mode, hm, check_setMC]
  cases hck : checkLenOrResize a0 p with
  | error e => simp [Except.map]
  | ok a1 =>
    simp only [Except.map, setMC_chunk]
    have hc0 : (c == 0) = false := by simp; omega
    simp only [hc0, Bool.false_eq_true, if_false]
    by_cases hl : bs.length > c_BUFFER_TOLERANCE
    · simp [hl]
    · simp only [hl, if_false, writeAt_setMC]
      have hfree : (c - p % c) % 2 ^ 32 = c - p % c := Nat.mod_eq_of_lt (by omega)
      simp only [hfree]
      have hmodp : (p + bs.length) % 2 ^ 32 = p + bs.length := Nat.mod_eq_of_lt hp
      simp only [hmodp, Option.isNone_none, true_and]
      have hcrs : (bs.length > c - p % c) ↔ (crosses c p bs.length = true) := by
        unfold crosses
        rw [decide_eq_true_iff]
        by_cases h0 : bs.length = 0
        · have := Nat.mod_lt p (show 0 < c by omega)
          constructor
          · intro h; omega
          · intro h; omega
        · have hcr := cross_iff c p bs.length (by omega) (by omega)
          constructor
          · intro h; exact ⟨by omega, hcr.1 h⟩
          · intro h; exact hcr.2 h.2
      by_cases hx : crosses c p bs.length = true
      · have := hcrs.2 hx
        simp [hx, this]
      · have : ¬ (bs.length > c - p % c) := fun h => hx (hcrs.1 h)
        simp [hx, this]

end AL.Lemmas

namespace AL.Lemmas
open AL AL.Impl AL.Gen

theorem check_mode (a a' : Inst) (p : Nat) (h : checkLenOrResize a p = .ok a') : a'.mode = a.mode := by
  unfold checkLenOrResize at h
  split at h
  · split at h
    · cases h
    · injection h with h; subst h; rfl
  · injection h with h; subst h; rfl

theorem writeAt_mode (a : Inst) (p : Nat) (bs : Bytes) : (writeAt a p bs).mode = a.mode := by
  unfold writeAt; split <;> rfl

/-- a successful plain-mode step advances by the instruction length and keeps mode and `*dest` -/
theorem emitOne_plain_ok (r : Run) (bs : Bytes) (hm : r.a.mode = .assemble)
    (h : (emitOne r bs).2 = none) :
    (emitOne r bs).1.bufPos = (r.bufPos + bs.length) % 2 ^ 32 ∧
    (emitOne r bs).1.a.mode = .assemble ∧ (emitOne r bs).1.brks = r.brks := by
  unfold emitOne at h ⊢
  simp only [hm] at h ⊢
  cases hck : checkLenOrResize r.a r.bufPos with
  | error e => simp [hck] at h
  | ok a1 =>
    simp only [hck] at h ⊢
    by_cases hl : bs.length > c_BUFFER_TOLERANCE
    · simp [hl] at h
    · simp only [hl, if_false, true_and, and_true]
      rw [writeAt_mode, check_mode _ _ _ hck, hm]

/-- **a whole run in counting mode** = the plain run, plus the number of crossing instructions -/
theorem runCodes_count (cs : List Bytes) (a0 : Inst) (p : Nat) (b0 : Option Int) (n : Int) (c : Nat)
    (hm : a0.mode = .assemble) (hc2 : 2 ≤ c) (hc32 : c < 2 ^ 32) (hp : p + totalLen cs < 2 ^ 32) :
    ∃ k, runCodes { a := setMC a0 .count c, bufPos := p, brks := some n } cs =
        ({ a := setMC (runCodes { a := a0, bufPos := p, brks := b0 } cs).1.a .count c,
           bufPos := (runCodes { a := a0, bufPos := p, brks := b0 } cs).1.bufPos, brks := some k },
         (runCodes { a := a0, bufPos := p, brks := b0 } cs).2) ∧
      ((runCodes { a := a0, bufPos := p, brks := b0 } cs).2 = none → k = n + crossCount c p cs) := by
  induction cs generalizing a0 p n with
  | nil => exact ⟨n, by simp [runCodes, setMC], by intro _; simp [crossCount]⟩
  | cons bs rest ih =>
    simp only [totalLen] at hp
    have h1 := emitOne_count a0 p b0 n c bs hm hc2 hc32 (by omega)
    unfold runCodes
    rw [h1]
    rcases hx : emitOne { a := a0, bufPos := p, brks := b0 } bs with ⟨r1, e1⟩
    cases e1 with
    | some e => exact ⟨n, by simp, by intro h; simp at h⟩
    | none =>
      have hok := emitOne_plain_ok { a := a0, bufPos := p, brks := b0 } bs hm (by rw [hx])
      rw [hx] at hok
      simp only at hok
      obtain ⟨hbp, hmode, hbr⟩ := hok
      have hbp' : r1.bufPos = p + bs.length := by rw [hbp]; exact Nat.mod_eq_of_lt (by omega)
      simp only [Option.isNone_none, true_and]
      obtain ⟨k, hk1, hk2⟩ := ih r1.a r1.bufPos (if crosses c p bs.length = true then n + 1 else n)
        hmode (by rw [hbp']; omega)
      have hr1 : ({ a := r1.a, bufPos := r1.bufPos, brks := b0 } : Run) = r1 := by
        cases r1; simp only at hbr; subst hbr; rfl
      rw [hr1] at hk1 hk2
      refine ⟨k, hk1, ?_⟩
      intro hnone
      rw [hk2 hnone, hbp']
      simp only [crossCount]
      split <;> omega

end AL.Lemmas

namespace AL.Lemmas
open AL AL.Impl AL.Gen

/-- the fields of an instance that assembling never touches -/
def SameCfg (a a' : Inst) : Prop :=
  a'.mode = a.mode ∧ a'.chunkSize = a.chunkSize ∧ a'.opt = a.opt ∧ a'.offset = a.offset ∧
  a'.external = a.external

theorem SameCfg.refl (a : Inst) : SameCfg a a := ⟨rfl, rfl, rfl, rfl, rfl⟩
theorem SameCfg.trans {a b c : Inst} (h1 : SameCfg a b) (h2 : SameCfg b c) : SameCfg a c :=
  ⟨h2.1.trans h1.1, h2.2.1.trans h1.2.1, h2.2.2.1.trans h1.2.2.1, h2.2.2.2.1.trans h1.2.2.2.1,
   h2.2.2.2.2.trans h1.2.2.2.2⟩

theorem check_cfg (a a' : Inst) (p : Nat) (h : checkLenOrResize a p = .ok a') : SameCfg a a' := by
  unfold checkLenOrResize at h
  split at h
  · split at h
    · cases h
    · injection h with h; subst h; exact ⟨rfl, rfl, rfl, rfl, rfl⟩
  · injection h with h; subst h; exact SameCfg.refl _

theorem writeAt_cfg (a : Inst) (p : Nat) (bs : Bytes) : SameCfg a (writeAt a p bs) := by
  unfold writeAt; split <;> exact ⟨rfl, rfl, rfl, rfl, rfl⟩

theorem emitOne_cfg (r : Run) (bs : Bytes) : SameCfg r.a (emitOne r bs).1.a := by
  unfold emitOne
  split
  · split
    · exact SameCfg.refl _
    · rename_i a hc
      split
      · exact SameCfg.refl _
      · exact (check_cfg _ _ _ hc).trans (writeAt_cfg _ _ _)
  · split
    · exact SameCfg.refl _
    · split
      · exact SameCfg.refl _
      · rename_i a hc
        split
        · exact SameCfg.refl _
        · split
          · exact SameCfg.refl _
          · exact (check_cfg _ _ _ hc).trans (writeAt_cfg _ _ _)
  · split
    · exact SameCfg.refl _
    · rename_i a hc
      split
      · exact SameCfg.refl _
      · split
        · exact SameCfg.refl _
        · have h1 := (check_cfg _ _ _ hc).trans (writeAt_cfg a r.bufPos bs)
          dsimp only
          split
          · exact h1
          · have h2 := h1.trans (writeAt_cfg _ r.bufPos (nopPadding (a.chunkSize - r.bufPos % a.chunkSize)))
            split
            · exact h2
            · rename_i a3 hc3
              have h3 := h2.trans (check_cfg _ _ _ hc3)
              split <;> exact h3.trans (writeAt_cfg a3 _ bs)

theorem runCodes_cfg (cs : List Bytes) (r : Run) : SameCfg r.a (runCodes r cs).1.a := by
  induction cs generalizing r with
  | nil => exact SameCfg.refl _
  | cons bs rest ih =>
    unfold runCodes
    have h := emitOne_cfg r bs
    rcases hx : emitOne r bs with ⟨r1, e⟩
    rw [hx] at h
    cases e with
    | some e => exact h
    | none => exact h.trans (ih r1)

end AL.Lemmas

namespace AL.Lemmas
open AL AL.Impl AL.Gen

/-- plain mode reads neither the chunk size nor `*dest` -/
theorem emitOne_plain_setMC (a0 : Inst) (p : Nat) (b0 b1 : Option Int) (c' : Nat) (bs : Bytes)
    (hm : a0.mode = .assemble) :
    emitOne { a := setMC a0 .assemble c', bufPos := p, brks := b1 } bs =
      (let x := emitOne { a := a0, bufPos := p, brks := b0 } bs
       ({ a := setMC x.1.a .assemble c', bufPos := x.1.bufPos, brks := b1 }, x.2)) := by
  unfold emitOne
  simp only [setMC_mode, hm, check_setMC]
  cases hck : checkLenOrResize a0 p with
  | error e => simp [Except.map]
  | ok a1 =>
    simp only [Except.map]
    by_cases hl : bs.length > c_BUFFER_TOLERANCE
    · simp [hl]
    · simp [hl, writeAt_setMC]

theorem runCodes_plain_setMC (cs : List Bytes) (a0 : Inst) (p : Nat) (b0 b1 : Option Int) (c' : Nat)
    (hm : a0.mode = .assemble) :
    runCodes { a := setMC a0 .assemble c', bufPos := p, brks := b1 } cs =
      (let x := runCodes { a := a0, bufPos := p, brks := b0 } cs
       ({ a := setMC x.1.a .assemble c', bufPos := x.1.bufPos, brks := b1 }, x.2)) := by
  induction cs generalizing a0 p with
  | nil => simp [runCodes]
  | cons bs rest ih =>
    unfold runCodes
    rw [emitOne_plain_setMC a0 p b0 b1 c' bs hm]
    rcases hx : emitOne { a := a0, bufPos := p, brks := b0 } bs with ⟨r1, e1⟩
    cases e1 with
    | some e => simp
    | none =>
      simp only
      have hok := emitOne_plain_ok { a := a0, bufPos := p, brks := b0 } bs hm (by rw [hx])
      rw [hx] at hok
      obtain ⟨_, hmode, hbr⟩ := hok
      have hr1 : ({ a := r1.a, bufPos := r1.bufPos, brks := b0 } : Run) = r1 := by
        cases r1; simp only at hbr; subst hbr; rfl
      have := ih r1.a r1.bufPos hmode
      rw [hr1] at this
      exact this

end AL.Lemmas
