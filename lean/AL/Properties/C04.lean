/-
  C04 — MMX/SSE/AVX/AVX2/BMI2/ADX forms carry the right prefixes, VEX fields and registers.

  Statement: for every instance d of the family — every vector or VEX-encoded entry of the reference
  table over ALL register tuples of its register files (mm0–7, xmm0–15, ymm0–15, 32/64-bit general
  registers for BMI2/ADX) and its memory forms —  decode (assemble (render d)) = d: mandatory prefix,
  opcode map, VEX.L, W, vvvv and the inverted R/X/B bits are what the decoder needs to read the same
  operation, destination, sources, operand size and vector length.
   * `Sweep.c04_sweep` — the whole family (≈ 330 000 instances) on the model, by evaluation;
   * `vex_prefix_fields` — kernel-checked: for EVERY VEX slot value of the regenerated table, every REX state, vvvv and operand width, the
                         prefix `assemble_VEX` emits (C5 or C4 form, its choice) reads back with the right R̄ X̄ B̄, vvvv, L, pp, map and W;
   * `vecpair_fields`    — kernel-checked: REX.R/REX.B and ModRM name the two registers for every pair of mm / xmm / ymm registers.
  The reference decoder's VEX reading (C4/C5 forms, inverted bits, vvvv, L, pp, mmmmm) is itself compared
  with objdump on every encoding the implementation produces (check side).
-/
import AL.Properties.Sweep.C04
import AL.Properties.C01
import AL.Impl.Assembler
namespace AL.Properties.C04
open AL AL.Impl AL.Gen AL.Spec.X86

def vexFields (bs : List Nat) : Option (Bool × Nat × Bool × Nat × Nat × Bool × Bool × Bool) :=
  (takeExt bs).map fun r => (r.1.r, r.1.vvvv, r.1.l, r.1.simd, r.1.map, r.1.x, r.1.b, r.1.w)

/-- **the two VEX forms carry the same fields**: for every second byte p, the C5 prefix reads as the C4
    prefix with X̄ = B̄ = 1, map 0F, W = 0 and the same R̄, vvvv, L, pp (kernel evaluation, all 256 values) -/
theorem vex2_is_vex3 :
    ((List.range 256).all fun p =>
      vexFields [0xC5, p, 0x58] == vexFields [0xC4, (p / 128) * 128 + 0x61, p % 128, 0x58]) = true := by decide +kernel

/-- every VEX slot value of the regenerated instruction table (the enum marker removed) -/
def vexSlots : List Nat :=
  (instrTable.flatMap fun r => (r.opcode.take r.size).filter fun s => (s &&& (2 ^ 32 - 256)) != 0 && (s &&& c_GET_EN) == c_VEX).map
    (fun s => s &&& (2 ^ 32 - 1 - c_GET_EN)) |>.eraseDups

/-- the REX values the operand encoders can leave in the record: none, or 0x40 with any of W R X B -/
def rexVals : List Nat := 0 :: (List.range 16).map (· + 0x40)

/-- a record with the given prefix state -/
def vexRec (rex vvvv : Nat) (w0 : Bool) : Instr := { hex := { rex := rex, vvvv := vvvv, isW0 := w0 } }

/-- what the slot value and the record say the prefix has to carry:
    (R, vvvv, L, pp, map, X, B, W) — R/X/B from the REX bits the operand encoders computed, vvvv from the record, L, pp and the opcode map from
    the slot (bit 3, bits 1-2, bits 9-13 of the table value), W from the slot, or from the operand width for the rows marked W0_W1 -/
def vexWant (v rex vvvv : Nat) (w0 : Bool) : Bool × Nat × Bool × Nat × Nat × Bool × Bool × Bool :=
  (rex &&& 4 != 0, vvvv, v &&& 8 != 0, (v >>> 1) &&& 3, (v >>> 9) &&& 31, rex &&& 2 != 0, rex &&& 1 != 0,
   if (v &&& 257) == 257 then w0 else v &&& 256 != 0)

/-- **the VEX prefix carries the right fields** (kernel evaluation): for EVERY VEX slot value of the regenerated table, every REX state
    the operand encoders can leave (none, or any of W R X B), every vvvv register number and either operand width, the bytes `assemble_VEX`
    emits — the two-byte C5 form or the three-byte C4 form, whichever it chooses — are read by the reference decoder as a prefix with
    R̄ X̄ B̄ the inverted extension bits, that vvvv (inverted), and the L, pp, opcode map and W the table row asks for -/
theorem vex_prefix_fields :
    (vexSlots.all fun v => rexVals.all fun rex => (List.range 16).all fun vv => [false, true].all fun w0 =>
      vexFields (assembleVEX (vexRec rex vv w0) v ++ [0x58]) == some (vexWant v rex vv w0)) = true := by decide +kernel

example : vexSlots.length = 15 ∧ vexSlots.contains 1345 = true := by decide +kernel
/-- the short form is chosen when it can be: no X, no B, map 0F, W irrelevant -/
example : assembleVEX (vexRec 0x44 3 false) 587 = [0xC5, 0x65] ∧ assembleVEX (vexRec 0x41 3 false) 587 = [0xC4, 0xC1, 0x65] := by decide +kernel


/-- the vector register files: REX.R / REX.B (which `assemble_VEX` inverts into the VEX prefix, see `C04.vex_prefix_fields`)
    and the ModRM byte name the two registers; no REX at all for mm0-7 and for two low registers -/
def vecFieldsOk (c : Cls) (m r : Reg) : Bool :=
  let s0 : Instr := { modDisp := c_MOD24 }
  let (s1, rex) := getRexPrefix s0 (AL.Properties.C01.regOpd m) (AL.Properties.C01.regOpd r)
  match getRegFinish s1 (AL.Properties.C01.regOpd m) (AL.Properties.C01.regOpd r).reg with
  | .error _ => false
  | .ok s2 =>
    let modrm := s2.hex.reg
    (rex == 0 || (0x40 ≤ rex && rex ≤ 0x4f)) && modrm / 64 == 3 && modrm < 256 &&
    mkReg c 0 (rex != 0) (modrm % 8 + 8 * (rex % 2)) == m &&
    mkReg c 0 (rex != 0) ((modrm / 8) % 8 + 8 * ((rex / 4) % 2)) == r &&
    (rex / 2) % 2 == 0 && ((m.num < 8 && r.num < 8) → rex == 0)

/-- **REX.R / REX.B and ModRM of every vector register pair** (kernel evaluation): mm0-7, xmm0-15, ymm0-15 -/
theorem vecpair_fields :
    ([Cls.mm, .xmm, .ymm].all fun c => (regsOf c 0).all fun m => (regsOf c 0).all fun r => vecFieldsOk c m r) = true := by decide +kernel


end AL.Properties.C04
