/-
  AL.Impl.Filter — src/parser.c: filter_assembly_str_fsa and the line-splitting half of
  str_to_instr (how many characters one "line" consumes, and whether it is skipped).
-/
import AL.Impl.CStr
namespace AL.Impl
open AL

inductive FState | begin | firstCh | spaceFound
deriving DecidableEq, Repr

/-- MAX_LINE_LEN - 1 (src/parser.c): the most characters a filtered line may have. -/
def maxFiltered : Nat := 99

def tolower (c : Ch) : Ch := if ch! 'A' ≤ c && c ≤ ch! 'Z' then c + 32 else c

/-- characters that end the significant part of a line (NUL is the end of the list) -/
def stopCh (c : Ch) : Bool := c == ch! ';' || c == ch! '%' || c == 13 || c == 10

/-- one step of the switch: new state and the character appended (if any) -/
def filterStep (st : FState) (c : Ch) : FState × Option Ch :=
  match st with
  | .begin =>
    if ch! 'A' ≤ c && c ≤ ch! 'z' then (.firstCh, some (tolower c)) else (.begin, none)
  | .firstCh =>
    if ch! '!' < c && c < 128 then (.firstCh, some (tolower c))
    else if c == 32 || c == 9 then (.spaceFound, some 32)
    else (.firstCh, none)
  | .spaceFound =>
    if ch! '!' < c && c < 128 then (.spaceFound, some (tolower c)) else (.spaceFound, none)

/-- `filter_assembly_str_fsa`: `none` = ASM_ERROR (byte above '~', or more significant
    characters than `filter_str` holds); otherwise the filtered string (reversed accumulator
    `acc`, `j = acc.length`) and the index `i` where it stopped. -/
def filterGo (st : FState) (acc : Str) (j i : Nat) : Str → Option (Str × Nat)
  | [] => some (acc.reverse, i)
  | c :: cs =>
    if stopCh c then some (acc.reverse, i)
    else
      match filterStep st c with
      | (st', some o) =>
        if j ≥ maxFiltered then none
        else if c > 126 then none else filterGo st' (o :: acc) (j + 1) (i + 1) cs
      | (st', none)   => if c > 126 then none else filterGo st' acc j (i + 1) cs

def filterLine (s : Str) : Option (Str × Nat) := filterGo .begin [] 0 0 s

def eolCh (c : Ch) : Bool := c == 10 || c == 13

/-- number of characters `str_to_instr` consumes given that the filter stopped at `i`:
    up to and including the first CR or LF at or after `i`, or to the end of the text. -/
def lineLen (s : Str) (i : Nat) : Nat :=
  let tail := s.drop i
  let k := (tail.takeWhile (fun c => !eolCh c)).length
  if i + k < s.length then i + k + 1 else i + k

/-- the label / section / global / empty test of `str_to_instr` -/
def isSkipped (f : Str) : Bool :=
  f.isEmpty || contains f (str! "section") || contains f (str! "global") || f.contains (ch! ':')

end AL.Impl
