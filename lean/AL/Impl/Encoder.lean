/-
  AL.Impl.Encoder — src/encoder.c and get_opcode_offset (src/reg_parser.c).
-/
import AL.Impl.Prefix
namespace AL.Impl
open AL AL.Gen

def typeIs (key : Int) (t : Nat) : Bool := (rowAt key).type == t
def nameIs (key : Int) (n : Int) : Bool := (rowAt key).id == n

def inR (x lo hi : Nat) : Bool := lo ≤ x && x ≤ hi

/-- `get_opcode_offset`. -/
def getOpcodeOffset (s : Instr) : Nat :=
  let base := s.opd0.reg &&& c_MODE_MASK
  let index := s.opd0.index &&& c_MODE_MASK
  let base2 := s.opd1.reg &&& c_MODE_MASK
  let index2 := s.opd1.index &&& c_MODE_MASK
  if s.memDisp then 1
  else if inR base c_reg16 c_ext64 || inR base2 c_reg16 c_ext64 then 1
  else if inR index c_reg16 c_ext64 || inR index2 c_reg16 c_ext64 then 1
  else 0

/-- `auto_set_byte`. -/
def autoSetByte (s : Instr) : Instr :=
  if typeIs s.key c_BYTE_OPD then { s with kw := { s.kw with isByte := true }, opOffset := 0 } else s

/-- `auto_set_operand`. -/
def autoSetOperand (s : Instr) (r : Nat) : Instr :=
  if s.kw.any || band r c_reg64 then s
  else if (r &&& c_BIT_MASK) == c_BIT_32 then { s with kw := { s.kw with isDword := true } }
  else if (r &&& c_BIT_MASK) == c_BIT_16 then { s with kw := { s.kw with isWord := true } }
  else if r < c_reg16 then { s with kw := { s.kw with isByte := true }, opOffset := 0 }
  else s

/-- `encode_offset`. -/
def encodeOffset (s : Instr) : Instr :=
  if (s.opd0.reg &&& c_MODE_MASK) == c_noext8 || (s.opd1.reg &&& c_MODE_MASK) == c_noext8 then s
  else if !typeIs s.key c_CONTROL_FLOW && !s.kw.isByte then { s with opOffset := getOpcodeOffset s }
  else s

/-- 0x67 for 32-bit address registers, 0x66 for a 16-bit base register -/
def setAddrPrefixes (s : Instr) (m : Operand) : Instr :=
  let s := if (m.reg &&& c_BIT_MASK) == c_BIT_32 || (m.index &&& c_BIT_MASK) == c_BIT_32
           then { s with hex := { s.hex with is67 := true } } else s
  if (m.reg &&& c_BIT_MASK) == c_BIT_16 then { s with hex := { s.hex with is66 := true } } else s

/-- the index/base swap of a stack-pointer index -/
def swapOperand (m : Operand) (swap : Bool) : Operand :=
  if swap then { m with index := m.reg, reg := m.index } else m

/-- rsp/r12 as only register needs the SIB byte 0x24 -/
def markSibConst (s : Instr) (m : Operand) : Instr :=
  if (m.reg &&& c_VALUE_MASK) == c_spl && m.index == c_reg_none then { s with isSibConst := true } else s

/-- rbp/r13 base with zero displacement needs mod 01 and a zero byte -/
def zeroDispFix (s : Instr) (m : Operand) : Instr :=
  if s.memOffset != 0 then s else
  let regOpd := m.reg &&& c_MODE_MASK
  if regOpd > c_ext16 && regOpd < c_mmx64 && (m.reg &&& c_VALUE_MASK) == c_bpl
  then { s with modDisp := c_MOD8, zeroByte := true }
  else s

/-- `encode_mem` for a line that has a memory operand, given whether the index/base swap fires -/
def encodeMemCore (s : Instr) (mi : Nat) (swap : Bool) : Instr :=
  let m := swapOperand (s.opd mi) swap
  zeroDispFix (markSibConst ((setAddrPrefixes s (s.opd mi)).setOpd mi m) m) m

/-- does encode_mem swap index and base?  (NASM_SIB_INDEX_BASE_SWAP, unscaled stack-pointer index) -/
def swapFires (opt : Nat) (s : Instr) (mi : Nat) : Bool :=
  band opt c_NASM_SIB_INDEX_BASE_SWAP && ((s.opd mi).index &&& c_REG_MASK) == c_spl && s.sibDisp == 0

/-- `encode_mem`: returns the new record and whether the result was different from NA
    (i.e. whether there is a memory operand). -/
def encodeMem (opt : Nat) (s : Instr) (mi : Nat) : Instr × Bool :=
  if !s.memDisp then (s, false) else (encodeMemCore s mi (swapFires opt s mi), true)

/-- `instrc->hex.rex = get_rex_prefix(instrc, m, r)` -/
def setRex (s : Instr) (m r : Operand) : Instr :=
  let (s, rex) := getRexPrefix s m r
  { s with hex := { s.hex with rex := rex } }

/-- `encode_two_opds`. -/
def encodeTwoOpds (opt : Nat) (s : Instr) (r m : Nat) : R Instr :=
  let (s, hasMem) := encodeMem opt s m
  let s := if hasMem then autoSetOperand s (s.opd r).reg else s
  match getReg opt s m (s.opd r).reg with
  | .error e => .error e
  | .ok s => .ok (setRex s (s.opd m) (s.opd r))

/-- `encode_three_opds`. -/
def encodeThreeOpds (opt : Nat) (s : Instr) (r m v : Nat) : R Instr :=
  let (s, hasMem) := encodeMem opt s m
  let s := if hasMem then autoSetOperand s (s.opd r).reg else s
  let s := { s with hex := { s.hex with vvvv := (s.opd v).reg &&& c_MASK_4BIT } }
  match getReg opt s m (s.opd r).reg with
  | .error e => .error e
  | .ok s => .ok (setRex s (s.opd m) (s.opd r))

def noRegister : Operand := { reg := c_reg_none, index := c_reg_none }

/-- O encoding, far call/jmp through memory: REX.W unless word/dword, and the next /digit -/
def farAdjust (s : Instr) (regR : Nat) : Instr × Nat :=
  if s.kw.isFar && (s.memDisp || s.memValue) then
    let s := if !s.kw.isWord && !s.kw.isDword
             then { s with hex := { s.hex with rex := s.hex.rex ||| c_rex_w } } else s
    (s, (regR + 1) % 2 ^ 32)
  else (s, regR)

/-- O encoding, register operand: REX.B for r8..r15 and r8w..r15w -/
def rexBExt (s : Instr) (m : Nat) : Instr :=
  if band (s.opd m).reg c_REG_RB
  then { s with hex := { s.hex with rex := s.hex.rex ||| (c_rex_ + c_rex_b) } } else s

/-- O encoding, memory operand, after get_reg: mod and r/m from `hex.reg`, REX.B / REX.X from the
    base and index registers -/
def setRdOffsetMem (s : Instr) (m : Nat) : Instr :=
  let s := { s with rdOffset := s.hex.reg &&& (c_MOD24 ||| c_VALUE_MASK) }
  let s := if (s.opd m).reg != c_NO_BASE && band (s.opd m).reg c_REG_RB
           then { s with hex := { s.hex with rex := s.hex.rex ||| (c_rex_ + c_rex_b) } } else s
  if (s.opd m).index != c_reg_none && band (s.opd m).index c_REG_RB
  then { s with hex := { s.hex with rex := s.hex.rex ||| (c_rex_ + c_rex_x) } } else s

/-- O encoding, register operand, after get_reg -/
def setRdOffsetReg (s : Instr) (m : Nat) : Instr :=
  let s := rexBExt s m
  { s with rdOffset := (s.opd m).reg &&& c_VALUE_MASK }

/-- `encode_special_opd(instrc, FIRST_OPERAND, SECOND_OPERAND)`. -/
def encodeSpecialOpd (opt : Nat) (s : Instr) (m i : Nat) : R Instr :=
  let row := rowAt s.key
  if row.enc == c_M then
    let (s, _) := encodeMem opt s m
    match getReg opt s m row.singleReg with
    | .error e => .error e
    | .ok s => .ok (setRex s (s.opd m) noRegister)
  else if row.enc == c_O then
    let (s, _) := encodeMem opt s m
    let sr := farAdjust s row.singleReg
    match getReg opt sr.1 m sr.2 with
    | .error e => .error e
    | .ok s => .ok (if s.memDisp then setRdOffsetMem s m else setRdOffsetReg s m)
  else if row.enc == c_I then .ok (setRex s (s.opd m) (s.opd i))
  else .ok s

/-- `encode_operands`, first part: the xchg accumulator form (operand swap, next row, rd) -/
def xchgAdjust (s : Instr) : Instr :=
  if nameIs s.key c_xchg && !s.memDisp &&
     !(s.opd0.reg == (c_reg32 ||| c_al) && s.opd1.reg == (c_reg32 ||| c_al)) then
    let s :=
      if (s.opd0.reg &&& c_MODE_MASK) > c_noext8 && (s.opd0.reg &&& c_REG_MASK) == c_al then
        { s with opd0 := s.opd1, opd1 := s.opd0, key := s.key + 1 }
      else if (s.opd1.reg &&& c_MODE_MASK) > c_noext8 && (s.opd1.reg &&& c_REG_MASK) == c_al then
        { s with key := s.key + 1 }
      else s
    { s with rdOffset := s.opd0.reg &&& c_VALUE_MASK }
  else s

/-- `encode_operands`: movzx from a 16-bit source is the next row (0f b7); the `word` keyword of a
    memory source becomes `dword` so that it is not emitted as an operand-size prefix -/
def movzxAdjust (s : Instr) : Instr :=
  if nameIs s.key c_movzx then
    let srcMode := s.opd1.reg &&& c_MODE_MASK
    if (if s.memDisp then s.kw.isWord else (srcMode == c_reg16 || srcMode == c_ext16)) then
      let s := { s with key := s.key + 1 }
      if s.kw.isWord then { s with kw := { s.kw with isWord := false, isDword := true } } else s
    else s
  else s

/-- `encode_operands`, the switch over the operand encoding of the selected row -/
def dispatchEnc (opt : Nat) (s : Instr) : R Instr :=
  let enc := (rowAt s.key).enc
  if enc == c_MR then encodeTwoOpds opt s 1 0
  else if enc == c_RM then encodeTwoOpds opt s 0 1
  else if enc == c_RVM then encodeThreeOpds opt s 0 2 1
  else if enc == c_RMV then encodeThreeOpds opt s 0 1 2
  else encodeSpecialOpd opt s 0 1

/-- `encode_operands`. -/
def encodeOperands (opt : Nat) (s : Instr) : R Instr :=
  let s := movzxAdjust (xchgAdjust s)
  dispatchEnc opt (if s.memDisp then autoSetByte s else s)

/-- `nasm_register_size_optimize`. -/
def nasmRegisterSizeOptimize (s : Instr) : Instr :=
  let r := s.opd0.reg
  if (r &&& c_MODE_MASK) == c_reg64 then { s with opd0 := { s.opd0 with reg := (r &&& c_MODE_CLEAR) ||| c_reg32 } }
  else if (r &&& c_MODE_MASK) == c_ext64 then { s with opd0 := { s.opd0 with reg := (r &&& c_MODE_CLEAR) ||| c_ext32 } }
  else s

/-- the NASM_MOV_IMM bit as the encoder sees it: under SMART it was cleared at the start of the
    line and set again by imm_tok for a short hexadecimal literal -/
def effNasm (opt : Nat) (s : Instr) : Bool :=
  if band opt c_SMART_MOV_IMM then s.narrowOk else band opt c_NASM_MOV_IMM

/-- `encode_imm_data_transfer`, imm ≤ 0xffffffff: narrow the register (NASM) or take the next row -/
def dtSelect (nasm : Bool) (s : Instr) : Instr :=
  if s.cons ≤ c_MAX_UNSIGNED_32BIT then
    if nasm && !s.memDisp then nasmRegisterSizeOptimize s
    else if (s.cons < c_NEG32BIT_CHECK && (s.opd0.reg &&& c_MODE_MASK) ≥ c_reg64) || s.memDisp
    then { s with key := s.key + 1 }
    else s
  else s

/-- `encode_imm_data_transfer`: opcode offset 8 for the `b8+rd` form -/
def dtOpOffset (nasm : Bool) (s : Instr) : Instr :=
  if (s.opd0.reg &&& c_MODE_MASK) > c_noext8 && ((nasm && !s.memDisp) || (rowAt s.key).enc == c_I)
  then { s with opOffset := c_BIT_8 } else s

/-- `encode_imm_data_transfer`: a 32-bit register takes the low half of a negative 32 bit value -/
def dtNeg32 (s : Instr) : Instr :=
  let mode := s.opd0.reg &&& c_MODE_MASK
  if inR s.cons (c_NEG32BIT + 1) c_NEG64BIT && band s.cons c_NEG32BIT_CHECK && !s.memDisp &&
     (mode == c_reg32 || mode == c_ext32)
  then { s with cons := s.cons &&& c_MAX_UNSIGNED_32BIT, reducedImm := true } else s

/-- `encode_imm_data_transfer`. -/
def encodeImmDataTransfer (opt : Nat) (s : Instr) : Instr :=
  let s := { s with rdOffset := s.opd0.reg &&& c_VALUE_MASK }
  if inR s.cons (c_NEG32BIT + 1) c_NEG64BIT && band s.cons c_NEG32BIT_CHECK &&
     (band s.opd0.reg c_reg64 || s.memDisp) then
    { s with key := s.key + 1, cons := s.cons &&& c_MAX_UNSIGNED_32BIT, reducedImm := true }
  else if s.memDisp && s.cons > c_MAX_UNSIGNED_32BIT then
    -- a memory destination only has the imm32 form: next row, value truncated (fix 4fe4638)
    { s with key := s.key + 1, cons := s.cons &&& c_MAX_UNSIGNED_32BIT }
  else
    let s := dtNeg32 s
    dtOpOffset (effNasm opt s) (dtSelect (effNasm opt s) s)

/-- `encode_imm_non_data_transfer`. -/
def encodeImmNonDataTransfer (s : Instr) : Instr :=
  let s := if s.cons ≤ c_MAX_BYTE_IDENTIFIER then { s with opOffset := s.opOffset + 2 } else s
  let s := if s.cons > c_MAX_SIGNED_8BIT then { s with opOffset := 1 } else s
  if inR s.cons (c_NEG8BIT + 1) c_NEG64BIT && band s.cons c_NEG8BIT_CHECK then
    { s with cons := s.cons &&& c_MAX_UNSIGNED_8BIT, opOffset := s.opOffset + 2 }
  else if inR s.cons (c_NEG32BIT + 1) c_NEG64BIT then
    { s with cons := s.cons &&& c_MAX_UNSIGNED_32BIT, reducedImm := true }
  else if inR s.cons c_X32BIT_CHECK c_MAX_UNSIGNED_32BIT then
    let s := { s with cons := s.cons &&& c_MAX_UNSIGNED_32BIT, reducedImm := true }
    if inR s.cons c_NEG80_32BIT c_MAX_UNSIGNED_32BIT then
      { s with cons := s.cons &&& c_MAX_UNSIGNED_8BIT, opOffset := s.opOffset + 2 }
    else s
  else s

/-- `encode_imm_operation`. -/
def encodeImmOperation (s : Instr) : Instr :=
  let r := s.opd0.reg
  if (r == c_al && s.cons != c_NEG64BIT && s.cons != c_MAX_UNSIGNED_32BIT) ||
     ((r &&& c_REG_MASK) == c_al && s.cons != c_MAX_UNSIGNED_32BIT &&
      inR s.cons (c_MAX_SIGNED_8BIT + 1) (c_NEG64BIT - 1) &&
      !inR s.cons c_NEG80BIT (c_NEG64BIT - 1) &&
      !inR s.cons c_NEG80_32BIT c_MAX_UNSIGNED_32BIT)
  then { s with key := s.key + 1 } else s

/-- `opd0_width_mode`: mode bits for the width of the first operand; a memory operand is as wide
    as its size keyword says -/
def opd0WidthMode (s : Instr) : Nat :=
  if s.memDisp && s.memIndex == 0 then
    if s.kw.isByte then c_noext8 else if s.kw.isWord then c_reg16 else if s.kw.isDword then c_reg32 else c_reg64
  else s.opd0.reg &&& c_MODE_MASK

/-- `encode_imm`, first step: the accumulator short form of an OPERATION row -/
def immSelectAcc (s : Instr) : Instr :=
  if typeIs s.key c_OPERATION && !s.memDisp then encodeImmOperation s else s

/-- `encode_imm`, second step: per instruction class -/
def immByClass (opt : Nat) (s : Instr) : Instr :=
  let mode := s.opd0.reg &&& c_MODE_MASK
  if mode == c_mmx64 then { s with reducedImm := true }
  else if s.opOffset == 1 && typeIs s.key c_PAD_ALWAYS then
    let s := if inR s.cons (c_NEG32BIT + 1) c_NEG64BIT
             then { s with cons := s.cons &&& c_MAX_UNSIGNED_32BIT, reducedImm := true } else s
    if (s.opd0.reg &&& c_REG_MASK) == c_al && !s.memDisp then { s with key := s.key + 1 } else s
  else if s.opOffset == 1 && !typeIs s.key c_DATA_TRANSFER then encodeImmNonDataTransfer s
  else if typeIs s.key c_DATA_TRANSFER then encodeImmDataTransfer opt s
  else s

/-- `encode_imm`, last step: truncation for 16-bit and 8-bit destinations
    (`opd[0].reg` may have been narrowed by nasm_register_size_optimize: it is re-read) -/
def immTruncate (s : Instr) : Instr :=
  let mode := opd0WidthMode s
  let s :=
    if mode < c_reg32 then
      let s := { s with cons := s.cons &&& c_MAX_UNSIGNED_16BIT, reducedImm := true }
      if (mode == c_reg16 || mode == c_ext16) && s.cons ≤ c_MAX_UNSIGNED_8BIT
      then { s with reducedImm := false } else s
    else s
  if mode < c_reg16 then { s with cons := s.cons &&& c_MAX_UNSIGNED_8BIT, reducedImm := true }
  else s

/-- `encode_imm`. -/
def encodeImm (opt : Nat) (s : Instr) : Instr :=
  if !s.imm then s
  else if (typeIs s.key c_SHIFT && s.cons == 1) || typeIs s.key c_CONTROL_FLOW then
    { s with imm := false }
  else if typeIs s.key c_SHIFT && s.cons != 1 then { s with key := s.key + 1 }
  else immTruncate (immByClass opt (immSelectAcc s))

end AL.Impl
