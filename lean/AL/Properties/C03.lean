/-
  C03 — immediate operands keep their value at the operand's width.

  Statement: for every instance d of the family — every entry with an immediate, register and memory
  destinations, the boundary values of the operand size, in hexadecimal, decimal and negated spellings —
      decode (assemble (render d)) = d   (immediate: width of the opcode's field, value after the
      architecture's extension = the written value modulo the operand size).
   * `Sweep.c03_sweep`        — the quick family x the three mov-immediate modes on the model, by evaluation
                                (mov r64, imm ≤ 0xffffffff may be written to the 32-bit register: C11);
   * `written_number_value`   — kernel-checked, for EVERY n < 2^64: the decimal spelling, the hexadecimal
                                spelling with any number of leading zeros, and their negations are converted
                                by imm_tok to n resp. 2^64 − n with nothing left over
                                (AL.Lemmas.immTok_dec / immTok_hex / immTok_neg_dec / immTok_neg_hex);
   * `imm_field_reads_back`   — kernel-checked, for EVERY value: the immediate bytes the model emits read
                                back (little endian, any zero padding) as the value;
   * `imm_field_dword/_qword/_reduced` (AL.Lemmas.ImmField) — kernel-checked, for EVERY value and any record:
                                what `assemble_imm` emits is exactly the 4-byte, the 8-byte, or the minimal
                                n-byte little-endian encoding of the constant, according to the facts the
                                encoder established (not reduced and ≤ 0xffffffff; > 0xffffffff or marked by
                                check_zero; reduced with its top byte set) — so `leVal` of the field is the
                                constant;
   * `mov_r64_hex / mov_r64_neg_hex / mov_r64_dec / mov_r64_neg_dec` — THE FLAGSHIP, kernel-checked: for each of the 16
                                64-bit registers, EVERY v < 2^64, every option byte (all three mov-immediate modes) and the four
                                spellings (hexadecimal and decimal with leading zeros, negated), the TEXT `mov <reg>, <number>` goes
                                through the whole per-line pipeline of the model (line filter, tokenizer, table lookups, encode_imm,
                                encode_operands, assemble_asm) symbolically and comes out as one of three encodings
                                (`B8+r imm32` narrowed, `REX.W C7 /0 simm32`, `REX.W B8+r imm64`: AL.Lemmas.MovImm.mov_bytes,
                                AL.Lemmas.MovText.mov_line) which, read as the CPU reads them (AL.Spec.MovImm.movResult, a reader of
                                its own written from the SDM; it agrees with the reference decoder on an instance of each shape),
                                leave exactly v (resp. 2^64 − v) in that register.
-/
import AL.Properties.Sweep.C03
import AL.Lemmas.Numerals
import AL.Spec.X86Lemmas
import AL.Lemmas.ImmField
import AL.Lemmas.MovText
import AL.Spec.MovImm
namespace AL.Properties.C03
open AL AL.Impl AL.Gen AL.Lemmas AL.Spec.X86 AL.Lemmas.MovImm AL.Lemmas.MovText

/-- **decimal / hexadecimal / leading zeros / negation: the same number** -/
theorem written_number_value (s : Instr) (n k : Nat) (hn : n < 2 ^ 64) :
    (∃ r, immTok s (decStr n) = .ok r ∧ r.cons = n ∧ r.imm = true) ∧
    (∃ r, immTok s (48 :: 120 :: hexDigs k n) = .ok r ∧ r.cons = n ∧ r.imm = true) ∧
    (∃ r, immTok s (45 :: decStr n) = .ok r ∧ r.cons = (2 ^ 64 - n) % 2 ^ 64) ∧
    (∃ r, immTok s (45 :: 48 :: 120 :: hexDigs k n) = .ok r ∧ r.cons = (2 ^ 64 - n) % 2 ^ 64) :=
  ⟨⟨_, immTok_dec s n hn, rfl, rfl⟩, ⟨_, immTok_hex s k n hn, rfl, rfl⟩,
   ⟨_, immTok_neg_dec s n hn, rfl⟩, ⟨_, immTok_neg_hex s k n hn, rfl⟩⟩

/-- **decimal numerals with leading zeros** are the same decimal number (base 10 is fixed, a leading 0 does not select octal) -/
theorem written_number_value_padded (s : Instr) (n k : Nat) (hn : n < 2 ^ 64) :
    (∃ r, immTok s (decDigs k n) = .ok r ∧ r.cons = n ∧ r.imm = true) ∧
    (∃ r, immTok s (45 :: decDigs k n) = .ok r ∧ r.cons = (2 ^ 64 - n) % 2 ^ 64) :=
  ⟨⟨_, immTok_dec_pad s k n hn, rfl, rfl⟩, ⟨_, immTok_neg_dec_pad s k n hn, rfl⟩⟩

example : decDigs 2 127 = [48, 48, 49, 50, 55] := by decide

theorem imm_field_reads_back (c k : Nat) (h : c < 2 ^ 64) : leVal (assembleConst c ++ List.replicate k 0) = c :=
  leVal_assembleConst c h k

/-- the three shapes of an emitted immediate field read back as the constant -/
theorem imm_field_dword (s : Instr) (hi : s.imm = true) (hb : s.kw.isByte = false) (hr : s.reducedImm = false)
    (hc : s.cons ≤ 0xffffffff) (hz : checkZero s s.cons (rowAt s.key).type = false) (hp : zeroPads s = true)
    (h16 : is16 s = false) : leVal (assembleImm s) = s.cons := by
  rw [assembleImm_dword s hi hb hr hc hz hp h16]
  exact leVal_leBytes_lt 4 _ (by rw [p4]; omega)

theorem imm_field_qword (s : Instr) (hi : s.imm = true) (hb : s.kw.isByte = false) (hr : s.reducedImm = false)
    (h64 : s.cons < 2 ^ 64) (hp : zeroPads s = true)
    (hc : 0xffffffff < s.cons ∨ (0x80000000 ≤ s.cons ∧ checkZero s s.cons (rowAt s.key).type = true)) :
    leVal (assembleImm s) = s.cons := by
  rw [assembleImm_qword s hi hb hr h64 hp hc]
  exact leVal_leBytes_lt 8 _ (by rw [p8]; omega)

/-! ### the flagship: `mov r64, v` yields v, for EVERY v, in every mode — the whole per-line pipeline on symbolic text -/

theorem movBytes_same (n v : Nat) (nar : Bool) : AL.Lemmas.MovImm.movBytes n v nar = AL.Spec.MovImm.movBytes n v nar := rfl

theorem regs64_lt (n : Nat) (name : Str) (g : Nat) (hp : (n, name, g) ∈ regs64) : n < 16 := by
  simp only [regs64, List.mem_cons, Prod.mk.injEq, List.not_mem_nil, or_false] at hp
  omega

theorem digitCh_num (d : Nat) (h : d < 16) : numCh (digitCh d) = true := by
  have : d = 0 ∨ d = 1 ∨ d = 2 ∨ d = 3 ∨ d = 4 ∨ d = 5 ∨ d = 6 ∨ d = 7 ∨ d = 8 ∨ d = 9 ∨ d = 10 ∨ d = 11 ∨ d = 12 ∨ d = 13 ∨ d = 14 ∨ d = 15 := by omega
  rcases this with rfl | rfl | rfl | rfl | rfl | rfl | rfl | rfl | rfl | rfl | rfl | rfl | rfl | rfl | rfl | rfl <;> decide

theorem digitCh_head (d : Nat) (h : d < 10) : numHead (digitCh d) = true := by
  have : d = 0 ∨ d = 1 ∨ d = 2 ∨ d = 3 ∨ d = 4 ∨ d = 5 ∨ d = 6 ∨ d = 7 ∨ d = 8 ∨ d = 9 := by omega
  rcases this with rfl | rfl | rfl | rfl | rfl | rfl | rfl | rfl | rfl | rfl <;> decide

theorem hexDigs_num (k n : Nat) (hn : n < 2 ^ 64) : ∀ c ∈ hexDigs k n, numCh c = true := by
  intro c hc
  unfold hexDigs at hc
  rw [List.mem_map] at hc
  obtain ⟨d, hd, rfl⟩ := hc
  exact digitCh_num d ((hexDigs_props k n hn).1 d hd)

theorem decDigs_num (k n : Nat) (hn : n < 2 ^ 64) : ∀ c ∈ decDigs k n, numCh c = true := by
  intro c hc
  unfold decDigs at hc
  rw [List.mem_map] at hc
  obtain ⟨d, hd, rfl⟩ := hc
  exact digitCh_num d (Nat.lt_trans ((decDigs_props k n hn).1 d hd) (by decide))

theorem digs_length (b : Nat) : ∀ (f n : Nat), (digs b f n).length ≤ f := by
  intro f
  induction f with
  | zero => intro n; simp [digs]
  | succ f ih =>
    intro n
    unfold digs
    split
    · simp
    · simp only [List.length_append, List.length_singleton]
      have := ih (n / b)
      omega

theorem hexDigs_length (k n : Nat) : (hexDigs k n).length ≤ k + 16 := by
  unfold hexDigs
  simp only [List.length_map, List.length_append, List.length_replicate]
  have := digs_length 16 16 n
  omega

theorem decDigs_length (k n : Nat) : (decDigs k n).length ≤ k + 20 := by
  unfold decDigs
  simp only [List.length_map, List.length_append, List.length_replicate]
  have := digs_length 10 20 n
  omega

/-- the statement for one spelling: the line assembles to code that leaves `value` in register n -/
def MovYields (opt : Nat) (line : Str) (n value : Nat) : Prop :=
  ∃ bs, (assembleLine opt line).1 = .ok (.code bs) ∧ AL.Spec.MovImm.movResult bs = some (n, value)

theorem mov_yields_of_tok (n : Nat) (name : Str) (g : Nat) (hp : (n, name, g) ∈ regs64) (c : Nat) (t : Str) (v : Nat) (b : Bool)
    (hc : numHead c = true) (hall : ∀ x ∈ c :: t, numCh x = true) (hlen : (c :: t).length ≤ 80)
    (himm : ∀ s : Instr, immTok s (c :: t) = .ok { s with imm := true, narrowOk := b, cons := v })
    (hv : v < 2 ^ 64) (opt : Nat) : MovYields opt (str! "mov " ++ name ++ 44 :: 32 :: c :: t) n v :=
  ⟨_, mov_line n name g hp c t v b hc hall hlen himm hv opt, by
    rw [movBytes_same]; exact AL.Spec.MovImm.movResult_movBytes n v _ (regs64_lt n name g hp) hv⟩

/-- **`mov r64, v`, hexadecimal with any number k ≤ 60 of leading zeros**: for each of the 16 registers, EVERY v < 2^64 and
    every option byte (all three mov-immediate modes, both SIB options) the line is accepted and the emitted code, read as
    the CPU reads it, leaves exactly v in that register -/
theorem mov_r64_hex (n : Nat) (name : Str) (g : Nat) (hp : (n, name, g) ∈ regs64) (k v : Nat) (hk : k ≤ 60) (hv : v < 2 ^ 64) (opt : Nat) :
    MovYields opt (str! "mov " ++ name ++ str! ", 0x" ++ hexDigs k v) n v := by
  have hall : ∀ x ∈ 48 :: 120 :: hexDigs k v, numCh x = true := by
    intro x hx
    simp only [List.mem_cons] at hx
    rcases hx with rfl | rfl | hx
    · decide
    · decide
    · exact hexDigs_num k v hv x hx
  have hl := hexDigs_length k v
  have := mov_yields_of_tok n name g hp 48 (120 :: hexDigs k v) v _ (by decide) hall (by simp only [List.length_cons]; omega)
    (fun s => immTok_hex s k v hv) hv opt
  simpa using this

/-- negated hexadecimal: the register holds 2^64 − v (two's complement) -/
theorem mov_r64_neg_hex (n : Nat) (name : Str) (g : Nat) (hp : (n, name, g) ∈ regs64) (k v : Nat) (hk : k ≤ 60) (hv : v < 2 ^ 64) (opt : Nat) :
    MovYields opt (str! "mov " ++ name ++ str! ", -0x" ++ hexDigs k v) n ((2 ^ 64 - v) % 2 ^ 64) := by
  have hall : ∀ x ∈ 45 :: 48 :: 120 :: hexDigs k v, numCh x = true := by
    intro x hx
    simp only [List.mem_cons] at hx
    rcases hx with rfl | rfl | rfl | hx
    · decide
    · decide
    · decide
    · exact hexDigs_num k v hv x hx
  have hl := hexDigs_length k v
  have := mov_yields_of_tok n name g hp 45 (48 :: 120 :: hexDigs k v) ((2 ^ 64 - v) % 2 ^ 64) _ (by decide) hall
    (by simp only [List.length_cons]; omega) (fun s => immTok_neg_hex s k v hv) (Nat.mod_lt _ (by decide)) opt
  simpa using this

/-- decimal, any number k ≤ 50 of leading zeros -/
theorem mov_r64_dec (n : Nat) (name : Str) (g : Nat) (hp : (n, name, g) ∈ regs64) (k v : Nat) (hk : k ≤ 50) (hv : v < 2 ^ 64) (opt : Nat) :
    MovYields opt (str! "mov " ++ name ++ str! ", " ++ decDigs k v) n v := by
  obtain ⟨d, rest, hd, hds⟩ := decDigs_head k v hv
  have hall : ∀ x ∈ digitCh d :: rest, numCh x = true := by rw [← hds]; exact decDigs_num k v hv
  have hl := decDigs_length k v
  have := mov_yields_of_tok n name g hp (digitCh d) rest v true (digitCh_head d hd) hall (by rw [← hds]; omega)
    (fun s => by rw [← hds]; exact immTok_dec_pad s k v hv) hv opt
  rw [← hds] at this
  simpa using this

/-- negated decimal -/
theorem mov_r64_neg_dec (n : Nat) (name : Str) (g : Nat) (hp : (n, name, g) ∈ regs64) (k v : Nat) (hk : k ≤ 50) (hv : v < 2 ^ 64) (opt : Nat) :
    MovYields opt (str! "mov " ++ name ++ str! ", -" ++ decDigs k v) n ((2 ^ 64 - v) % 2 ^ 64) := by
  have hall : ∀ x ∈ 45 :: decDigs k v, numCh x = true := by
    intro x hx
    simp only [List.mem_cons] at hx
    rcases hx with rfl | hx
    · decide
    · exact decDigs_num k v hv x hx
  have hl := decDigs_length k v
  have := mov_yields_of_tok n name g hp 45 (decDigs k v) ((2 ^ 64 - v) % 2 ^ 64) true (by decide) hall
    (by simp only [List.length_cons]; omega) (fun s => immTok_neg_dec_pad s k v hv) (Nat.mod_lt _ (by decide)) opt
  simpa using this

/-- not vacuous, and the mini-reader agrees with the reference decoder on an instance of each shape -/
example : (1, str! "rcx", 1025) ∈ regs64 := by decide
example : hexDigs 0 0x1122334455667788 = str! "1122334455667788" := by decide
example : decDigs 1 42 = str! "042" := by decide
example : (decode [0x49, 0xc7, 0xc1, 0, 0, 0, 0x80]).map Dec.render = some "mov q9 i64:18446744071562067968 #7" ∧
    AL.Spec.MovImm.movResult [0x49, 0xc7, 0xc1, 0, 0, 0, 0x80] = some (9, 18446744071562067968) := by decide +kernel
example : (decode [0x41, 0xb9, 5, 0, 0, 0]).map Dec.render = some "mov d9 i32:5 #6" ∧
    AL.Spec.MovImm.movResult [0x41, 0xb9, 5, 0, 0, 0] = some (9, 5) := by decide +kernel
example : (decode [0x49, 0xbf, 1, 2, 3, 4, 5, 6, 7, 8]).map Dec.render = some "mov q15 i64:578437695752307201 #10" ∧
    AL.Spec.MovImm.movResult [0x49, 0xbf, 1, 2, 3, 4, 5, 6, 7, 8] = some (15, 578437695752307201) := by decide +kernel

end AL.Properties.C03
