#!/bin/bash
# usage: try_seed.sh <patch.diff> <prop> [<prop>...] — apply a seeded change to /repo, run the quick
# checks, and ALWAYS undo it afterwards.
patch="$1"; shift
cd /repo || exit 2
git apply "$patch" || { echo "patch does not apply"; exit 2; }
# evidence written while a seeded change is applied must never be committed: keep the clean-tree files
rm -rf /tmp/evidence_keep_$$ && cp -r /verif/evidence /tmp/evidence_keep_$$
trap 'git -C /repo checkout -- . ; rm -rf /verif/evidence; mv /tmp/evidence_keep_$$ /verif/evidence' EXIT
cd /verif
for p in "$@"; do
  python3 alv.py check "$p" --tier quick 2>/dev/null | tail -3
  echo "exit=$? ($p)"
done
