/-
  C03 sweep — the whole quantifier domain of C03 (AL.Spec.X86Families) evaluated on the model of the
  library and the reference decoder.  This is a finite domain decided by EVALUATION: the proof term is
  `native_decide` (axiom Lean.ofReduceBool: the Lean compiler and interpreter are trusted for this
  theorem, the kernel does not re-check the computation — kernel evaluation of the text-level model
  costs about 55 ms per line, i.e. hours for this family).  Declared in the trusted base; the check
  also runs the same family on the C implementation itself.
-/
import AL.Properties.SweepDefs
import AL.Spec.X86FamiliesExtra
namespace AL.Properties.Sweep
open AL.Spec.X86

/-- **C03, every instance of the quick family** (registers rcx/r10 and their sub-registers, ch): each immediate-taking entry over the boundary values, in
    hexadecimal, decimal, negated and zero-padded spellings, in the three mov-immediate modes -/
theorem c03_sweep : sweep [14, 0, 1] (famC03 false) = true := by native_decide

/-- the same for literals written with more digits than a 64-bit number needs (family `famC03x`, AL/Spec/X86FamiliesExtra.lean) -/
theorem c03_sweep_padded : sweep [14, 0] famC03x = true := by native_decide

end AL.Properties.Sweep
