/-
  C02 — memory operands encode exactly the written effective address.

  Statement: for every instance d of the family — every entry of the reference table with a
  memory-capable operand over base x index x scale x displacement x address size —
      decode (assemble (render d)) ≈ d
  where ≈ lets the memory operand differ only by an encoding of the SAME address for every register
  valuation (AL.Spec.X86.sameMem: same width, address size, per-register coefficient, displacement).
   * `Sweep.c02_sweep`            — the quick family (≈ 108 000 instances x NASM / STRICT SIB handling) on the
                                    model, by evaluation;
   * `disp_field_reads_back`      — kernel-checked, for EVERY displacement value: the constant bytes the
                                    model emits, with any zero padding, read back as that value, and every
                                    signed 8/32-bit displacement is recovered from its two's complement
                                    field (the decoder side of "sign-extended displacement as written");
   * `decoder_reads_every_operand` (AL.Spec.X86.decodeMem_encodeMemRef) — kernel-checked, about the reference
                                    decoder itself: EVERY memory operand of the documented syntax (no base or any of 16, no
                                    index or any of 15, scale 1/2/4/8, every 32-bit displacement, both address sizes) is read
                                    back exactly from its canonical ModRM/SIB/displacement encoding (rsp/r12 needing a SIB
                                    byte, rbp/r13 needing a displacement, disp8 vs disp32, no-base disp32 included);
   * `mov_load_every_disp`         — kernel-checked, SYMBOLIC in the displacement: for each of the 16 base registers and EVERY
                                    d in −2^31..2^31−1 the second half of the per-line pipeline emits, for `mov rax, [base + d]`,
                                    REX/opcode followed by exactly the canonical ModRM/SIB/displacement encoding (AL.Lemmas.MemLoad.mem_bytes,
                                    memBytes_canonical) — which the decoder reads back as that operand (previous item);
   * `mov_load_text`               — kernel-checked, the same at the TEXT level: `mov rax, [<base>±0x<digits>]` (16 base registers, both
                                    signs, leading zeros, EVERY d in −2^31..2^31−1, every option byte) through filter, memory scanners,
                                    tokenizer and lookups (AL.Lemmas.MemText.mem_line) is the canonical encoding of `[base + d]`;
   * C11 `swap_same_address`, `nobase_scale2_same_address`, `nobase_scale1_same_address` — the NASM rewritings
                                    keep the address, for every register valuation.
-/
import AL.Properties.Sweep.C02
import AL.Spec.X86Lemmas
import AL.Spec.X86MemRoundTrip
import AL.Properties.C11
import AL.Lemmas.MemText
namespace AL.Properties.C02
open AL AL.Impl AL.Gen AL.Spec.X86 AL.Lemmas.MemLoad AL.Lemmas.MovImm AL.Lemmas.MemText

def mkMemEx : Mem := { size := 64, addr32 := false, base := some 13, index := some 12, scale := 8, disp := -129 }

/-- **every displacement reads back**: unsigned field value and signed interpretation -/
theorem disp_field_reads_back :
    (∀ (c k : Nat), c < 2 ^ 64 → leVal (assembleConst c ++ List.replicate k 0) = c) ∧
    (∀ d : Int, -128 ≤ d → d < 128 → toSigned 8 (d % 256).toNat = d) ∧
    (∀ d : Int, -2147483648 ≤ d → d < 2147483648 → toSigned 32 (d % 4294967296).toNat = d) :=
  ⟨fun c k h => leVal_assembleConst c h k,
   fun d h1 h2 => toSigned_roundtrip 8 (by decide) d (by simpa using h1) (by simpa using h2),
   fun d h1 h2 => toSigned_roundtrip 32 (by decide) d (by simpa using h1) (by simpa using h2)⟩

/-- **the reference decoder reads back every memory operand** from its canonical encoding -/
theorem decoder_reads_every_operand (m : Mem) (h : m.wf) (e : Ext) (reg : Nat) (rest : List Nat)
    (hx : e.x = (encodeMemRef m).x) (hb : e.b = (encodeMemRef m).b) :
    decodeMem e m.addr32 ⟨(encodeMemRef m).mod, reg, (encodeMemRef m).rm⟩ m.size
        ((encodeMemRef m).sib ++ (encodeMemRef m).disp ++ rest) =
      some (m, (encodeMemRef m).sib.length + (encodeMemRef m).disp.length) :=
  decodeMem_encodeMemRef m h e reg rest hx hb

/-- non-vacuity: `[r13+r12*8-0x81]` is well formed and encodes as mod 10, SIB, disp32 -/
example : (mkMemEx).wf ∧ (encodeMemRef mkMemEx).mod = 2 ∧ (encodeMemRef mkMemEx).sib = [0xE5] := by
  refine ⟨⟨rfl, ?_, ?_, ?_, ?_, ?_, ?_⟩, rfl, rfl⟩ <;> simp [mkMemEx]

theorem memOf_wf (n : Nat) (hn : n < 16) (d : Int) (h1 : -2147483648 ≤ d) (h2 : d < 2147483648) : (memOf n d).wf := by
  refine ⟨rfl, ?_, ?_, ?_, ?_, h1, h2⟩
  · intro b hb; simp [memOf] at hb; omega
  · intro i hi; simp [memOf] at hi
  · intro _; rfl
  · left; rfl

/-- **`mov rax, [base + d]`, every base register, EVERY displacement**: the second half of the per-line pipeline emits
    REX.W(+B) 8B followed by exactly the canonical ModRM / SIB / displacement encoding of `[base + d]`, and the reference decoder
    reads that encoding back as base, no index, displacement d (sign-extended), 64-bit access -/
theorem mov_load_every_disp (n : Nat) (name : Str) (g : Nat) (hp : (n, name, g) ∈ regs64) (d : Int)
    (h1 : -2147483648 ≤ d) (h2 : d < 2147483648) (opt : Nat) (rest : List Nat) :
    lineBytes opt (memRec name g (dispClass d).1 (dispClass d).2) =
      some ([0x48 + (if n ≥ 8 then 1 else 0), 0x8b, (encodeMemRef (memOf n d)).mod * 64 + (encodeMemRef (memOf n d)).rm] ++
        (encodeMemRef (memOf n d)).sib ++ (encodeMemRef (memOf n d)).disp) ∧
    decodeMem { w := true, x := (encodeMemRef (memOf n d)).x, b := (encodeMemRef (memOf n d)).b, rex := true } false
        ⟨(encodeMemRef (memOf n d)).mod, 0, (encodeMemRef (memOf n d)).rm⟩ 64
        ((encodeMemRef (memOf n d)).sib ++ (encodeMemRef (memOf n d)).disp ++ rest) =
      some (memOf n d, (encodeMemRef (memOf n d)).sib.length + (encodeMemRef (memOf n d)).disp.length) := by
  have hn : n < 16 := by
    simp only [regs64, List.mem_cons, Prod.mk.injEq, List.not_mem_nil, or_false] at hp
    omega
  constructor
  · rw [mem_bytes n name g hp _ _ opt (dispClass_ok d h1 h2), memBytes_canonical n hn d h1 h2]
  · exact decodeMem_encodeMemRef (memOf n d) (memOf_wf n hn d h1 h2) _ 0 rest rfl rfl

/-- the record is what the lexer produces (instances; the lexing of every family line is part of `Sweep.c02_sweep`) -/
example : (match lexLine (str! "mov rax,[rbx-0x10]") with | .ok s => s == memRec (str! "rbx") 1027 (dispClass (-16)).1 (dispClass (-16)).2 | _ => false) = true := by
  decide +kernel
example : (match lexLine (str! "mov rax,[rsp-0x100]") with | .ok s => s == memRec (str! "rsp") 1028 (dispClass (-256)).1 (dispClass (-256)).2 | _ => false) = true := by
  decide +kernel
example : (match lexLine (str! "mov rax,[r13]") with | .ok s => s == memRec (str! "r13") 1165 (dispClass 0).1 (dispClass 0).2 | _ => false) = true := by
  decide +kernel
example : (match lexLine (str! "mov rax,[r9+0x12345678]") with | .ok s => s == memRec (str! "r9") 1161 (dispClass 0x12345678).1 (dispClass 0x12345678).2 | _ => false) = true := by
  decide +kernel

/-- **`mov rax, [base ± d]` as TEXT, every base register, EVERY displacement** (hexadecimal spelling, any number k ≤ 50 of leading zeros):
    the line is accepted and its code is REX.W(+B) 8B followed by the canonical ModRM / SIB / displacement encoding of `[base + d]` -/
theorem mov_load_text (n : Nat) (name : Str) (g : Nat) (hp : (n, name, g) ∈ regs64) (sg : Nat) (hsg : sg = 43 ∨ sg = 45) (k v : Nat)
    (hk : k ≤ 50) (hv : if sg = 45 then v ≤ 2 ^ 31 else v < 2 ^ 31) (opt : Nat) :
    let d : Int := if sg = 45 then -(v : Int) else (v : Int)
    (assembleLine opt (str! "mov rax, " ++ (91 :: name ++ sg :: 48 :: 120 :: AL.Lemmas.hexDigs k v ++ [93]))).1 =
      .ok (.code ([0x48 + (if n ≥ 8 then 1 else 0), 0x8b, (encodeMemRef (memOf n d)).mod * 64 + (encodeMemRef (memOf n d)).rm] ++
        (encodeMemRef (memOf n d)).sib ++ (encodeMemRef (memOf n d)).disp)) := by
  intro d
  have hn : n < 16 := by
    simp only [regs64, List.mem_cons, Prod.mk.injEq, List.not_mem_nil, or_false] at hp
    omega
  have hd1 : -2147483648 ≤ d := by simp only [d]; split at hv <;> simp_all <;> omega
  have hd2 : d < 2147483648 := by simp only [d]; split at hv <;> simp_all <;> omega
  rw [mem_line n name g hp sg hsg k v hk hv opt, memBytes_canonical n hn d hd1 hd2]

example : str! "mov rax, " ++ (91 :: str! "rbx" ++ 45 :: 48 :: 120 :: AL.Lemmas.hexDigs 1 16 ++ [93]) = str! "mov rax, [rbx-0x010]" := by decide

end AL.Properties.C02
