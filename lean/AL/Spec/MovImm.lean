/-
  AL.Spec.MovImm — what a 64-bit CPU does with the three `mov register, immediate` encodings (Intel SDM vol. 2, MOV), as a
  ten-line reader of its own, independent of the table-driven reference decoder: used to state "the code for `mov r64, v`,
  when executed, leaves v in the register" for EVERY v.  `movResult_movBytes`: each of the three shapes loads exactly v.
-/
import AL.Spec.X86Lemmas
import AL.Lemmas.ConstBytes
namespace AL.Spec.MovImm
open AL AL.Spec.X86 AL.Lemmas

/-- sign extension of a 32-bit value to 64 bits -/
def sext32 (x : Nat) : Nat := if x ≥ 2 ^ 31 then x + (2 ^ 64 - 2 ^ 32) else x

/-- **what a 64-bit CPU does with the three `mov register, immediate` encodings** (Intel SDM vol. 2, MOV):
    `B8+rd id` loads the 32-bit register and clears the upper half, `REX.W B8+rd io` loads 64 bits,
    `REX.W C7 /0 id` (register form, ModRM 11 000 rrr) loads the sign-extended 32-bit immediate; REX.B selects r8..r15.
    Result: (register number, the 64-bit value the register holds afterwards); `none` for any other byte string. -/
def movResult (bs : List Nat) : Option (Nat × Nat) :=
  match bs with
  | [] => none
  | b0 :: r0 =>
    let rexW := b0 == 0x48 || b0 == 0x49
    let rexB := if b0 == 0x49 || b0 == 0x41 then 1 else 0
    let r1 := if rexW || b0 == 0x41 then r0 else bs
    match r1 with
    | [] => none
    | op :: imm =>
      if 0xb8 ≤ op && op ≤ 0xbf then
        if rexW then (if imm.length == 8 then some (8 * rexB + (op - 0xb8), leVal imm) else none)
        else (if imm.length == 4 then some (8 * rexB + (op - 0xb8), leVal imm) else none)
      else if op == 0xc7 && rexW then
        match imm with
        | [] => none
        | modrm :: imm4 =>
          if 0xc0 ≤ modrm && modrm ≤ 0xc7 && imm4.length == 4 then some (8 * rexB + (modrm - 0xc0), sext32 (leVal imm4)) else none
      else none

example : movResult [0x48, 0xc7, 0xc0, 0xff, 0xff, 0xff, 0xff] = some (0, 2 ^ 64 - 1) := by decide
example : movResult [0x41, 0xb9, 5, 0, 0, 0] = some (9, 5) := by decide
example : movResult [0x49, 0xbf, 1, 2, 3, 4, 5, 6, 7, 8] = some (15, 0x0807060504030201) := by decide
example : movResult [0x90] = none := by decide


/-- the three encodings (same definition as the implementation-side `AL.Lemmas.MovImm.movBytes`) -/
def movBytes (n v : Nat) (nar : Bool) : List Nat :=
  if 0xffffffff80000000 ≤ v then [0x48 + n / 8, 0xc7, 0xc0 + n % 8] ++ leBytes 4 (v % 2 ^ 32)
  else if v ≤ 0xffffffff then
    if nar then (if n ≥ 8 then [0x41] else []) ++ [0xb8 + n % 8] ++ leBytes 4 v
    else if v < 0x80000000 then [0x48 + n / 8, 0xc7, 0xc0 + n % 8] ++ leBytes 4 v
    else [0x48 + n / 8, 0xb8 + n % 8] ++ leBytes 8 v
  else [0x48 + n / 8, 0xb8 + n % 8] ++ leBytes 8 v

theorem p4 : (256 : Nat) ^ 4 = 4294967296 := by decide
theorem p8 : (256 : Nat) ^ 8 = 18446744073709551616 := by decide

/-- **each of the three encodings loads exactly v into register n** -/
theorem movResult_movBytes (n v : Nat) (nar : Bool) (hn : n < 16) (hv : v < 2 ^ 64) :
    movResult (movBytes n v nar) = some (n, v) := by
  have hcases : n = 0 ∨ n = 1 ∨ n = 2 ∨ n = 3 ∨ n = 4 ∨ n = 5 ∨ n = 6 ∨ n = 7 ∨ n = 8 ∨ n = 9 ∨ n = 10 ∨ n = 11 ∨ n = 12 ∨ n = 13 ∨
      n = 14 ∨ n = 15 := by omega
  unfold movBytes
  by_cases hD : 0xffffffff80000000 ≤ v
  · have e : leVal (leBytes 4 (v % 2 ^ 32)) = v % 4294967296 := by
      rw [leVal_leBytes_lt 4 _ (by rw [p4]; omega)]
    have e2 : sext32 (v % 4294967296) = v := by unfold sext32; split <;> omega
    simp only [hD, if_true]
    rcases hcases with rfl | rfl | rfl | rfl | rfl | rfl | rfl | rfl | rfl | rfl | rfl | rfl | rfl | rfl | rfl | rfl
    all_goals simp [movResult, leBytes_length, e, e2]
  · simp only [hD, if_false]
    by_cases hC : v ≤ 0xffffffff
    · have e4 : leVal (leBytes 4 v) = v := leVal_leBytes_lt 4 v (by rw [p4]; omega)
      have e8 : leVal (leBytes 8 v) = v := leVal_leBytes_lt 8 v (by rw [p8]; omega)
      simp only [hC, if_true]
      cases nar
      · simp only [Bool.false_eq_true, if_false]
        by_cases hB : v < 0x80000000
        · have e2 : sext32 v = v := by unfold sext32; split <;> omega
          simp only [hB, if_true]
          rcases hcases with rfl | rfl | rfl | rfl | rfl | rfl | rfl | rfl | rfl | rfl | rfl | rfl | rfl | rfl | rfl | rfl
          all_goals simp [movResult, leBytes_length, e4, e2]
        · simp only [hB, if_false]
          rcases hcases with rfl | rfl | rfl | rfl | rfl | rfl | rfl | rfl | rfl | rfl | rfl | rfl | rfl | rfl | rfl | rfl
          all_goals simp [movResult, leBytes_length, e8]
      · simp only [if_true]
        rcases hcases with rfl | rfl | rfl | rfl | rfl | rfl | rfl | rfl | rfl | rfl | rfl | rfl | rfl | rfl | rfl | rfl
        all_goals simp [movResult, leBytes_length, e4]
    · have e8 : leVal (leBytes 8 v) = v := leVal_leBytes_lt 8 v (by rw [p8]; omega)
      simp only [hC, if_false]
      rcases hcases with rfl | rfl | rfl | rfl | rfl | rfl | rfl | rfl | rfl | rfl | rfl | rfl | rfl | rfl | rfl | rfl
      all_goals simp [movResult, leBytes_length, e8]

end AL.Spec.MovImm
