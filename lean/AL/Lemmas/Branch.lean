/-
  AL.Lemmas.Branch — relative branches with a numeric displacement, at the record level, for a SYMBOLIC displacement:
  the second half of the per-line pipeline (resolveBranch, selectShort, branch32, assemble_asm) on the record the lexer produces
  for `<mnemonic> [short|long] <number>`, for abstract table rows of the three shapes that occur (a rel32 row followed by its rel8
  row: jmp and the conditional jumps; a rel32 row alone: call, xbegin; two rel8 rows: jrcxz), every displacement
  −2^31 ≤ d < 2^31 (as 64-bit two's complement v), every keyword combination and option byte.  `relKeys_classified` (kernel
  evaluation on the regenerated table) shows that every relative-branch row of the table has one of the three shapes.
-/
import AL.Impl.Line
import AL.Lemmas.ImmField
import AL.Lemmas.MovImm
namespace AL.Lemmas.Branch
open AL AL.Impl AL.Gen AL.Lemmas AL.Spec.X86 AL.Lemmas.MovImm

/-- the record `lexLine` produces for `<branch mnemonic> [short|long] <number>` -/
def brRec (key : Int) (name : Str) (sh lg : Bool) (v : Nat) (b : Bool) : Instr :=
  Instr.mk key name (Operand.mk [] 32 [] 32 105) (Operand.mk [] 32 [] 32 0) (Operand.mk [] 32 [] 32 0) (Operand.mk [] 0 [] 0 0) (Keywords.mk sh lg false false false false false) b true false v false false false false false false 0 0 0 192 0 hex0 0 0


/-- a rel32 row: fixed opcode bytes only -/
def isD (r : Row) (ops : List Nat) : Prop :=
  r.type = 4 ∧ r.enc = 507 ∧ r.size = ops.length ∧ r.opcode.take r.size = ops ∧ r.opOffI = 4294967295
/-- a rel8 row: one opcode byte and the `ib` slot -/
def isS (r : Row) (o8 : Nat) : Prop :=
  r.type = 4 ∧ r.enc = 508 ∧ r.size = 2 ∧ r.opcode.take 2 = [o8, 1048576] ∧ r.opOffI = 4294967295


macro "br_resolve" : tactic => `(tactic|
  simp [lineBytes, resolveLine, resolveBranch, selectShort, resolveRest, checkRegistersFail, branch32, encodeIfRegs, pushAdjust,
    brRec, hex0, typeIs, nameIs, inR, band, c_CONTROL_FLOW, c_S, c_NO_BYTE, c_reg_error, c_reg_none, c_NEG32BIT, c_NEG64BIT,
    c_NEG80_32BIT, c_MAX_UNSIGNED_32BIT, c_MAX_SIGNED_8BIT, c_NEG80BIT, c_push, low32, *])

macro "br_emit" : tactic => `(tactic|
  simp [assembleAsm, assembleInstr, assembleSlots, emitSlot, assembleMemDisp, c_BIT_MASK, c_BIT_16, c_GET_EN, c_REX, c_REG, c_VEX,
    c_ib, c_rd, c_NO_BYTE, *])


theorem and255 (o : Nat) (h : o < 256) : o &&& 255 = o := by
  have := Nat.and_two_pow_sub_one_eq_mod o 8
  simp at this
  rw [this]; omega

/-- a reduced one-byte immediate is emitted as that byte -/
theorem assembleImm_byte (s : Instr) (hi : s.imm = true) (hb : s.kw.isByte = false) (hr : s.reducedImm = true) (hc : s.cons ≤ 255)
    (hz : checkZero s s.cons (rowAt s.key).type = false) : assembleImm s = [s.cons] := by
  by_cases h0 : s.cons = 0
  · unfold assembleImm
    simp only [hi, Bool.not_true, Bool.false_eq_true, if_false]
    rw [immCore_eq s hb, hz, h0]
    have : immPad s 1 = 0 := by unfold immPad; simp [hr]
    simp [assembleConst, assembleConstGo, this]
  · rw [assembleImm_reduced s hi hb hr h0 hz 1 (by simp; omega) (by simp; omega) (by decide) (by decide)]
    simp [leBytes]; omega


theorem fixed_of_lt (o : Nat) (ho : o < 256) : o &&& 4294967040 = 0 := by
  have h1 : o &&& 4294967040 = (o &&& 255) &&& 4294967040 := by rw [and255 o ho]
  rw [h1, Nat.and_assoc]; simp

theorem slots_fixed (row : Row) (s : Instr) (hoff : row.opOffI = 4294967295) :
    ∀ (ops : List Nat) (pos : Nat), (∀ o ∈ ops, o < 256) → pos + ops.length < 4294967295 → assembleSlots row s pos ops = (s, ops) := by
  intro ops
  induction ops with
  | nil => intro pos _ _; rfl
  | cons o rest ih =>
    intro pos hfix hlen
    have ho : o < 256 := hfix o List.mem_cons_self
    have hz : o &&& 4294967040 = 0 := fixed_of_lt o ho
    have hpos : (pos == row.opOffI) = false := by
      rw [hoff, beq_eq_false_iff_ne]; simp only [List.length_cons] at hlen; omega
    unfold assembleSlots
    have hs : emitSlot row s pos o = (s, [o]) := by
      unfold emitSlot
      simp [hz, hpos, and255 o ho]
    rw [hs]
    simp only
    rw [ih (pos + 1) (fun x hx => hfix x (List.mem_cons_of_mem _ hx)) (by simp only [List.length_cons] at hlen; omega)]
    rfl

/-- the expected code of `jmp/jcc [short|long] d` (v = d as 64-bit two's complement) -/
def jExpect (ops32 : List Nat) (o8 : Nat) (sh lg : Bool) (v : Nat) : Option Bytes :=
  if v ≤ 0x7f && !lg then some [o8, v]
  else if sh then (if 0xffffffffffffff80 ≤ v then some [o8, v % 256] else none)
  else some (ops32 ++ leBytes 4 (v % 2 ^ 32))

set_option maxHeartbeats 2000000 in
theorem j_pos8 (key : Int) (name : Str) (ops : List Nat) (o8 : Nat) (r r1 : Row) (hr : rowAt key = r) (hr1 : rowAt (key + 1) = r1)
    (hD : isD r ops) (hS : isS r1 o8) (hops : ∀ o ∈ ops, o < 256) (ho8' : o8 < 256) (hl : ops.length ≤ 4)
    (hnp : r.id ≠ c_push) (hnp1 : r1.id ≠ c_push)
    (v : Nat) (b : Bool) (opt : Nat) (sh lg : Bool) (hx : ¬ (sh = true ∧ lg = true)) (hv : v ≤ 0x7f) :
    lineBytes opt (brRec key name sh lg v b) = jExpect ops o8 sh lg v := by
  obtain ⟨t0, e0, s0, oc0, oi0⟩ := hD
  obtain ⟨t1, e1, s1, oc1, oi1⟩ := hS
  have h1 : ¬ 18446744069414584321 ≤ v := by omega
  have h2 : ¬ 4294967168 ≤ v := by omega
  have h3 : v ≤ 127 := hv
  have h4 : ¬ 127 < v := by omega
  have h5 := and255 o8 ho8'
  have ho8z := fixed_of_lt o8 ho8'
  have h6 : ¬ 18446744073709551488 ≤ v := by omega
  have hsl := fun s => slots_fixed r s oi0 ops 0 hops (by omega)
  have oc0' : List.take ops.length r.opcode = ops := by rw [← s0]; exact oc0
  have hnp' : ¬ r.id = 109 := hnp
  have hnp1' : ¬ r1.id = 109 := hnp1
  unfold jExpect
  cases sh <;> cases lg
  · br_resolve
    br_emit
    rw [assembleImm_byte]
    · simp [c_MAX_UNSIGNED_8BIT]; exact and255 v (by omega)
    · rfl
    · rfl
    · rfl
    · simp [c_MAX_UNSIGNED_8BIT]; rw [and255 v (by omega)]; omega
    · simp [checkZero, hr1, t1, c_DATA_TRANSFER]
  · br_resolve
    br_emit
    rw [assembleImm_dword]
    · rw [Nat.mod_eq_of_lt (by omega)]
    · rfl
    · rfl
    · rfl
    · show v ≤ 0xffffffff; omega
    · simp [checkZero, hr, t0, c_DATA_TRANSFER]
    · simp [zeroPads, hr, t0, e0, c_I]
    · simp [is16, opd0WidthMode, c_MODE_MASK, c_reg16, c_ext16]
  · br_resolve
    br_emit
    rw [assembleImm_byte]
    · simp [c_MAX_UNSIGNED_8BIT]; exact and255 v (by omega)
    · rfl
    · rfl
    · rfl
    · simp [c_MAX_UNSIGNED_8BIT]; rw [and255 v (by omega)]; omega
    · simp [checkZero, hr1, t1, c_DATA_TRANSFER]
  · exact absurd ⟨rfl, rfl⟩ hx

set_option maxHeartbeats 2000000 in
/-- 0x7f < v < 2^31 (a forward displacement that needs rel32) -/
theorem j_pos32 (key : Int) (name : Str) (ops : List Nat) (o8 : Nat) (r r1 : Row) (hr : rowAt key = r) (hr1 : rowAt (key + 1) = r1)
    (hD : isD r ops) (hS : isS r1 o8) (hops : ∀ o ∈ ops, o < 256) (ho8' : o8 < 256) (hl : ops.length ≤ 4)
    (hnp : r.id ≠ c_push) (hnp1 : r1.id ≠ c_push)
    (v : Nat) (b : Bool) (opt : Nat) (sh lg : Bool) (hx : ¬ (sh = true ∧ lg = true)) (hv1 : 0x7f < v) (hv2 : v < 0x80000000) :
    lineBytes opt (brRec key name sh lg v b) = jExpect ops o8 sh lg v := by
  obtain ⟨t0, e0, s0, oc0, oi0⟩ := hD
  obtain ⟨t1, e1, s1, oc1, oi1⟩ := hS
  have h1 : ¬ 18446744069414584321 ≤ v := by omega
  have h2 : ¬ 4294967168 ≤ v := by omega
  have h3 : ¬ v ≤ 127 := by omega
  have h4 : 127 < v := by omega
  have h5 := and255 o8 ho8'
  have ho8z := fixed_of_lt o8 ho8'
  have h6 : ¬ 18446744073709551488 ≤ v := by omega
  have h7 : v < 18446744073709551488 := by omega
  have hsl := fun s => slots_fixed r s oi0 ops 0 hops (by omega)
  have oc0' : List.take ops.length r.opcode = ops := by rw [← s0]; exact oc0
  have hnp' : ¬ r.id = 109 := hnp
  have hnp1' : ¬ r1.id = 109 := hnp1
  unfold jExpect
  cases sh <;> cases lg
  · br_resolve
    br_emit
    rw [assembleImm_dword]
    · rw [Nat.mod_eq_of_lt (by omega)]
    · rfl
    · rfl
    · rfl
    · show v ≤ 0xffffffff; omega
    · simp [checkZero, hr, t0, c_DATA_TRANSFER]
    · simp [zeroPads, hr, t0, e0, c_I]
    · simp [is16, opd0WidthMode, c_MODE_MASK, c_reg16, c_ext16]
  · br_resolve
    br_emit
    rw [assembleImm_dword]
    · rw [Nat.mod_eq_of_lt (by omega)]
    · rfl
    · rfl
    · rfl
    · show v ≤ 0xffffffff; omega
    · simp [checkZero, hr, t0, c_DATA_TRANSFER]
    · simp [zeroPads, hr, t0, e0, c_I]
    · simp [is16, opd0WidthMode, c_MODE_MASK, c_reg16, c_ext16]
  · br_resolve
  · exact absurd ⟨rfl, rfl⟩ hx

set_option maxHeartbeats 2000000 in
/-- −2^31 ≤ d < −128 (v = 2^64 + d) -/
theorem j_neg32 (key : Int) (name : Str) (ops : List Nat) (o8 : Nat) (r r1 : Row) (hr : rowAt key = r) (hr1 : rowAt (key + 1) = r1)
    (hD : isD r ops) (hS : isS r1 o8) (hops : ∀ o ∈ ops, o < 256) (ho8' : o8 < 256) (hl : ops.length ≤ 4)
    (hnp : r.id ≠ c_push) (hnp1 : r1.id ≠ c_push)
    (v : Nat) (b : Bool) (opt : Nat) (sh lg : Bool) (hx : ¬ (sh = true ∧ lg = true)) (hv1 : 0xffffffff80000000 ≤ v) (hv2 : v < 0xffffffffffffff80) :
    lineBytes opt (brRec key name sh lg v b) = jExpect ops o8 sh lg v := by
  obtain ⟨t0, e0, s0, oc0, oi0⟩ := hD
  obtain ⟨t1, e1, s1, oc1, oi1⟩ := hS
  have h1 : 18446744069414584321 ≤ v := by omega
  have h1' : v ≤ 18446744073709551615 := by omega
  have h2 : 4294967168 ≤ v := by omega
  have h2' : ¬ v ≤ 4294967295 := by omega
  have h3 : ¬ v ≤ 127 := by omega
  have h4 : 127 < v := by omega
  have h5 := and255 o8 ho8'
  have ho8z := fixed_of_lt o8 ho8'
  have h6 : ¬ 18446744073709551488 ≤ v := by omega
  have h7 : v < 18446744073709551488 := by omega
  have hsl := fun s => slots_fixed r s oi0 ops 0 hops (by omega)
  have oc0' : List.take ops.length r.opcode = ops := by rw [← s0]; exact oc0
  have hnp' : ¬ r.id = 109 := hnp
  have hnp1' : ¬ r1.id = 109 := hnp1
  unfold jExpect
  cases sh <;> cases lg
  · br_resolve
    br_emit
    rw [assembleImm_dword]
    · rfl
    · rfl
    · rfl
    · show v % 4294967296 ≤ 0xffffffff; omega
    · simp [checkZero, hr, t0, c_DATA_TRANSFER]
    · simp [zeroPads, hr, t0, e0, c_I]
    · simp [is16, opd0WidthMode, c_MODE_MASK, c_reg16, c_ext16]
  · br_resolve
    br_emit
    rw [assembleImm_dword]
    · rfl
    · rfl
    · rfl
    · show v % 4294967296 ≤ 0xffffffff; omega
    · simp [checkZero, hr, t0, c_DATA_TRANSFER]
    · simp [zeroPads, hr, t0, e0, c_I]
    · simp [is16, opd0WidthMode, c_MODE_MASK, c_reg16, c_ext16]
  · br_resolve
  · exact absurd ⟨rfl, rfl⟩ hx


set_option maxHeartbeats 2000000 in
/-- −128 ≤ d < 0 (v = 2^64 + d) -/
theorem j_neg8 (key : Int) (name : Str) (ops : List Nat) (o8 : Nat) (r r1 : Row) (hr : rowAt key = r) (hr1 : rowAt (key + 1) = r1)
    (hD : isD r ops) (hS : isS r1 o8) (hops : ∀ o ∈ ops, o < 256) (ho8' : o8 < 256) (hl : ops.length ≤ 4)
    (hnp : r.id ≠ c_push) (hnp1 : r1.id ≠ c_push)
    (v : Nat) (b : Bool) (opt : Nat) (sh lg : Bool) (hx : ¬ (sh = true ∧ lg = true)) (hv1 : 0xffffffffffffff80 ≤ v) (hv2 : v < 2 ^ 64) :
    lineBytes opt (brRec key name sh lg v b) = jExpect ops o8 sh lg v := by
  obtain ⟨t0, e0, s0, oc0, oi0⟩ := hD
  obtain ⟨t1, e1, s1, oc1, oi1⟩ := hS
  have h1 : 18446744069414584321 ≤ v := by omega
  have h1' : v ≤ 18446744073709551615 := by omega
  have h2 : 4294967168 ≤ v := by omega
  have h2' : ¬ v ≤ 4294967295 := by omega
  have h3 : ¬ v ≤ 127 := by omega
  have h4 : 127 < v := by omega
  have h5 := and255 o8 ho8'
  have ho8z := fixed_of_lt o8 ho8'
  have h6 : 18446744073709551488 ≤ v := by omega
  have h7 : ¬ v < 18446744073709551488 := by omega
  have hsl := fun s => slots_fixed r s oi0 ops 0 hops (by omega)
  have oc0' : List.take ops.length r.opcode = ops := by rw [← s0]; exact oc0
  have hnp' : ¬ r.id = 109 := hnp
  have hnp1' : ¬ r1.id = 109 := hnp1
  unfold jExpect
  cases sh <;> cases lg
  · br_resolve
    br_emit
    rw [assembleImm_dword]
    · rfl
    · rfl
    · rfl
    · show v % 4294967296 ≤ 0xffffffff; omega
    · simp [checkZero, hr, t0, c_DATA_TRANSFER]
    · simp [zeroPads, hr, t0, e0, c_I]
    · simp [is16, opd0WidthMode, c_MODE_MASK, c_reg16, c_ext16]
  · br_resolve
    br_emit
    rw [assembleImm_dword]
    · rfl
    · rfl
    · rfl
    · show v % 4294967296 ≤ 0xffffffff; omega
    · simp [checkZero, hr, t0, c_DATA_TRANSFER]
    · simp [zeroPads, hr, t0, e0, c_I]
    · simp [is16, opd0WidthMode, c_MODE_MASK, c_reg16, c_ext16]
  · have hm : (v % 4294967296) &&& 255 = v % 256 := by
      have := Nat.and_two_pow_sub_one_eq_mod (v % 4294967296) 8
      simp at this
      first | exact this | (rw [this]; omega)
    br_resolve
    br_emit
    rw [assembleImm_byte]
    · simp [c_MAX_UNSIGNED_8BIT, hm]
    · rfl
    · rfl
    · rfl
    · simp [c_MAX_UNSIGNED_8BIT, hm]; omega
    · simp [checkZero, hr1, t1, c_DATA_TRANSFER]
  · exact absurd ⟨rfl, rfl⟩ hx

/-- **jmp / jcc with a numeric displacement, every d in −2^31 .. 2^31−1, with and without `short` / `long`** (record level):
    rel8 exactly when d fits and `long` is absent (for negative d also only when `short` asks for it — otherwise the equally
    correct rel32 form), rejection exactly when `short` is requested for a d outside −128..127, rel32 otherwise; the
    displacement field is d's two's complement -/
theorem j_bytes (key : Int) (name : Str) (ops : List Nat) (o8 : Nat) (r r1 : Row) (hr : rowAt key = r) (hr1 : rowAt (key + 1) = r1)
    (hD : isD r ops) (hS : isS r1 o8) (hops : ∀ o ∈ ops, o < 256) (ho8' : o8 < 256) (hl : ops.length ≤ 4)
    (hnp : r.id ≠ c_push) (hnp1 : r1.id ≠ c_push)
    (v : Nat) (b : Bool) (opt : Nat) (sh lg : Bool) (hx : ¬ (sh = true ∧ lg = true))
    (hd : v < 0x80000000 ∨ (0xffffffff80000000 ≤ v ∧ v < 2 ^ 64)) :
    lineBytes opt (brRec key name sh lg v b) = jExpect ops o8 sh lg v := by
  rcases hd with h | ⟨h1, h2⟩
  · by_cases h8 : v ≤ 0x7f
    · exact j_pos8 key name ops o8 r r1 hr hr1 hD hS hops ho8' hl hnp hnp1 v b opt sh lg hx h8
    · exact j_pos32 key name ops o8 r r1 hr hr1 hD hS hops ho8' hl hnp hnp1 v b opt sh lg hx (by omega) h
  · by_cases h8 : 0xffffffffffffff80 ≤ v
    · exact j_neg8 key name ops o8 r r1 hr hr1 hD hS hops ho8' hl hnp hnp1 v b opt sh lg hx h8 h2
    · exact j_neg32 key name ops o8 r r1 hr hr1 hD hS hops ho8' hl hnp hnp1 v b opt sh lg hx h1 (by omega)


macro "br_dword" : tactic => `(tactic|
  (rw [assembleImm_dword] <;> first
    | rfl | (rw [Nat.mod_eq_of_lt (by omega)]) | (dsimp only; omega)
    | (simp [checkZero, c_DATA_TRANSFER, *]; done) | (simp [zeroPads, c_I, *]; done)
    | (simp [is16, opd0WidthMode, c_MODE_MASK, c_reg16, c_ext16]; done)))

/-- the expected code of `call / xbegin [short|long] d`: there is no rel8 form; `short` with a d outside −128..127 is rejected -/
def cExpect (ops32 : List Nat) (sh : Bool) (v : Nat) : Option Bytes :=
  if sh && decide (0x7f < v) && decide (v < 0xffffffffffffff80) then none else some (ops32 ++ leBytes 4 (v % 2 ^ 32))

set_option maxHeartbeats 4000000 in
theorem c_bytes (key : Int) (name : Str) (ops : List Nat) (r r1 : Row) (hr : rowAt key = r) (hr1 : rowAt (key + 1) = r1)
    (hD : isD r ops) (hN : r1.enc ≠ c_S) (hops : ∀ o ∈ ops, o < 256) (hl : ops.length ≤ 4) (hnp : r.id ≠ c_push)
    (v : Nat) (b : Bool) (opt : Nat) (sh lg : Bool) (hx : ¬ (sh = true ∧ lg = true))
    (hd : v < 0x80000000 ∨ (0xffffffff80000000 ≤ v ∧ v < 2 ^ 64)) :
    lineBytes opt (brRec key name sh lg v b) = cExpect ops sh v := by
  obtain ⟨t0, e0, s0, oc0, oi0⟩ := hD
  have h5 : ¬ r1.enc = 508 := hN
  have hsl := fun s => slots_fixed r s oi0 ops 0 hops (by omega)
  have oc0' : List.take ops.length r.opcode = ops := by rw [← s0]; exact oc0
  have hnp' : ¬ r.id = 109 := hnp
  unfold cExpect
  rcases hd with h | ⟨h1, h2⟩
  · by_cases h8 : v ≤ 0x7f
    · have a1 : ¬ 18446744069414584321 ≤ v := by omega
      have a2 : ¬ 4294967168 ≤ v := by omega
      have a3 : v ≤ 127 := h8
      have a4 : ¬ 127 < v := by omega
      cases sh <;> cases lg
      · br_resolve
        br_emit
        br_dword
      · br_resolve
        br_emit
        br_dword
      · br_resolve
        br_emit
        br_dword
      · exact absurd ⟨rfl, rfl⟩ hx
    · have a1 : ¬ 18446744069414584321 ≤ v := by omega
      have a2 : ¬ 4294967168 ≤ v := by omega
      have a3 : ¬ v ≤ 127 := h8
      have a4 : 127 < v := by omega
      have a5 : v < 18446744073709551488 := by omega
      cases sh <;> cases lg
      · br_resolve
        br_emit
        br_dword
      · br_resolve
        br_emit
        br_dword
      · br_resolve
      · exact absurd ⟨rfl, rfl⟩ hx
  · have a1 : 18446744069414584321 ≤ v := by omega
    have a1' : v ≤ 18446744073709551615 := by omega
    have a2 : 4294967168 ≤ v := by omega
    have a2' : ¬ v ≤ 4294967295 := by omega
    have a3 : ¬ v ≤ 127 := by omega
    have a4 : 127 < v := by omega
    by_cases h8 : 0xffffffffffffff80 ≤ v
    · have a5 : ¬ v < 18446744073709551488 := by omega
      cases sh <;> cases lg
      · br_resolve
        br_emit
        br_dword
      · br_resolve
        br_emit
        br_dword
      · br_resolve
        br_emit
        br_dword
      · exact absurd ⟨rfl, rfl⟩ hx
    · have a5 : v < 18446744073709551488 := by omega
      cases sh <;> cases lg
      · br_resolve
        br_emit
        br_dword
      · br_resolve
        br_emit
        br_dword
      · br_resolve
      · exact absurd ⟨rfl, rfl⟩ hx


/-- the expected code of `jrcxz d` (rel8 only): rejected unless −128 ≤ d ≤ 127 -/
def rExpect (o8 : Nat) (v : Nat) : Option Bytes :=
  if v ≤ 0x7f || decide (0xffffffffffffff80 ≤ v) then some [o8, v % 256] else none

macro "br_byte" : tactic => `(tactic|
  (rw [assembleImm_byte] <;> first
    | rfl | (simp [c_MAX_UNSIGNED_8BIT, *]; done) | (simp [c_MAX_UNSIGNED_8BIT, *]; omega)
    | (simp [checkZero, c_DATA_TRANSFER, *]; done)))

set_option maxHeartbeats 4000000 in
theorem r_bytes (key : Int) (name : Str) (o8 : Nat) (r r1 : Row) (hr : rowAt key = r) (hr1 : rowAt (key + 1) = r1)
    (hS0 : isS r o8) (hS : isS r1 o8) (ho8' : o8 < 256) (hnp : r.id ≠ c_push) (hnp1 : r1.id ≠ c_push)
    (v : Nat) (b : Bool) (opt : Nat) (sh lg : Bool) (hx : ¬ (sh = true ∧ lg = true))
    (hd : v < 0x80000000 ∨ (0xffffffff80000000 ≤ v ∧ v < 2 ^ 64)) :
    lineBytes opt (brRec key name sh lg v b) = rExpect o8 v := by
  obtain ⟨t0, e0, s0, oc0, oi0⟩ := hS0
  obtain ⟨t1, e1, s1, oc1, oi1⟩ := hS
  have h5 := and255 o8 ho8'
  have ho8z := fixed_of_lt o8 ho8'
  have hnp' : ¬ r.id = 109 := hnp
  have hnp1' : ¬ r1.id = 109 := hnp1
  unfold rExpect
  rcases hd with h | ⟨h1, h2⟩
  · by_cases h8 : v ≤ 0x7f
    · have a1 : ¬ 18446744069414584321 ≤ v := by omega
      have a2 : ¬ 4294967168 ≤ v := by omega
      have a3 : v ≤ 127 := h8
      have a4 : ¬ 127 < v := by omega
      have hm : v &&& 255 = v % 256 := by
        have := Nat.and_two_pow_sub_one_eq_mod v 8
        simpa using this
      cases sh <;> cases lg
      · br_resolve
        br_emit
        br_byte
      · br_resolve
        br_emit
        br_byte
      · br_resolve
        br_emit
        br_byte
      · exact absurd ⟨rfl, rfl⟩ hx
    · have a1 : ¬ 18446744069414584321 ≤ v := by omega
      have a2 : ¬ 4294967168 ≤ v := by omega
      have a3 : ¬ v ≤ 127 := h8
      have a4 : 127 < v := by omega
      have a5 : v < 18446744073709551488 := by omega
      have a6 : ¬ 18446744073709551488 ≤ v := by omega
      cases sh <;> cases lg
      · br_resolve
      · br_resolve
      · br_resolve
      · exact absurd ⟨rfl, rfl⟩ hx
  · have a1 : 18446744069414584321 ≤ v := by omega
    have a1' : v ≤ 18446744073709551615 := by omega
    have a2 : 4294967168 ≤ v := by omega
    have a2' : ¬ v ≤ 4294967295 := by omega
    have a3 : ¬ v ≤ 127 := by omega
    have a4 : 127 < v := by omega
    by_cases h8 : 0xffffffffffffff80 ≤ v
    · have a5 : ¬ v < 18446744073709551488 := by omega
      have a6 : 18446744073709551488 ≤ v := h8
      have hm : (v % 4294967296) &&& 255 = v % 256 := by
        have := Nat.and_two_pow_sub_one_eq_mod (v % 4294967296) 8
        simp at this
        first | exact this | (rw [this]; omega)
      cases sh <;> cases lg
      · br_resolve
        br_emit
        br_byte
      · br_resolve
        br_emit
        br_byte
      · br_resolve
        br_emit
        br_byte
      · exact absurd ⟨rfl, rfl⟩ hx
    · have a5 : v < 18446744073709551488 := by omega
      have a6 : ¬ 18446744073709551488 ≤ v := by omega
      cases sh <;> cases lg
      · br_resolve
      · br_resolve
      · br_resolve
      · exact absurd ⟨rfl, rfl⟩ hx


/-! ### instantiation on the regenerated table -/

def isDb (r : Row) (ops : List Nat) : Bool :=
  r.type == 4 && r.enc == 507 && r.size == ops.length && r.opcode.take r.size == ops && r.opOffI == 4294967295
def isSb (r : Row) (o8 : Nat) : Bool :=
  r.type == 4 && r.enc == 508 && r.size == 2 && r.opcode.take 2 == [o8, 1048576] && r.opOffI == 4294967295

theorem isD_of (r : Row) (ops : List Nat) (h : isDb r ops = true) : isD r ops := by
  unfold isDb at h
  simp only [Bool.and_eq_true, beq_iff_eq] at h
  exact ⟨h.1.1.1.1, h.1.1.1.2, h.1.1.2, h.1.2, h.2⟩
theorem isS_of (r : Row) (o8 : Nat) (h : isSb r o8 = true) : isS r o8 := by
  unfold isSb at h
  simp only [Bool.and_eq_true, beq_iff_eq] at h
  exact ⟨h.1.1.1.1, h.1.1.1.2, h.1.1.2, h.1.2, h.2⟩

def ops32 (key : Int) : List Nat := (rowAt key).opcode.take (rowAt key).size
def op8 (key : Int) : Nat := (rowAt (key + 1)).opcode.getD 0 0

/-- a `jmp`/`jcc` key: a rel32 row of fixed opcode bytes followed by its rel8 row -/
def jKeyOk (key : Int) : Bool :=
  isDb (rowAt key) (ops32 key) && isSb (rowAt (key + 1)) (op8 key) && (ops32 key).all (· < 256) && decide (op8 key < 256) &&
  decide ((ops32 key).length ≤ 4) && (rowAt key).id != c_push && (rowAt (key + 1)).id != c_push
/-- a `call`/`xbegin` key: a rel32 row not followed by a rel8 row -/
def cKeyOk (key : Int) : Bool :=
  isDb (rowAt key) (ops32 key) && (rowAt (key + 1)).enc != c_S && (ops32 key).all (· < 256) && decide ((ops32 key).length ≤ 4) &&
  (rowAt key).id != c_push
/-- the `jrcxz` key: two rel8 rows -/
def rKeyOk (key : Int) : Bool :=
  isSb (rowAt key) (op8 key) && isSb (rowAt (key + 1)) (op8 key) && decide (op8 key < 256) && (rowAt key).id != c_push &&
  (rowAt (key + 1)).id != c_push

/-- the displacement values of the property: −2^31 ≤ d < 2^31 as 64-bit two's complement -/
def disp32 (v : Nat) : Prop := v < 0x80000000 ∨ (0xffffffff80000000 ≤ v ∧ v < 2 ^ 64)

theorem j_key (key : Int) (hk : jKeyOk key = true) (name : Str) (v : Nat) (b : Bool) (opt : Nat) (sh lg : Bool)
    (hx : ¬ (sh = true ∧ lg = true)) (hd : disp32 v) :
    lineBytes opt (brRec key name sh lg v b) = jExpect (ops32 key) (op8 key) sh lg v := by
  unfold jKeyOk at hk
  simp only [Bool.and_eq_true, List.all_eq_true, decide_eq_true_eq, bne_iff_ne, ne_eq] at hk
  obtain ⟨⟨⟨⟨⟨⟨h1, h2⟩, h3⟩, h4⟩, h5⟩, h6⟩, h7⟩ := hk
  exact j_bytes key name (ops32 key) (op8 key) _ _ rfl rfl (isD_of _ _ h1) (isS_of _ _ h2) h3 h4 h5 h6 h7 v b opt sh lg hx hd

theorem c_key (key : Int) (hk : cKeyOk key = true) (name : Str) (v : Nat) (b : Bool) (opt : Nat) (sh lg : Bool)
    (hx : ¬ (sh = true ∧ lg = true)) (hd : disp32 v) :
    lineBytes opt (brRec key name sh lg v b) = cExpect (ops32 key) sh v := by
  unfold cKeyOk at hk
  simp only [Bool.and_eq_true, List.all_eq_true, decide_eq_true_eq, bne_iff_ne, ne_eq] at hk
  obtain ⟨⟨⟨⟨h1, h2⟩, h3⟩, h4⟩, h5⟩ := hk
  exact c_bytes key name (ops32 key) _ _ rfl rfl (isD_of _ _ h1) h2 h3 h4 h5 v b opt sh lg hx hd

theorem r_key (key : Int) (hk : rKeyOk key = true) (name : Str) (v : Nat) (b : Bool) (opt : Nat) (sh lg : Bool)
    (hx : ¬ (sh = true ∧ lg = true)) (hd : disp32 v) :
    lineBytes opt (brRec key name sh lg v b) = rExpect (op8 key) v := by
  unfold rKeyOk at hk
  simp only [Bool.and_eq_true, decide_eq_true_eq, bne_iff_ne, ne_eq] at hk
  obtain ⟨⟨⟨⟨h1, h2⟩, h3⟩, h4⟩, h5⟩ := hk
  exact r_bytes key name (op8 key) _ _ rfl rfl (isS_of _ _ h1) (isS_of _ _ h2) h3 h4 h5 v b opt sh lg hx hd

/-- every row of the regenerated table that takes a relative displacement (type CONTROL_FLOW, an immediate as only operand) -/
def relKeys : List Int :=
  ((List.range instrTable.length).map Int.ofNat).filter fun k => (rowAt k).type == 4 && (rowAt k).fmt0 == 1

/-- **every relative-branch row of the table is in one of the three classes** (jmp and the conditional jumps; call and xbegin; jrcxz) -/
theorem relKeys_classified : relKeys.all (fun k => jKeyOk k || cKeyOk k || rKeyOk k) = true := by decide +kernel

example : relKeys.length = 20 ∧ jKeyOk 85 = true ∧ cKeyOk 19 = true ∧ rKeyOk 100 = true ∧ ops32 88 = [15, 133] ∧ op8 88 = 117 := by decide +kernel

end AL.Lemmas.Branch
