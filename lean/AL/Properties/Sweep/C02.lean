/-
  C02 sweep — the whole quantifier domain of C02 (AL.Spec.X86Families) evaluated on the model of the
  library and the reference decoder.  This is a finite domain decided by EVALUATION: the proof term is
  `native_decide` (axiom Lean.ofReduceBool: the Lean compiler and interpreter are trusted for this
  theorem, the kernel does not re-check the computation — kernel evaluation of the text-level model
  costs about 55 ms per line, i.e. hours for this family).  Declared in the trusted base; the check
  also runs the same family on the C implementation itself.
-/
import AL.Properties.SweepDefs
import AL.Spec.X86FamiliesExtra
namespace AL.Properties.Sweep
open AL.Spec.X86

/-- **C02, every instance of the quick family**: each memory-capable entry over 92 base/index/scale/
    displacement shapes (none, rax, rsp, rbp, r12, r13 as base; rcx, r13 as index; disp8/disp32 of both signs;
    32-bit address registers), the key shapes in both factor orders and with size keyword for
    mov/lea/paddb/vaddpd, NASM and STRICT SIB handling -/
theorem c02_sweep : sweep [14, 2] (famC02 0) = true := by native_decide

/-- the instances of the quick family that the two SIB options can touch: no base register, or the stack pointer as index -/
def sibSensitive (it : Item) : Bool :=
  it.want.ops.any fun o => match o with
    | .mem m => m.base.isNone || m.index == some 4
    | _ => false

/-- **C02, the mixed SIB settings**: swap NASM with no-base STRICT (6) and swap STRICT with no-base NASM (10) on every instance
    either option can touch -/
theorem c02_sweep_mixed : sweep [6, 10] ((famC02 0).filter sibSensitive) = true := by native_decide

/-- **C02, the ends of the disp32 range**: −2^31, 2^31 − 1 and their neighbours on every kind of memory shape under a representative of
    every encoding class, hexadecimal and decimal (family `famC02x`) -/
theorem c02_sweep_extreme : sweep [14, 2] famC02x = true := by native_decide

end AL.Properties.Sweep
