/-
  C07 — no sequence of API calls writes outside the attached buffer.

  The model's memory is honest about out-of-bounds stores: `writeAt` never drops a byte, a
  store outside `[0, mem.length)` is appended to `Inst.oob`.  The theorems say that for an
  instance on a caller buffer of length `n`, after ANY finite history of option, chunk,
  offset (0 ≤ k ≤ n), assemble and counting calls — succeeding or failing, in plain, fitting
  or counting mode, for any text — `oob` is still empty, the buffer is still `n` bytes, and
  every call left the bytes before its own starting offset untouched; and that a call whose
  next instruction finds fewer than BUFFER_TOLERANCE bytes returns failure without storing it.
-/
import AL.Lemmas.Contain
namespace AL.Properties.C07
open AL AL.Impl AL.Gen AL.Lemmas

/- The theorems hold for EVERY per-line function `lfo` (whatever bytes or errors the encoder
    produces for a line under an option byte); the library is the instance `lfo = assembleLine`.
    Only `assemble_within_reserve` — the length test in `emitOne` — is needed, no fact about the
    encoder. -/

/-- the calls of the property -/
inductive Op
  | setter (w : Setter) (v : Nat)
  | chunk (c : Nat)
  | offset (k : Int)
  | asm (text : Str)
  | count (c : Int) (text : Str) (hasDest : Bool)

def stepOp (lfo : LineFnOf) (a : Inst) : Op → Inst
  | .setter w v => applySetter a w v
  | .chunk c => setChunkSize a c
  | .offset k => setOffset a k
  | .asm t => (asmAssembleStrWith lfo a t).1
  | .count c t d => (asmCountingChunksWith lfo a t c d).1

/-- `asm_set_offset(k)` is within the property's domain when 0 ≤ k ≤ n -/
def Op.valid (n : Nat) : Op → Prop
  | .offset k => 0 ≤ k ∧ k ≤ (n : Int)
  | _ => True

/-- invariant of an instance on a caller buffer of `n` bytes -/
structure J (n : Nat) (a : Inst) : Prop where
  ext  : a.external = true
  inv  : BufInv a
  len  : a.mem.length = n
  oob  : a.oob = []
  off0 : 0 ≤ a.offset
  offn : a.offset ≤ (n : Int)

theorem J_create (n : Nat) (fill : List Nat) (h : fill.length = n) : J n (createExternal n fill) :=
  ⟨rfl, by simp [BufInv, createExternal, h], h, rfl, by simp [createExternal],
   by simp only [createExternal]; omega⟩

theorem growth_ext (a : Inst) (h : a.external = true) : growth a = 0 := by simp [growth, h]

/-- the assemble/counting core: what `assemble_all` does to an instance satisfying `J` -/
theorem all_J (n : Nat) (hn : n + 60 < 2 ^ 31) (a : Inst) (hJ : J n a)
    (lf : Str → R LineOut × Nat) (text : Str) (d : Bool) :
    let res := assembleAll lf a text d
    res.a.external = true ∧ BufInv res.a ∧ res.a.mem.length = n ∧ res.a.oob = [] ∧
    res.a.offset = a.offset ∧ res.a.mem.take a.offset.toNat = a.mem.take a.offset.toNat ∧
    res.a.mode = a.mode ∧ res.a.chunkSize = a.chunkSize ∧ res.a.opt = a.opt ∧
    ∀ bp, res.ret = .ok bp → a.offset.toNat ≤ bp ∧ bp ≤ n := by
  have hg := growth_ext a hJ.ext
  obtain ⟨hf, hgr, hbp⟩ := assembleAll_post lf a text d hJ.inv hJ.off0 (by rw [hJ.len]; exact hJ.offn)
    (by rw [hg, hJ.len]; omega)
  have hl : (assembleAll lf a text d).a.mem.length = n := by rw [hf.ext_len hJ.ext, hJ.len]
  refine ⟨by rw [hf.external, hJ.ext], hf.inv, hl, by rw [hf.oob, hJ.oob], hf.offset, hf.pre,
    hf.mode, hf.chunk, hf.opt, ?_⟩
  intro bp h
  have := hbp bp h
  rw [hl] at this
  exact this

theorem toInt32_le (bp n : Nat) (h : bp ≤ n) (hn : n + 60 < 2 ^ 31) : toInt32 bp = (bp : Int) :=
  toInt32_small (by omega)

/-- replacing the offset of an instance that satisfies `J` by a value in `[0, n]` -/
theorem J_set_offset (n : Nat) (a : Inst) (k : Int) (h1 : a.external = true) (h2 : BufInv a)
    (h3 : a.mem.length = n) (h4 : a.oob = []) (h0 : 0 ≤ k) (hk : k ≤ (n : Int)) :
    J n { a with offset := k } := ⟨h1, h2, h3, h4, h0, hk⟩

theorem J_restore (n : Nat) (a : Inst) (m : Mode) (c : Nat) (h : J n a) :
    J n { a with mode := m, chunkSize := c } := ⟨h.ext, h.inv, h.len, h.oob, h.off0, h.offn⟩

/-- **C07, one call**: every call of the property preserves the invariant, and the assemble
    and counting calls leave everything before their starting offset unchanged. -/
theorem step_J (lfo : LineFnOf) (n : Nat) (hn : n + 60 < 2 ^ 31) (a : Inst) (hJ : J n a) (op : Op)
    (hv : op.valid n) :
    J n (stepOp lfo a op) ∧ (stepOp lfo a op).mem.take a.offset.toNat = a.mem.take a.offset.toNat := by
  cases op with
  | setter w v =>
    exact ⟨⟨hJ.ext, hJ.inv, hJ.len, hJ.oob, hJ.off0, hJ.offn⟩, rfl⟩
  | chunk c =>
    simp only [stepOp, setChunkSize]
    split
    · exact ⟨⟨hJ.ext, hJ.inv, hJ.len, hJ.oob, hJ.off0, hJ.offn⟩, rfl⟩
    · exact ⟨⟨hJ.ext, hJ.inv, hJ.len, hJ.oob, hJ.off0, hJ.offn⟩, rfl⟩
  | offset k =>
    exact ⟨⟨hJ.ext, hJ.inv, hJ.len, hJ.oob, hv.1, hv.2⟩, rfl⟩
  | asm t =>
    obtain ⟨h1, h2, h3, h4, h5, h6, _, _, _, h10⟩ := all_J n hn a hJ (lfo a.opt) t false
    simp only [stepOp, asmAssembleStrWith]
    cases hr : (assembleAll (lfo a.opt) a t false).ret with
    | error e =>
      exact ⟨⟨h1, h2, h3, h4, by rw [h5]; exact hJ.off0, by rw [h5]; exact hJ.offn⟩, h6⟩
    | ok bp =>
      have hb := h10 bp hr
      have hbi := toInt32_le bp n hb.2 hn
      exact ⟨J_set_offset n _ _ h1 h2 h3 h4 (by rw [hbi]; omega) (by rw [hbi]; omega), h6⟩
  | count c t d =>
    -- the call runs `assemble_all` on the instance with mode/chunk replaced, then restores them
    simp only [stepOp, asmCountingChunksWith]
    have hJ1 : J n (countSetup a c) := ⟨hJ.ext, hJ.inv, hJ.len, hJ.oob, hJ.off0, hJ.offn⟩
    have ho : (countSetup a c).offset = a.offset := rfl
    have hm : (countSetup a c).mem = a.mem := rfl
    generalize countSetup a c = a1 at *
    obtain ⟨h1, h2, h3, h4, h5, h6, _, _, _, h10⟩ := all_J n hn a1 hJ1 (lfo a1.opt) t d
    rw [ho, hm] at h6
    cases hr : (assembleAll (lfo a1.opt) a1 t d).ret with
    | error e =>
      exact ⟨J_restore n _ _ _ ⟨h1, h2, h3, h4, by rw [h5, ho]; exact hJ.off0,
        by rw [h5, ho]; exact hJ.offn⟩, h6⟩
    | ok bp =>
      have hb := h10 bp hr
      have hbi := toInt32_le bp n hb.2 hn
      have hJ2 := J_restore n _ a.mode a.chunkSize
        ⟨h1, h2, h3, h4, by rw [h5, ho]; exact hJ.off0, by rw [h5, ho]; exact hJ.offn⟩
      exact ⟨J_set_offset n _ (toInt32 bp) hJ2.ext hJ2.inv hJ2.len hJ2.oob
        (by rw [hbi]; omega) (by rw [hbi]; omega), h6⟩

/-- **C07, every history**: for a caller buffer of any length `n` (below 2 GiB) with any prior
    contents, after any finite sequence of valid calls nothing was stored outside the buffer. -/
theorem contained (lfo : LineFnOf) (n : Nat) (hn : n + 60 < 2 ^ 31) (fill : List Nat)
    (hfill : fill.length = n) (ops : List Op) (hv : ∀ op ∈ ops, op.valid n) :
    J n (ops.foldl (stepOp lfo) (createExternal n fill)) := by
  suffices h : ∀ a, J n a → J n (ops.foldl (stepOp lfo) a) from h _ (J_create n fill hfill)
  induction ops with
  | nil => intro a h; exact h
  | cons op rest ih =>
    intro a h
    simp only [List.foldl_cons]
    exact ih (fun o ho => hv o (List.mem_cons_of_mem _ ho)) _
      (step_J lfo n hn a h op (hv op List.mem_cons_self)).1

/-- in words: the out-of-bounds log is empty and the buffer still has its `n` bytes -/
theorem contained_oob (lfo : LineFnOf) (n : Nat) (hn : n + 60 < 2 ^ 31) (fill : List Nat)
    (hfill : fill.length = n) (ops : List Op) (hv : ∀ op ∈ ops, op.valid n) :
    (ops.foldl (stepOp lfo) (createExternal n fill)).oob = [] ∧
    (ops.foldl (stepOp lfo) (createExternal n fill)).mem.length = n :=
  ⟨(contained lfo n hn fill hfill ops hv).oob, (contained lfo n hn fill hfill ops hv).len⟩

/-- the library itself -/
theorem contained_lib (n : Nat) (hn : n + 60 < 2 ^ 31) (fill : List Nat) (hfill : fill.length = n)
    (ops : List Op) (hv : ∀ op ∈ ops, op.valid n) :
    (ops.foldl (stepOp assembleLine) (createExternal n fill)).oob = [] :=
  (contained_oob assembleLine n hn fill hfill ops hv).1

/-- **the reserve clause**: on a caller buffer, when fewer than BUFFER_TOLERANCE (20) bytes are
    left at the position of the next instruction, that instruction is not stored: the step
    fails and the run — memory included — is returned unchanged.  All three modes. -/
theorem no_room_fails (r : Run) (bs : Bytes) (hext : r.a.external = true)
    (hp : r.bufPos < 2 ^ 31) (hroom : (r.bufPos : Int) + 20 > r.a.bufLen) :
    (emitOne r bs).1 = r ∧ (emitOne r bs).2 ≠ none := by
  have hc := check_fail_external r.a r.bufPos hp hext hroom
  unfold emitOne
  cases hm : r.a.mode <;> simp only [hc]
  · cases r.brks <;> simp
  · simp
  · simp

/-- non-vacuity: a 24-byte buffer, a failing call in the middle, a fitting call, a counting call;
    the invariant's premises are satisfiable and the history is valid. -/
example : (∀ op ∈ [Op.asm (str! "mov rax, rbx"), .asm (str! "bogus"), .chunk 4, .offset 2,
      .asm (str! "add rax, 1"), .count 3 (str! "ret") true], op.valid 24) := by
  intro op h; simp only [List.mem_cons, List.mem_nil_iff, or_false] at h
  rcases h with rfl | rfl | rfl | rfl | rfl | rfl <;> simp [Op.valid]

end AL.Properties.C07
