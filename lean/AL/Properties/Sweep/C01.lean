/-
  C01 sweep — the whole quantifier domain of C01 (AL.Spec.X86Families) evaluated on the model of the
  library and the reference decoder.  This is a finite domain decided by EVALUATION: the proof term is
  `native_decide` (axiom Lean.ofReduceBool: the Lean compiler and interpreter are trusted for this
  theorem, the kernel does not re-check the computation — kernel evaluation of the text-level model
  costs about 55 ms per line, i.e. hours for this family).  Declared in the trusted base; the check
  also runs the same family on the C implementation itself.
-/
import AL.Properties.SweepDefs
namespace AL.Properties.Sweep
open AL.Spec.X86

/-- **C01, every instance**: each integer register form, synonym and no-operand instruction, under
    the default options and under all-STRICT options, decodes to the written instruction -/
theorem c01_sweep : sweep [14, 0] famC01 = true := by native_decide

end AL.Properties.Sweep
