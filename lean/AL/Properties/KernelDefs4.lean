/-
  AL.Properties.KernelDefs4 — the kernel-evaluable check for C04's forms with at most two register operands (MMX / SSE / AVX moves, the
  two-operand SSE arithmetic, psrldq / rorx with an immediate): the same statement as AL.Properties.KernelDefs, with immediates in the
  line text.  (A file of its own: the 267 modules of C01 import KernelDefs and would all be re-checked if that file changed.)
-/
import AL.Properties.KernelDefs
namespace AL.Properties.Kernel
open AL AL.Impl AL.Spec.X86

def hexDigL (n : Nat) : Nat := if n < 10 then 48 + n else 87 + n

def hexL : Nat → Nat → Str
  | 0, _ => []
  | fuel + 1, n => if n < 16 then [hexDigL n] else hexL fuel (n / 16) ++ [hexDigL (n % 16)]

/-- an immediate as the default style writes it: hexadecimal, negative when the top bit of its width is set -/
def immL (bits v : Nat) : Str :=
  if bits > 0 && v ≥ 2 ^ (bits - 1) then 45 :: 48 :: 120 :: hexL 20 (2 ^ bits - v) else 48 :: 120 :: hexL 20 v

/-- the line `<mnemonic> <operand>, …` over registers and immediates (none: a memory or branch operand) -/
def lineL4 (wmn : Mn) (ops : List Opnd) : Option Str :=
  match ops.mapM (fun o => match o with | .reg r => some (regNameL r) | .imm b v => some (immL b v) | _ => none) with
  | none => none
  | some [] => some wmn
  | some ns => some (wmn ++ 32 :: sepL ns)

/-- the per-instance check at option byte 14 on a given line text -/
def checkT (text : Str) (wmn : Mn) (d : Dec) : Bool :=
  match filterLine text with
  | none => false
  | some (f, _) =>
    !isSkipped f &&
    match lexLine f with
    | .error _ => !supportedForm (itemOf wmn d)
    | .ok s =>
      (match AL.Properties.C11.encoderInput s with | some e => AL.Properties.C11.optPlainB e | none => true) &&
      match resolveLine 14 s with
      | .error _ => !supportedForm (itemOf wmn d)
      | .ok s' => decodesTo wmn d (assembleAsm s')

/-- what C04 says about one written line under one option byte -/
def holdsAtT (opt : Nat) (text : Str) (wmn : Mn) (d : Dec) : Bool :=
  match (assembleLine opt text).1 with
  | .ok (.code bs) => decodesTo wmn d bs
  | .ok .skip => false
  | .error _ => !supportedForm (itemOf wmn d)

theorem checkT_sound (text : Str) (wmn : Mn) (d : Dec) (h : checkT text wmn d = true) (opt : Nat) : holdsAtT opt text wmn d = true := by
  unfold checkT at h
  unfold holdsAtT
  cases hf : filterLine text with
  | none => rw [hf] at h; exact absurd h (by simp)
  | some p =>
    obtain ⟨f, i⟩ := p
    rw [hf] at h
    dsimp only at h
    rw [Bool.and_eq_true] at h
    obtain ⟨hsk, h⟩ := h
    have hsk' : isSkipped f = false := by simpa using hsk
    have hguard : ∀ e, AL.Properties.C11.lineEncoderInput text = some e → AL.Properties.C11.optPlainB e = true := by
      intro e he
      unfold AL.Properties.C11.lineEncoderInput at he
      rw [hf] at he
      dsimp only at he
      rw [hsk'] at he
      simp only [Bool.false_eq_true, if_false] at he
      cases hlx : lexLine f with
      | error er => rw [hlx] at he; simp at he
      | ok s =>
        rw [hlx] at he h
        dsimp only at he h
        rw [Bool.and_eq_true] at h
        rw [he] at h
        exact h.1
    rw [AL.Properties.C11.other_lines_identical opt 14 text hguard]
    unfold assembleLine
    rw [hf]
    dsimp only
    rw [hsk']
    simp only [Bool.false_eq_true, if_false]
    cases hlx : lexLine f with
    | error er => rw [hlx] at h; exact h
    | ok s =>
      rw [hlx] at h
      dsimp only at h ⊢
      rw [Bool.and_eq_true] at h
      cases hr : resolveLine 14 s with
      | error er => rw [hr] at h; exact h.2
      | ok s' => rw [hr] at h; exact h.2

/-! ### the family -/

/-- number of register operands of an entry -/
def nReg (en : Enc) : Nat :=
  (en.ops.filter fun t => match t with | .rm .. | .rmReg .. | .reg .. | .vvvv .. | .opc _ | .acc _ => true | _ => false).length

/-- the vector / VEX entries with at most two register operands -/
def entriesC04 : List Enc := table.filter fun en => isVector en && decide (nReg en ≤ 2)

/-- registers over ALL tuples, immediates over the boundary values of a byte (as in famC04) -/
def fillC04 : Fill := { mems := noMems, imms := fun _ => [0, 1, 0x7f, 0x80, 0xff], rels8 := [], rels32 := [] }

def checkK4 (d : Dec) : Bool :=
  match lineL4 d.mn d.ops with
  | none => false
  | some text => checkT text d.mn d

/-- one cell: entry `i`, instances `192 k … 192 k + 191` -/
def cell4 (i k : Nat) : Bool :=
  match entriesC04[i]? with
  | none => true
  | some en => (((enumEnc fillC04 en).drop (k * sliceLen)).take sliceLen).all checkK4

end AL.Properties.Kernel
